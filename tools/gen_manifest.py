#!/usr/bin/env python3
"""Generate /verif/MANIFEST.json from the table below and validate it."""
import json, os, sys
ROOT = os.path.dirname(os.path.dirname(os.path.abspath(__file__)))

HOOK_COMMITS = ["87477a2", "09c8d9c", "83ac041"]

# id -> (category, technique, level text, level note, design ref, engine)
CHECKS = {
 "C07": ("exploration",
   "property-based testing (proptest): round-trip + differential against an independent BER codec; libFuzzer differential lane in thorough",
   "Generated tag trees, all-i64-biased integers, typed Tag trees, valid BER with generated non-minimal length forms and mutated byte strings are compared with an independent BER reader/writer (canonical-encoding equality, parse(encode)=id with trailing bytes, shortest two's complement). Exploration is the right level: the domain is unbounded (all trees / all i64) and the oracle is exact, so volume + boundary-biased generation is what finds defects here.",
   "Trusted base: harness/src/ber.rs (independent reader/writer, unit-tested against lber's own vectors), proptest. Tag numbers 0..30 only.",
   "DESIGN.md §3 C07", "harness"),
}

NOT_YET = {}  # filled below for every property without a check

def main():
    props = [json.loads(l) for l in open(os.path.join(ROOT, "properties.jsonl"))]
    checks = []
    na = []
    for p in props:
        pid = p["id"]
        if pid in CHECKS:
            cat, tech, text, note, ref, engine = CHECKS[pid]
            checks.append({
                "property_id": pid,
                "quick_cmd": f"./check {pid} --tier quick",
                "thorough_cmd": f"./check {pid} --tier thorough",
                "evidence_file": f"/verif/evidence/{pid}.json",
                "replay_cmd_template": f"./check {pid} --replay {{path}}",
                "engine": engine,
                "level_claimed": {"category": cat, "text": text, "design_ref": ref},
                "level_note": note,
                "technique": tech,
            })
        else:
            na.append({"property_id": pid, "reason": NOT_YET.get(pid, "check not built yet in this commit (planned: property-based testing, see DESIGN.md §3); not claimed until it exists")})
    m = {
        "version": 1,
        "setup_cmd": "cd /verif/harness && CARGO_NET_OFFLINE=true cargo build",
        "hooks": {
            "guard": "--cfg ldap3_verif (rustc cfg flag; set by /verif/harness/.cargo/config.toml and /verif/fuzz)",
            "enable": "RUSTFLAGS='--cfg ldap3_verif --cfg tokio_unstable' via /verif/harness/.cargo/config.toml; the harness depends on /repo and /repo/lber by path, so every check rebuilds /repo's working tree",
            "baseline_off_cmd": "cd /repo && cargo test --workspace --no-fail-fast --offline",
            "source_commits": HOOK_COMMITS,
            "add_only": True,
        },
        "engines": [
            {"name": "harness", "path": "/verif/harness", "serves_properties": sorted(CHECKS.keys()),
             "kind_free_text": "Rust crate: proptest-driven property checks with independent reference codecs/models, deterministic simulated transport (paused-clock tokio runtime), shrinking, replay files, evidence writer"},
        ],
        "checks": checks,
        "not_applicable": na,
        "notes": "Every check: ./check <ID> [--tier quick|thorough] [--seed N]; VERIF_SEED and VERIF_TIER are honoured. exit 0 held / 1 VIOLATION / 2 inconclusive (build or environment). Known findings: /verif/known_findings.json.",
    }
    out = os.path.join(ROOT, "MANIFEST.json")
    json.dump(m, open(out, "w"), indent=1)
    try:
        import jsonschema
        schema = json.load(open("/root/.vp/MANIFEST.schema.json"))
        jsonschema.validate(m, schema)
        print("MANIFEST.json valid;", len(checks), "checks,", len(na), "not claimed")
    except ImportError:
        print("jsonschema not available; wrote MANIFEST.json unvalidated")

if __name__ == "__main__":
    main()
