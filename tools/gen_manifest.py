#!/usr/bin/env python3
"""Generate /verif/MANIFEST.json from the table below and validate it."""
import json, os, sys
ROOT = os.path.dirname(os.path.dirname(os.path.abspath(__file__)))

HOOK_COMMITS = ["87477a2", "09c8d9c", "83ac041"]

# id -> (category, technique, level text, level note, design ref, engine)
CHECKS = {
 "C07": ("exploration",
   "property-based testing (proptest): round-trip + differential against an independent BER codec; libFuzzer differential lane in thorough",
   "Generated tag trees, all-i64-biased integers, typed Tag trees, valid BER with generated non-minimal length forms and mutated byte strings are compared with an independent BER reader/writer (canonical-encoding equality, parse(encode)=id with trailing bytes, shortest two's complement). Exploration is the right level: the domain is unbounded (all trees / all i64) and the oracle is exact, so volume + boundary-biased generation is what finds defects here.",
   "Trusted base: harness/src/ber.rs (independent reader/writer, unit-tested against lber's own vectors), proptest. Tag numbers 0..30 only.",
   "DESIGN.md §3 C07", "harness"),
 "C08": ("exploration",
   "property-based testing (proptest): generated filter ASTs rendered with generated escaping vs an independent strict RFC 4515 recogniser, RFC 4511 Filter decoder and canonical printer (metamorphic canon(s)==print(decode(encode))); mutation lane for rejection; exhaustive short strings",
   "Four executable clauses on every generated string: strict-grammar strings must be accepted with the AST they denote, provably malformed strings must be rejected, every accepted string must print back canonically to itself, and nothing may panic. Generated ASTs (depth<=5), single-malformation mutants, token/skeleton strings, random bytes, and an exhaustive enumeration of all strings up to length 4 (6 in thorough) over a 12-symbol alphabet.",
   "Trusted base: harness/src/filter.rs (strict recogniser, decoder, printer; self-checked against each generated AST and the RFC 4515 examples). Nesting bounded; ':DN' case variants are treated as ambiguous.",
   "DESIGN.md §3 C08, Appendix E", "harness"),
 "C09": ("exploration",
   "property-based testing (proptest) + exhaustive enumeration of short ASCII strings: escape-then-parse round trip judged by independent strict RFC 4515 / RFC 4514 readers",
   "For each generated string v, 12 filter templates with ldap_escape(v) and 5 DN templates with dn_escape(v) are read by independent strict readers (and by parse_filter + harness BER decoder) and must keep their structure with value == v; unescape round trip; identity on strings needing no escaping. All ASCII strings of length <=2 (<=3 thorough) are enumerated exhaustively.",
   "Trusted base: harness/src/dn.rs and harness/src/filter.rs strict readers (unit-tested on the RFC examples).",
   "DESIGN.md §3 C09, Appendix F", "harness"),
 "C15": ("exploration",
   "property-based testing (proptest): generated entries encoded by an independent BER writer with generated length forms, SearchEntry::construct output compared with a reference classification",
   "Entries with distinct attribute descriptions (with and without options such as ;binary) and values drawn from valid/empty/invalid UTF-8 in every order (incl. long valid text, 64 B - 192 KiB, with a multi-byte character on a power-of-two block boundary) are compared against the stated classification rule (exactly one map, text iff all values UTF-8 in order, else binary multiset).",
   "Trusted base: harness BER writer and entry model. DN and attribute descriptions are UTF-8 as in every well-formed entry.",
   "DESIGN.md §3 C15", "harness"),
 "C19": ("exploration",
   "property-based testing (proptest): request structs -> OID/criticality/BER value decoded by an independent codec vs RFC models; model-built response values with generated length forms -> parsed struct; control lists through the message envelope in both directions",
   "All 14 request controls/exops, 10 response value kinds and the control-list envelope are driven with generated field values over their RFC ranges and compared with RFC-derived reference encodings/decodings.",
   "Trusted base: harness BER codec, filter model and the RFC facts in DESIGN.md §3 C19. Response values stay within what the result structs can represent.",
   "DESIGN.md §3 C19", "harness"),
 "C20": ("exploration",
   "property-based testing (proptest): components formatted by an independent RFC 4516 writer with generated percent-encoding choices, get_url_params output compared with the components; one-error injection lane",
   "Base DN, attribute list (1-11 selectors), scope, filter and extension list are generated (incl. ? , = % # / spaces, non-ASCII; '/' raw or encoded), formatted with mandatory and random optional percent-encoding and parsed back; defaults for omitted components and the three documented error classes are checked.",
   "Trusted base: harness RFC 4516 writer; url::Url (the documented argument type). Attribute selectors are not percent-encoded (borrowed &str by design).",
   "DESIGN.md §3 C20", "harness"),
 "C01": ("exploration",
   "property-based testing (proptest) of generated concurrent histories on a deterministic simulated connection (scripted transport, paused-clock runtime with seeded select! order); token-tracing oracle",
   "1-12 operations on 1-4 cloned handles, a generated global merge order of all response PDUs, unsolicited/late PDUs, entry padding up to 300 KB, windows during which the client's socket cannot be written to, long tails of late entries, a lagging consumer with >1000 unread items, id-counter rewinds (ids of completed operations handed out again), read segmentation and scheduler seed; every operation must observe exactly the tokens the server sent under its own wire id, in order, and nobody may see an unsolicited token. Lane premature: responses under ids that have not been issued yet arrive while the client is idle; the operations given those ids afterwards must be served normally.",
   "Trusted base: harness SIM (src/sim.rs), response model, tokio paused clock and RngSeed. Schedules are sampled, not enumerated.",
   "DESIGN.md §3 C01, §2.2", "harness"),
 "C02": ("exploration",
   "property-based testing (proptest) of generated operation histories with per-operation modifiers; the client->server byte log is decoded by an independent strict RFC 4511 decoder and compared with a request model built from the call arguments",
   "Whole Ldap surface with arbitrary arguments (incl. empty/large/binary), modifiers before every kind of op including locally failing ones, operations on clones taken while modifiers are pending on the handle; exactly one well-formed message per issued op with the right fields, id and controls; leaked timeouts exposed by delayed answers on the virtual clock.",
   "Trusted base: harness strict request decoder (src/model.rs), SIM. Limits/ids within 0..maxInt.",
   "DESIGN.md §3 C02", "harness"),
 "C03": ("exploration",
   "property-based testing (proptest): model-built responses encoded by an independent BER writer with generated length forms; decoded directly (decoder hook + LdapResult::from) and end-to-end through real operation futures on the simulated connection; helper truth table",
   "All 8 result-bearing response types with arbitrary codes/strings/referrals/controls/extended fields; every field delivered must equal the model; success()/non_error()/equal() helpers checked against the documented codes on every generated code.",
   "Trusted base: harness BER writer and response model. Only legal BER is generated.",
   "DESIGN.md §3 C03", "harness"),
 "C06": ("exploration",
   "property-based testing (proptest) with exhaustive sub-spaces: generated message streams fed to the frame decoder under generated partitions, every 2-chunk split and every prefix of short streams; end-to-end lane through the scripted transport with generated read sizes",
   "Delivered (id, op, controls) sequence must equal the model for every partition; no message before its last byte; after each delivery exactly the following bytes remain. Exhaustive over all split points for streams <= 600 bytes; a 'huge' lane places a 1-16 MiB message inside a stream with followers in the same read; the e2e lane also sends bursts of 1000-3000 minimal messages that sit in the grown read buffer at once.",
   "Trusted base: harness BER writer; Framed's append-then-decode contract emulated in the decoder lane, real Framed in the e2e lane.",
   "DESIGN.md §3 C06", "harness"),
 "C10": ("exploration",
   "property-based testing (proptest), model-based: generated server item sequences x stream variant x call script of next/finish/state, every return value compared with a reference state machine on the simulated connection",
   "Direct, EntriesOnly, user pass-through adapter, both chain orders and search(); scripts that leave the happy path (next after end, early finish, next after finish, double finish), connection cuts, a user adapter that runs a second search configured with adapter_chain_tail(); every call result and every state() must equal the reference state machine of DESIGN.md Appendix B.",
   "Trusted base: reference state machine in harness/src/props/c10.rs, SIM, response model.",
   "DESIGN.md §3 C10, Appendix B", "harness"),
 "C13": ("exploration",
   "property-based testing (proptest) of generated operation histories on the simulated connection; invariant (empty id table, empty routing maps) checked at every virtual-clock quiescent point via the id-table and gauge hooks",
   "Histories up to 42 steps mixing every operation kind, timeouts with late replies, replies that tie with the deadline (reply and scrub request reach the driver in the same turn; seeded select! order), timeouts while the request is still queued behind a full socket send buffer (answered later or never), direct/adapted/paged searches read to the end or finished early (also while still open at the driver), abandons of finished/timed-out/in-flight/never-issued ids and of mid-stream searches (then finished or dropped), foreign-type responses under a live search id, search() timeouts, operations that fail locally before anything is sent (adapter init, bad filter, value-less add), two operations timing out in the same instant, a paged search finished early while the id of its first page is re-used by an outstanding operation, a Notice of Disconnection in the middle of a search, an abandoned operation whose caller notices only after its id was handed out again, unsolicited responses and rewinds of the id counter; after every step nothing may remain reserved or routed.",
   "A second lane establishes real loopback connections through StartTLS (the driver's single-operation mode) and checks the same invariant. Trusted base: hooks verif_msgmap/verif_gauges (read-only), SIM quiescence (paused clock).",
   "DESIGN.md §3 C13", "harness"),
 "C16": ("exploration",
   "property-based testing (proptest): generated server paginations, cookies, accompanying controls/options and adapter chains on the simulated connection; request stream decoded by the independent RFC 4511 decoder, item stream compared with the concatenation of pages",
   "1-5 pages incl. empty first/middle pages and a single page, binary cookies, boundary-biased size estimates (0..2^31-1), other controls around the paging control, three adapter chains, caller-supplied paging control, early finish; the scripted server bounds the number of requests and flags any request after the empty cookie.",
   "Trusted base: SIM, strict request decoder, response model.",
   "DESIGN.md §3 C16", "harness"),
 "C04": ("fault_enumeration",
   "property-based scenario generation (proptest) + exhaustive fault injection: every connection-failure kind at every byte boundary of the scenario's request and response streams on the deterministic simulated connection, virtual-clock watchdog as hang detector",
   "Per generated scenario (1-5 pending operations/streams, merge order, read/write segmentation) the response and request streams are fixed by a fault-free run; then EOF and reset after every byte, seven other I/O error kinds at and just behind every PDU boundary, undecodable frames at every PDU boundary, unbind at every PDU boundary and inside every PDU, write failure and zero-length write after every request byte (requests up to 70 KB) and last-handle drop are injected and each run is judged (termination, delivered responses intact, all other pending work fails, later operations fail immediately, transport closed). A second lane does the same for searches that span several requests (PagedResults streams: fault after every response PDU, right behind a page result or after the follow-up request).",
   "Trusted base: SIM (scripted transport with fault injection, paused clock => the watchdog firing proves a future can never complete; a reader polling a finished transport >2000 times is parked and reported as livelock). Client-side events are injected at driver quiescence only.",
   "DESIGN.md §3 C04", "harness"),
 "C05": ("exploration",
   "property-based testing (proptest), model-based: the real allocator driven through hooks against a reference model from generated table states; end-to-end wave histories near the wrap point on the simulated connection; real-thread stress lane checking uniqueness",
   "Allocator vs. reference model from arbitrary (counter, in-use) states incl. clusters at both ends of the id space; the scripted server verifies range/uniqueness of ids of outstanding requests (single operations, searches that stay open, AbandonRequests) across the MAX->1 wrap and that an outstanding operation's id stays reserved; 2-16 OS threads allocate concurrently on clones and no id may repeat. Lane timeout-release: operations started by hand in the very instant another one's timeout fires (before the driver has run), counter positioned just below the timed-out id: outstanding ids stay reserved and unique.",
   "Trusted base: hooks verif_msgmap/verif_next_msgid; thread interleavings inside the critical section are sampled, not enumerated.",
   "DESIGN.md §3 C05", "harness"),
 "C12": ("exploration",
   "property-based testing (proptest) of generated timed histories on the paused virtual clock; exact-instant oracle (1 ms granularity), token tracing for late replies, id-table hooks for release/reuse",
   "Timed and untimed single operations and direct/EntriesOnly/PagedResults searches (paged ones with generated page ends answered by follow-up requests), searches through search(), timeouts set by a user adapter inside start(), timed-out streams dropped without finish(), concurrent on clones or chained on ONE handle (so timed-out operations are followed by timed and untimed ones on the same handle), with scripted arrival instants before/after/never relative to the deadline; timeouts must fire at start+T (per next() call for searches, also on page 2+), other and later operations complete with their own tokens, late replies reach nobody, timed-out ids are released, handed out again and work for the operation that gets them; practically infinite timeouts (up to Duration::MAX) still return the response. A second lane queues 0-89 requests behind a driver stuck in a socket write and demands that a timed operation still times out exactly at its deadline.",
   "Trusted base: tokio paused clock (time advances only at global idleness), SIM, hooks. No ties (|arrival-deadline| >= 2 ms).",
   "DESIGN.md §3 C12", "harness"),
 "C11": ("exploration",
   "property-based testing (proptest) with a single-field mutation catalogue over valid messages + random bytes against the frame decoder (catch_unwind, progress rule) and against the live driver on the simulated connection; child-process stack lane for nesting depth; libFuzzer lane in thorough",
   "Decoder: never a panic, no 'need more' once the outer frame is complete, exact consumption, definite non-envelopes (incl. over-long message ids whose low octets alias a valid id) never delivered. Driver: with 1-3 operations pending, hostile bytes (alone or in the same read behind 1-3 well-formed frames; targets incl. message id 0) never panic or wedge the driver (virtual watchdog) and definite non-envelopes end the connection with an error every pending operation observes. Stack: up to ~250 000 nested elements (definite and indefinite length forms) in 1 MiB decoded on a 2 MiB stack in a child process. Skeletons: exhaustive enumeration of all envelopes of 0-4 (thorough 0-5) elements over a 14-element alphabet.",
   "Trusted base: harness BER reader (classification of 'definitely not an envelope'), SIM. A panic in the caller's task on a well-enveloped ill-formed result is outside the statement and only labelled.",
   "DESIGN.md §3 C11, Appendix D", "harness"),
 "C17": ("fault_enumeration",
   "exhaustive enumeration of the establishment fault product (scheme x verification x server certificate x StartTLS reply x post-reply behaviour, 225 cells) with generated parameters per cell, against an adversarial TLS server on real loopback sockets that records every raw byte",
   "Every adversarial establishment behaviour is enumerated (StartTLS replies: success, non-zero code with the server still ready to handshake, garbage, close, non-extended response, a foreign-id success ahead of the real refusal; plus a 28-code sweep; the settings object is built in five ways: new()/default() base, two builder-call orders, a clone, the blocking API); oracle: only the StartTLS request and TLS records travel in cleartext, Ok iff TLS was really established under the effective trust settings, operations after Ok travel inside TLS and never see forged cleartext responses; a client-side hang until the guard is a violation because the scripted server always acts immediately.",
   "Trusted base: native-tls/OpenSSL acceptor, committed test PKI (/verif/tls), harness BER/request decoder. Real sockets and wall time; env-* problems (bind, 20 s guard) yield exit 2.",
   "DESIGN.md §3 C17", "harness"),
 "C18": ("exploration",
   "property-based testing (proptest) of generated URL x settings combinations through both the async and sync constructors against real loopback endpoints; a reference model of the documented dispatch predicts the outcome class and which endpoint must receive the connection",
   "Schemes, host forms, ports (incl. default 389/636 listeners bound by the harness), percent-encoded socket paths (also with ':' and a literal '%41' in the name), a host that does not resolve behind a pre-opened stream, StartTLS, pre-opened streams of every kind, connection timeouts, silent servers and broken URLs; per-case listeners count accepts so a connection to the wrong endpoint is visible; panics are always violations.",
   "Trusted base: dispatch model of DESIGN.md Appendix C, harness servers, test PKI. Real sockets/wall time: env-* problems are exit 2; undefined URLs only checked for panics.",
   "DESIGN.md §3 C18, Appendix C", "harness"),
 "C14": ("exploration",
   "property-based testing (proptest), differential: the same generated script is executed through LdapConn/EntryStream and through Ldap/SearchStream against the same scripted server logic over Unix sockets; transcripts (decoded by the independent RFC 4511 decoder) and all return values are compared",
   "Scripts over the whole sync surface incl. all four constructors, the three modifiers, every operation, streams read to the end or stopped early, and server behaviours success / error code / silence with client timeout / a search dripping entries slower in total than the timeout but never per item / disconnect; wire transcripts and results must be equal between the two APIs.",
   "Trusted base: harness request decoder, blocking scripted server. Real time but never borderline (immediate answers, or silence with a 40 ms timeout in both runs); after a disconnect that the failing call itself observed only locally answered calls (is_closed, get_peer_certificate, last_id) are compared.",
   "DESIGN.md §3 C14", "harness"),
}

NOT_YET = {}

def main():
    props = [json.loads(l) for l in open(os.path.join(ROOT, "properties.jsonl"))]
    checks = []
    na = []
    for p in props:
        pid = p["id"]
        if pid in CHECKS:
            cat, tech, text, note, ref, engine = CHECKS[pid]
            checks.append({
                "property_id": pid,
                "quick_cmd": f"./check {pid} --tier quick",
                "thorough_cmd": f"./check {pid} --tier thorough",
                "evidence_file": f"/verif/evidence/{pid}.json",
                "replay_cmd_template": f"./check {pid} --replay {{path}}",
                "engine": engine,
                "level_claimed": {"category": cat, "text": text, "design_ref": ref},
                "level_note": note,
                "technique": tech,
            })
        else:
            na.append({"property_id": pid, "reason": NOT_YET.get(pid, "check not built yet in this commit (planned: property-based testing, see DESIGN.md §3); not claimed until it exists")})
    m = {
        "version": 1,
        "setup_cmd": "cd /verif/harness && CARGO_NET_OFFLINE=true cargo build",
        "hooks": {
            "guard": "--cfg ldap3_verif (rustc cfg flag; set by /verif/harness/.cargo/config.toml and /verif/fuzz)",
            "enable": "RUSTFLAGS='--cfg ldap3_verif --cfg tokio_unstable' via /verif/harness/.cargo/config.toml; the harness depends on /repo and /repo/lber by path, so every check rebuilds /repo's working tree",
            "baseline_off_cmd": "cd /repo && cargo test --workspace --no-fail-fast --offline",
            "source_commits": HOOK_COMMITS,
            "add_only": True,
        },
        "engines": [
            {"name": "harness", "path": "/verif/harness", "serves_properties": sorted(CHECKS.keys()),
             "kind_free_text": "Rust crate: proptest-driven property checks with independent reference codecs/models, deterministic simulated transport (paused-clock tokio runtime), shrinking, replay files, evidence writer"},
        ],
        "checks": checks,
        "not_applicable": na,
        "notes": "Every check: ./check <ID> [--tier quick|thorough] [--seed N]; VERIF_SEED and VERIF_TIER are honoured. exit 0 held / 1 VIOLATION / 2 inconclusive (build or environment). Known findings: /verif/known_findings.json.",
    }
    out = os.path.join(ROOT, "MANIFEST.json")
    json.dump(m, open(out, "w"), indent=1)
    try:
        import jsonschema
        schema = json.load(open("/root/.vp/MANIFEST.schema.json"))
        jsonschema.validate(m, schema)
        print("MANIFEST.json valid;", len(checks), "checks,", len(na), "not claimed")
    except ImportError:
        print("jsonschema not available; wrote MANIFEST.json unvalidated")

if __name__ == "__main__":
    main()
