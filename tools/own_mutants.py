#!/usr/bin/env python3
"""Hand-written single-site mutants (from the M lists of DESIGN.md section 3). Each is applied to /repo,
must compile and keep the 38 tests green, then the property's quick check must exit 1; /repo is restored."""
import subprocess, sys, json, os
M = [
 ("C01","src/conn.rs","                        if remove {\n                            self.searchmap.remove(&id);","                        if remove && id % 2 == 0 {\n                            self.searchmap.remove(&id);","searchmap entry not removed on done for odd ids"),
 ("C03","src/result.rs","                    3 => {\n                        refs.extend(parse_refs(comp));","                    4 => {\n                        refs.extend(parse_refs(comp));","referral tag 3 -> 4"),
 ("C03","src/result.rs","        if self.rc == 0 {\n            Ok(self)\n        } else {\n            Err(LdapError::from(self))\n        }\n    }\n\n    /// If the result code is 0 or 10","        if self.rc == 0 || self.rc == 10 {\n            Ok(self)\n        } else {\n            Err(LdapError::from(self))\n        }\n    }\n\n    /// If the result code is 0 or 10","success() accepts 10"),
 ("C03","src/result.rs","            5 => Ok(false),\n            6 => Ok(true),","            5 => Ok(true),\n            6 => Ok(false),","equal() swapped"),
 ("C04","src/conn.rs","                                    if let Err(e) = self.stream.get_mut().shutdown().await {\n                                        warn!(\"socket shutdown error: {}\", e);\n                                    }","","unbind without shutdown"),
 ("C05","src/ldap.rs","            if next_ldap_id == std::i32::MAX {\n                next_ldap_id = 1;","            if next_ldap_id == std::i32::MAX {\n                next_ldap_id = 0;","wrap to 0"),
 ("C05","src/ldap.rs","            if next_ldap_id == std::i32::MAX {","            if next_ldap_id >= std::i32::MAX - 1 {","wrap at MAX-1"),
 ("C05","src/ldap.rs","        msgmap.1.insert(next_ldap_id);\n        next_ldap_id","        next_ldap_id","forget the insert"),
 ("C12","src/ldap.rs","        let response = if let Some(timeout) = self.timeout.take() {","        let response = if let Some(timeout) = self.timeout {","timeout.take() -> copy (timeout persists)"),
 ("C15","src/search.rs","                .collect::<Vec<String>>();\n            if any_binary {","                .rev()\n                .collect::<Vec<String>>();\n            if any_binary {","text values reversed"),
 ("C16","src/adapters.rs","                            if pr.cookie.is_empty() {\n                                break;\n                            }","                            if pr.cookie.len() <= 1 {\n                                break;\n                            }","stop paging on 1-byte cookies"),
 ("C16","src/adapters.rs","                                    size: self.page_size,\n                                    cookie: pr.cookie.clone(),","                                    size: self.page_size - 1,\n                                    cookie: pr.cookie.clone(),","page size changes on follow-ups"),
 ("C19","src/controls_impl/content_sync.rs","            RefreshMode::RefreshAndPersist => 3,","            RefreshMode::RefreshAndPersist => 2,","refreshAndPersist encoded as 2"),
 ("C19","src/exop_impl/txn.rs","        if !et.commit {","        if et.commit {","EndTxn commit flag inverted"),
 ("C20","src/util.rs","    let mut query = url.query().unwrap_or(\"\").splitn(4, '?');","    let mut query = url.query().unwrap_or(\"\").splitn(3, '?');","splitn(4 -> 3)"),
 ("C20","src/util.rs","            \"one\" => Scope::OneLevel,\n            \"sub\" => Scope::Subtree,","            \"one\" => Scope::Subtree,\n            \"sub\" => Scope::OneLevel,","scope words swapped"),
 ("C20","src/util.rs","        Some(\"\") | None => \"(objectClass=*)\",","        Some(\"\") | None => \"(objectclass=*)\",","default filter changed"),
 ("C02","src/search.rs","                    inner: scope as i64,","                    inner: (scope as i64 + 1) % 3,","scope rotated"),
 ("C02","src/ldap.rs","                                Mod::Delete(attr, set) => (1, attr, set),\n                                Mod::Replace(attr, set) => (2, attr, set),","                                Mod::Delete(attr, set) => (2, attr, set),\n                                Mod::Replace(attr, set) => (1, attr, set),","mod numbers permuted"),
 ("C02","src/ldap.rs","                id: 0,\n                class: TagClass::Context,\n                inner: Vec::from(new_sup.as_bytes()),","                id: 1,\n                class: TagClass::Context,\n                inner: Vec::from(new_sup.as_bytes()),","newSuperior tag [0] -> [1]"),
 ("C14","src/sync.rs","        rt.block_on(async move { ldap.modifydn(dn, rdn, delete_old, new_sup).await })","        rt.block_on(async move { ldap.modifydn(dn, rdn, !delete_old, new_sup).await })","sync modifydn inverts delete_old"),
 ("C14","src/sync.rs","        rt.block_on(async move { stream.finish().await })","        rt.block_on(async move { let _ = stream.next().await; stream.finish().await })","EntryStream::result calls next first"),
 ("C09","src/util.rs","        c == b'\\\\' || c == b'*' || c == b'(' || c == b')' || c == 0","        c == b'\\\\' || c == b'*' || c == b'(' || c == b')'","NUL not escaped by ldap_escape"),
 ("C07","lber/src/write.rs","    if length < 128 {","    if length <= 128 {","short form for 128"),
 ("C07","lber/src/structures/boolean.rs","            payload: structure::PL::P(if self.inner { vec![0xFF] } else { vec![0x00] }),","            payload: structure::PL::P(if self.inner { vec![0x01] } else { vec![0x00] }),","TRUE = 01"),
 ("C13","src/conn.rs","                        self.resultmap.remove(&req_id);\n                        self.searchmap.remove(&req_id);","                        self.resultmap.remove(&req_id);","scrub does not touch searchmap"),
 ("C10","src/adapters.rs","                    if re.is_intermediate() {\n                        continue;\n                    } else if re.is_ref() {","                    if re.is_ref() {","EntriesOnly forwards intermediates"),
 ("C06","src/protocol.rs","    buf.advance(buf.len() - i.len());","    buf.advance((buf.len() - i.len()).max(1).min(buf.len()));\n    let _ = i;","advance variant (no-op control)"),
]
def sh(cmd, **kw): return subprocess.run(cmd, shell=True, capture_output=True, text=True, **kw)
assert sh("git -C /repo status --short").stdout.strip()=="", "/repo dirty"
res=[]
only=set(sys.argv[1:])
for pid,f,old,new,desc in M:
    if only and pid not in only: continue
    p=os.path.join("/repo",f); s=open(p).read()
    if s.count(old)!=1:
        res.append((pid,desc,"PATTERN-NOT-FOUND")); continue
    open(p,"w").write(s.replace(old,new))
    t=sh("cd /repo && cargo test --workspace --offline 2>&1 | grep -E 'test result|^error' | head -4")
    green = "FAILED" not in t.stdout and "error" not in t.stdout and "failed" not in t.stdout.replace("0 failed","")
    c=sh(f"cd /verif && timeout 900 ./check {pid} --tier quick 2>&1 | grep -E 'violation in|INCONCL' | head -1")
    rc=sh(f"cd /verif && ./check {pid} --tier quick >/dev/null 2>&1; echo $?").stdout.strip() if False else None
    out=c.stdout.strip()
    sh("git -C /repo checkout -- .")
    res.append((pid,desc,("tests-green " if green else "TESTS-RED ")+ (out[:150] if out else "NOT DETECTED")))
    print(res[-1], flush=True)
