#!/usr/bin/env python3
"""write_meta_r9.py : meta.json for the round-9 changes + the DESIGN.md table (0.5.9). Outcomes come from
seeded/<name>/auto.json (process_seeded.py, the property's own check as first run) and final.json (rerun_seeded.py)."""
import json,os,glob
NOTE_C05="see DESIGN.md 0.5.9"
import sys
RND=sys.argv[1] if len(sys.argv)>1 else '9'
desc=json.load(open(f'/verif/seeded/r{RND}_descriptions.json'))
# strengthened from the agent's description BEFORE the patch was first applied (not observed to be missed)
pre={
"C10-r10A":"C10: a quarter of the cases set a size limit of 1-4 (with_search_options) which the server does not honour; the caller must still get exactly what was sent",
"C13-r9A":"C13 step SearchAdapterError: a user-defined adapter that fails in next() after 0-3 items while the search is open at the server (alone or chained in front of EntriesOnly), then finish()",
"C11-r9A":"C11 skeleton alphabet: ExtendedResponse with 3 / 1 / 0 elements (17 elements instead of 14), so the AD-style [10] trailer is enumerated behind the operation it belongs to",
"C12-r9A":"C12: single operations with a ZERO timeout (response 2-25 ms late or never): Timeout at the instant of the call",
"C19-r9A":"C19/C03/C02 control lists: rarely 6-100 controls, biased to 15-17, 31-34, 63-65, 100",
}
# observed missed by the property's own check, then caught after a strengthening
post={
"C15-r10A":"C15 values: long VALID text (64 B .. 192 KiB) whose multi-byte character sits on or next to a power-of-two block boundary",
"C18-r10A":"C18: the percent-escapes of ldapi socket paths are written with lower-case hex digits in every second noise class (RFC 3986: case-insensitive)",
"C04-r10A":"C04 scenarios: a third deliver the bytes in alternating small (3-62) and large (150-2149) reads, so a response is split and the read completing it brings the following ones; C06 (e2e lane) and C01 (routing lane) caught the change as built",
"C05-r9A":"new C05 lane `timeout-release`: a second operation is started in the very instant a timeout fires (before the driver task has run) with the counter just below the timed-out id, a third just below the second's; outstanding ids must stay reserved and unique (C05 e2e, C12 and C13 as built all exit 0 with the patch)",
"C01-r9A":"new C01 lane `premature`: responses under ids that have not been issued yet (allocator's next id + 0..3) arrive while the client is idle, then 1-5 operations; also C13 step Unsolicited kinds 3/4 (stray result/entry under the next id)",
}
rows=[]
for d in sorted(glob.glob(f'/verif/seeded/*-r{RND}[A-D]')):
    n=os.path.basename(d); pid=n.split('-')[0]
    fin=json.load(open(d+'/final.json')) if os.path.exists(d+'/final.json') else None
    auto=json.load(open(d+'/auto.json'))
    if fin:
        caught=[f"{k}: {v['signature']} ({v['lane']} lane)" for k,v in fin['results'].items() if v['exit']==1]
        exits={k:v['exit'] for k,v in fin['results'].items()}
    else:
        caught=[f"{pid}: {auto['signature']} ({auto['lane']} lane)"] if auto['check_exit']=="1" else []
        exits={pid:int(auto['check_exit'])}
    meta={"id":n,"property":pid,"round":int(RND),
     "origin":"independent sub-agent given only the property text, hints towards less obvious code paths, the list of mechanisms used in earlier rounds, and a scratch worktree",
     "change":desc[n]['change'],"needs_to_manifest":desc[n]['needs_to_manifest'],
     "confirmed":"tools/confirm_seeded.sh in a scratch worktree: patch applies, cargo test --workspace --offline green with it, demo.rs fails with the patch and passes without ("+"; ".join(auto.get('confirm_log',[]))+")",
     "ran":f"tools/run_against.sh /verif/seeded/{n}/patch.diff "+" ".join(exits.keys()),
     "first_run_of_own_check":{"exit":auto['check_exit'],"signature":auto['signature']},
     "detected_by":caught if caught else "not detected",
     "exit_code_with_patch":exits,
     "initially_missed": n in post or n in pre}
    if n in pre:
        meta["strengthening"]=pre[n]; meta["note"]="strengthened from the agent's description before the patch was first applied ('initially missed' inferred from the generator's domain, not observed)"
    if n in post:
        meta["strengthening"]=post[n]; meta["note"]="observed missed by the check as built (exit 0 with the patch), caught after the strengthening"
    json.dump(meta,open(d+'/meta.json','w'),indent=1)
    esc=lambda s:s.replace('|','\\|')
    note=("strengthened first (from the description): "+pre[n]) if n in pre else ("missed at first; added: "+post[n]) if n in post else "caught as built"
    rows.append(f"| {n} | {esc(meta['needs_to_manifest'])} | {esc('; '.join(caught) if caught else 'NOT DETECTED')} | {esc(note)} |")
open('/tmp/r'+RND+'_rows.md','w').write("\n".join(rows)+"\n")
print(len(rows))
