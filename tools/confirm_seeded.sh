#!/bin/bash
# confirm_seeded.sh <worktree> <patch> <demo-src> <demo-dest-relative> <rustflags-or-> <cargo test args...>
# Confirms in a scratch worktree: (1) the patch applies, builds, keeps the existing tests green;
# (2) the demo fails with the patch; (3) the demo passes without it.
WT="$1"; PATCH="$2"; DEMO="$3"; DEST="$4"; RF="$5"; shift 5
export CARGO_TARGET_DIR="$WT/target" CARGO_NET_OFFLINE=true
cd "$WT" || exit 2
git checkout -q -- . && git clean -qfd -e out -e target >/dev/null
git apply "$PATCH" || { echo "CONFIRM: patch does not apply"; exit 1; }
if ! cargo test --workspace --offline >"$WT/out/confirm-existing.log" 2>&1; then echo "CONFIRM: existing tests FAIL with patch"; git checkout -q -- .; exit 1; fi
echo "CONFIRM: builds, existing tests green with patch"
mkdir -p "$(dirname "$DEST")"; cp "$DEMO" "$DEST"
DEV="$WT/out/cargo_dev.diff"; [ -f "$DEV" ] && git apply "$DEV"
[ "$RF" != "-" ] && export RUSTFLAGS="$RF"
if timeout 600 cargo test --offline "$@" >"$WT/out/confirm-demo-with.log" 2>&1; then echo "CONFIRM: demo PASSES with patch (bad)"; R=1; else echo "CONFIRM: demo fails with patch (good)"; R=0; fi
git checkout -q -- .
[ -f "$DEV" ] && git apply "$DEV"
if timeout 600 cargo test --offline "$@" >"$WT/out/confirm-demo-without.log" 2>&1; then echo "CONFIRM: demo passes without patch (good)"; else echo "CONFIRM: demo FAILS without patch (bad)"; R=1; fi
git checkout -q -- .; rm -f "$DEST"; git clean -qfd -e out -e target >/dev/null
exit $R
