#!/bin/bash
# run_against.sh <patch> <ID>... : apply a seeded change to /repo, run the quick checks, undo it.
PATCH="$1"; shift
cd /repo && git status --short | grep -q . && { echo "refusing: /repo is dirty"; exit 2; }
git -C /repo apply "$PATCH" || exit 2
for id in "$@"; do
  out=$(cd /verif && timeout 900 ./check "$id" --tier quick 2>&1); rc=$?
  echo "== $id exit=$rc"; echo "$out" | grep -E "violation in|VIOLATION|INCONCLUSIVE|error\[" | head -4
done
git -C /repo checkout -- .
