#!/usr/bin/env python3
"""rerun_seeded.py [pattern] : apply every seeded change (seeded/<name>/patch.diff) to /repo in turn, run the quick check of
its own property (plus the extra ones listed in EXTRA), revert, and write seeded/<name>/final.json with the outcome.
Must not run concurrently with anything else that reads /repo."""
import os, re, subprocess, sys, json, glob
EXTRA = {"C01-r2B": ["C12", "C13"], "C02-r2A": ["C16"], "C03-r2A": ["C10"], "C10-r2A": ["C16"], "C01-r3B": ["C13"], "C04-r3B": ["C10"], "C05-r5A": ["C13"], "C13-r5B": ["C12"], "C03-r6A": ["C16"], "C10-r6A": ["C01"], "C05-r7B": ["C13"], "C01-r9A": ["C13"], "C04-r10A": ["C06", "C01"]}
pat = sys.argv[1] if len(sys.argv) > 1 else ""
rows = []
for d in sorted(glob.glob("/verif/seeded/C*")):
    name = os.path.basename(d)
    if pat and not re.search(pat, name): continue
    pid = name.split("-")[0]
    ids = [pid] + EXTRA.get(name, [])
    r = subprocess.run(["/verif/tools/run_against.sh", d + "/patch.diff"] + ids, capture_output=True, text=True)
    res = {}
    cur = None
    for line in r.stdout.splitlines():
        m = re.match(r"== (C\d+) exit=(\d+)", line)
        if m:
            cur = m.group(1); res[cur] = {"exit": int(m.group(2)), "signature": None, "lane": None}; continue
        m = re.search(r"violation in lane (\S+): \[([^\]]+)\]", line)
        if m and cur and res[cur]["signature"] is None:
            res[cur]["lane"], res[cur]["signature"] = m.group(1), m.group(2)
    json.dump({"id": name, "results": res, "raw_tail": r.stdout.splitlines()[-6:]}, open(d + "/final.json", "w"), indent=1)
    caught = [k for k, v in res.items() if v["exit"] == 1]
    print(name, "CAUGHT by " + ",".join(f"{k}[{res[k]['signature']}]" for k in caught) if caught else "MISSED " + json.dumps(res), flush=True)
