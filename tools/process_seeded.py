#!/usr/bin/env python3
"""process_seeded.py <worktree> <ID> <name-prefix> : for every X.diff in <worktree>/out confirm it in the
scratch worktree (tools/confirm_seeded.sh), copy it to /verif/seeded/<ID>-<prefix><X>/ and run the property's
quick check against it (tools/run_against.sh). Prints one summary line per change."""
import os, re, subprocess, sys, shutil, json
wt, pid, prefix = sys.argv[1], sys.argv[2], sys.argv[3]
out = os.path.join(wt, "out")
notes = open(os.path.join(out, "notes.md")).read() if os.path.exists(os.path.join(out, "notes.md")) else ""
for f in sorted(os.listdir(out)):
    m = re.fullmatch(r"([A-D])\.diff", f)
    if not m: continue
    L = m.group(1); l = L.lower()
    demo = os.path.join(out, f"demo_{l}.rs")
    patch = os.path.join(out, f)
    touches_only_lber = all(x.startswith("lber/") for x in re.findall(r"^\+\+\+ b/(\S+)", open(patch).read(), re.M))
    lber_demo = "lber::" in open(demo).read() and "ldap3::" not in open(demo).read() and touches_only_lber
    dest = f"lber/tests/demo_{l}.rs" if lber_demo else f"tests/demo_{l}.rs"
    needs_cfg = "ldap3_verif" in open(demo).read() or "verif_" in open(demo).read()
    rf = "--cfg ldap3_verif" if needs_cfg else "-"
    args = ["-p", "lber", "--test", f"demo_{l}"] if lber_demo else ["--test", f"demo_{l}"]
    r = subprocess.run(["/verif/tools/confirm_seeded.sh", wt, patch, demo, dest, rf] + args, capture_output=True, text=True)
    conf = [x.replace("CONFIRM: ", "") for x in r.stdout.splitlines() if x.startswith("CONFIRM")]
    ok = r.returncode == 0
    d = f"/verif/seeded/{pid}-{prefix}{L}"
    os.makedirs(d, exist_ok=True)
    shutil.copy(patch, d + "/patch.diff"); shutil.copy(demo, d + "/demo.rs")
    if notes: open(d + "/agent-notes.md", "w").write(notes)
    if os.path.exists(os.path.join(out, "cargo_dev.diff")): shutil.copy(os.path.join(out, "cargo_dev.diff"), d)
    r2 = subprocess.run(["/verif/tools/run_against.sh", d + "/patch.diff", pid], capture_output=True, text=True)
    rc = re.search(r"exit=(\d+)", r2.stdout); rc = rc.group(1) if rc else "?"
    sig = re.search(r"violation in lane (\S+): \[([^\]]+)\]", r2.stdout)
    print(f"{pid}-{prefix}{L}: confirmed={ok} ({'; '.join(conf)}) check_exit={rc} sig={sig.group(2) if sig else None} lane={sig.group(1) if sig else None}")
    json.dump({"id": f"{pid}-{prefix}{L}", "property": pid, "confirmed_ok": ok, "confirm_log": conf, "check_exit": rc, "signature": sig.group(2) if sig else None, "lane": sig.group(1) if sig else None}, open(d + "/auto.json", "w"), indent=1)
