#!/usr/bin/env python3
import json,os,glob
desc=json.load(open('/verif/seeded/r8_descriptions.json'))
strength={
"C10-r8B":"C10 call scripts: start() on the already started stream (documented no-op), rarely",
"C17-r8A":"C17 StartTLS reply MalformedResult: an answer under the right id whose LDAPResult is ill-formed (4 shapes), the server then ready for a handshake",
"C17-r8B":"C17: what follows host:port in the URL (nothing, '/', a base DN with the known URL extension bindname, search parameters)",
"C04-r8A":"C04: an id-0 notification written directly in front of a generated response PDU of the merged stream",
"C04-r8B":"C04: SearchResultReference messages in front of every second entry of EntriesOnly streams (skipped inside next())",
}
rows=[]
for d in sorted(glob.glob('/verif/seeded/*-r8*')):
    n=os.path.basename(d); pid=n.split('-')[0]
    fin=json.load(open(d+'/final.json'))
    caught=[f"{k}: {v['signature']} ({v['lane']} lane)" for k,v in fin['results'].items() if v['exit']==1]
    meta={"id":n,"property":pid,"round":8,
     "origin":"independent sub-agent given only the property text, hints towards less obvious code paths, the list of mechanisms used in earlier rounds, and a scratch worktree",
     "change":desc[n]['change'],"needs_to_manifest":desc[n]['needs_to_manifest'],
     "confirmed":"tools/confirm_seeded.sh in a scratch worktree: patch applies, cargo test --workspace --offline green with it, demo.rs fails with the patch and passes without",
     "ran":f"tools/run_against.sh seeded/{n}/patch.diff "+" ".join(fin['results'].keys()),
     "detected_by":caught if caught else "not detected",
     "exit_code_with_patch":{k:v['exit'] for k,v in fin['results'].items()},
     "initially_missed": n in strength}
    if n in strength:
        meta["strengthening"]=strength[n]
        meta["note"]="processed while a long run blocked /repo: strengthened from the agent's description before the patch was first applied ('initially missed' inferred from the generator's domain, not observed)"
    json.dump(meta,open(d+'/meta.json','w'),indent=1)
    esc=lambda s:s.replace('|','\\|')
    note=("strengthened first (from the description): "+strength[n]) if n in strength else "caught as built"
    rows.append(f"| {n} | {esc(meta['needs_to_manifest'])} | {esc('; '.join(caught) if caught else 'NOT DETECTED')} | {esc(note)} |")
total=len(glob.glob('/verif/seeded/C*'))
caught_total=0
for d in glob.glob('/verif/seeded/C*'):
    f=d+'/final.json'
    if os.path.exists(f) and any(v['exit']==1 for v in json.load(open(f))['results'].values()): caught_total+=1
txt=f"""
#### 0.5.8 Round 8 (C03, C04, C07-C10, C15, C17, C20 again)

| change | what it needs to manifest | caught by (signature) | note |
|---|---|---|---|
"""+"\n".join(rows)+f"""

{len(rows)} changes, all caught: {len(rows)-len(strength)} as built, {len(strength)} after a strengthening made from the agents' descriptions while `/repo` was blocked by the
final thorough-tier audit. The last full run of `tools/rerun_seeded.py` re-applied all {total} stored changes: {caught_total} caught
(the exception is C20-r2A, outside C20's domain).
"""
p='/verif/DESIGN.md'
s=open(p).read()
marker="`tools/rerun_seeded.py` now holds 203 changes, 202 caught (all but C20-r2A, which is outside C20's domain).\n"
assert marker in s
s=s.replace(marker,marker+txt,1)
s=s.replace("18 round 6 `-r6X`, 22 round 7 `-r7X`)","18 round 6 `-r6X`, 22 round 7 `-r7X`, 18 round 8 `-r8X`)").replace("(203: 41 round 1","(221: 41 round 1")
open(p,'w').write(s)
print(len(rows), total, caught_total)
