#!/usr/bin/env python3
"""Write meta.json for the round-4/5 seeded dirs from r4/r5_descriptions.json + final.json and print the DESIGN.md tables."""
import json,os,glob
strength={
"C15-r4C":"C15: attribute descriptions with options (;binary in any letter case, ;lang-en, several options) and well-known binary attribute names",
"C17-r4B":"C17: the settings object is built in five ways per cell (new() / default() base, two orders of the builder calls, a clone, the blocking LdapConn API)",
"C04-r4A":"C04: operations with large requests (16-70 KB Add) and a new fault kind WriteZero (the transport accepts k bytes, then reports Ok(0) for every write)",
"C04-r4B":"C04: seven further I/O error kinds (TimedOut, WouldBlock, InvalidData, ...) on the read side at and just behind every PDU boundary",
"C02-r5A":"C02: 15% of the operations run on a clone taken after the next operation's modifiers were set on the handle (a clone must not carry them; they must remain for the handle)",
"C05-r5A":"not reachable by C05's own lanes (needs a paged search finished early while its first page's id is re-used); caught by the new C13 step PagedFinishWhileIdReused (c13:bystander-disturbed)",
"C06-r5B":"C06 e2e lane: a burst of 1000-3000 minimal entries written together with the final result behind a 150 KB entry, read without size limit (all of them sit in the grown read buffer at once)",
"C11-r5A":"C11: complete frames with a zero length in long form (30 81 00, 30 82 00 00, ...) in the fixed list, and every skeleton envelope with the outer length in 1-, 2- and 4-octet long form",
"C12-r5A":"C12 lane blocked-writer: 0-89 requests queued behind a driver stuck in a socket write, then a timed operation / search start that must time out exactly at its deadline",
"C12-r5B":"C12: practically infinite timeouts (Duration::MAX, u64::MAX s, 2^53 ms, ...) under which the response must still be returned",
"C13-r5A":"C13 step LocalFailure: operations that fail before anything is sent (PagedResults with a caller-supplied paging control, alone or behind EntriesOnly; unparsable filter; value-less add; search() with a bad filter)",
"C13-r5B":"C13 step DoubleTimeout: two operations on two clones time out in the same instant (also caught by C12 as built: c12:id-not-released)",
"C14-r5B":"C14 behaviour Drip: a search answered entry by entry at 120 ms intervals under a 500 ms client timeout (no single wait near the timeout, the whole search longer than it)",
"C16-r5A":"C16: cookies ending in BER-looking octets (04 00, 30 00, 02 01 00 04 00, ...)",
"C18-r5A":"C18: a socket whose file name contains a literal '%41' (written %2541 in the URL)",
"C18-r5B":"C18: a host name that does not resolve together with a pre-opened TCP stream (which must be used)",
}
tables={}
for rnd in (4,5):
    desc=json.load(open(f'/verif/seeded/r{rnd}_descriptions.json'))
    rows=[]
    for d in sorted(glob.glob(f'/verif/seeded/*-r{rnd}*')):
        n=os.path.basename(d); pid=n.split('-')[0]
        fin=json.load(open(d+'/final.json'))
        caught=[f"{k}: {v['signature']} ({v['lane']} lane)" for k,v in fin['results'].items() if v['exit']==1]
        meta={"id":n,"property":pid,"round":rnd,
         "origin":"independent sub-agent given only the property text, the list of mechanisms used in earlier rounds, and a scratch worktree",
         "change":desc[n]['change'],"needs_to_manifest":desc[n]['needs_to_manifest'],
         "confirmed":"tools/confirm_seeded.sh in a scratch worktree: patch applies, cargo test --workspace --offline green with it, demo.rs fails with the patch and passes without",
         "ran":f"tools/run_against.sh seeded/{n}/patch.diff "+" ".join(fin['results'].keys()),
         "detected_by":caught if caught else "not detected",
         "exit_code_with_patch":{k:v['exit'] for k,v in fin['results'].items()},
         "initially_missed": n in strength}
        if n in strength: meta["strengthening"]=strength[n]
        json.dump(meta,open(d+'/meta.json','w'),indent=1)
        esc=lambda s:s.replace('|','\\|')
        note=("missed at first; added: "+strength[n]) if n in strength else "caught as built"
        rows.append(f"| {n} | {esc(meta['needs_to_manifest'])} | {esc('; '.join(caught) if caught else 'NOT DETECTED')} | {esc(note)} |")
    missed=sum(1 for r in rows if 'missed at first' in r)
    tables[rnd]=(rows,missed)
hdr="| change | what it needs to manifest | caught by (signature) | note |\n|---|---|---|---|\n"
out=""
r,m=tables[4]
out+=f"\n#### 0.5.4 Round 4 (C04, C07-C10, C15, C17, C20)\n\n"+hdr+"\n".join(r)+f"\n\n{len(r)} changes: {len(r)-m} caught as built, {m} after the strengthening named.\n"
r,m=tables[5]
out+=f"\n#### 0.5.5 Round 5 (C01, C02, C05, C06, C11-C14, C16, C18, C19; agents were given hints towards less obvious code paths)\n\n"+hdr+"\n".join(r)+f"\n\n{len(r)} changes: {len(r)-m} caught as built, {m} after the strengthening named. C05-r5A is caught by C13 only (it needs a paged search\nfinished early while the id of its first page is held by another outstanding operation - a history C05's lanes do not\ncontain); C13-r5B is caught by C12 as built and by C13 after the DoubleTimeout step was added.\n"
open('/tmp/r45_table.md','w').write(out)
print(len(tables[4][0]),tables[4][1],len(tables[5][0]),tables[5][1])
