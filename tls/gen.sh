#!/bin/sh
# Regenerates the test PKI used by C17/C18 (already committed; run only if it must be rebuilt).
set -e
cd "$(dirname "$0")"
openssl req -x509 -newkey rsa:2048 -nodes -keyout ca.key -out ca.pem -days 36500 -subj "/CN=ldap3-verif test CA" -addext "basicConstraints=critical,CA:TRUE" -addext "keyUsage=critical,keyCertSign,cRLSign" 2>/dev/null
mk() { # name subject san notbefore notafter
  openssl req -newkey rsa:2048 -nodes -keyout "$1.key" -out "$1.csr" -subj "$2" 2>/dev/null
  printf "subjectAltName=%s\nbasicConstraints=CA:FALSE\nkeyUsage=digitalSignature,keyEncipherment\nextendedKeyUsage=serverAuth\n" "$3" > "$1.ext"
  openssl x509 -req -in "$1.csr" -CA ca.pem -CAkey ca.key -CAcreateserial -out "$1.pem" -extfile "$1.ext" -not_before "$4" -not_after "$5" 2>/dev/null
  rm -f "$1.csr" "$1.ext"
}
mk good "/CN=localhost" "DNS:localhost,IP:127.0.0.1,IP:::1" 20200101000000Z 21200101000000Z
mk wrongname "/CN=other.example" "DNS:other.example" 20200101000000Z 21200101000000Z
mk expired "/CN=localhost" "DNS:localhost,IP:127.0.0.1,IP:::1" 20200101000000Z 20210101000000Z
openssl req -x509 -newkey rsa:2048 -nodes -keyout selfsigned.key -out selfsigned.pem -days 36500 -subj "/CN=localhost" -addext "subjectAltName=DNS:localhost,IP:127.0.0.1,IP:::1" 2>/dev/null

mk dnsonly "/CN=localhost" "DNS:localhost" 20200101000000Z 21200101000000Z
rm -f ca.srl
