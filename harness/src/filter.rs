//! Reference model of LDAP search filters: AST, strict RFC 4511 BER decoder/encoder,
//! canonical RFC 4515 printer, strict RFC 4515 recogniser and the purely textual
//! helpers (`canon`, malformation predicates) used by C08/C09/C02/C19/C20.
//! Independent of ldap3::filter.

use crate::ber::{Tlv, CONTEXT, UNIVERSAL};
use serde::{Deserialize, Serialize};

#[derive(Clone, Debug, PartialEq, Eq, Hash, Serialize, Deserialize, PartialOrd, Ord)]
pub enum Filter {
    And(Vec<Filter>),
    Or(Vec<Filter>),
    Not(Box<Filter>),
    Eq(Vec<u8>, Vec<u8>),
    Sub { attr: Vec<u8>, initial: Option<Vec<u8>>, any: Vec<Vec<u8>>, fin: Option<Vec<u8>> },
    Ge(Vec<u8>, Vec<u8>),
    Le(Vec<u8>, Vec<u8>),
    Present(Vec<u8>),
    Approx(Vec<u8>, Vec<u8>),
    Ext { rule: Option<Vec<u8>>, attr: Option<Vec<u8>>, val: Vec<u8>, dn: bool },
}

impl Filter {
    /// Normal form for SET OF comparison: children of and/or sorted recursively.
    pub fn normalized(&self) -> Filter {
        match self {
            Filter::And(v) => {
                let mut k: Vec<Filter> = v.iter().map(|f| f.normalized()).collect();
                k.sort();
                Filter::And(k)
            }
            Filter::Or(v) => {
                let mut k: Vec<Filter> = v.iter().map(|f| f.normalized()).collect();
                k.sort();
                Filter::Or(k)
            }
            Filter::Not(f) => Filter::Not(Box::new(f.normalized())),
            other => other.clone(),
        }
    }
    pub fn depth(&self) -> usize {
        match self {
            Filter::And(v) | Filter::Or(v) => 1 + v.iter().map(|f| f.depth()).max().unwrap_or(0),
            Filter::Not(f) => 1 + f.depth(),
            _ => 1,
        }
    }
    pub fn visit(&self, f: &mut dyn FnMut(&Filter)) {
        f(self);
        match self {
            Filter::And(v) | Filter::Or(v) => v.iter().for_each(|x| x.visit(f)),
            Filter::Not(x) => x.visit(f),
            _ => {}
        }
    }
}

// ------------------------------------------------------------------ BER (RFC 4511 §4.5.1)

fn ostr(t: &Tlv) -> Result<Vec<u8>, String> {
    if !t.is(UNIVERSAL, 4) {
        return Err(format!("expected universal OCTET STRING, got class {} tag {}", t.class, t.tag));
    }
    t.as_prim().map(|v| v.to_vec()).ok_or_else(|| "OCTET STRING must be primitive".to_string())
}

fn ctx_prim(t: &Tlv, tag: u8) -> Result<Vec<u8>, String> {
    if !t.is(CONTEXT, tag) {
        return Err(format!("expected [{}], got class {} tag {}", tag, t.class, t.tag));
    }
    t.as_prim().map(|v| v.to_vec()).ok_or_else(|| format!("[{}] must be primitive", tag))
}

pub fn decode_filter(t: &Tlv) -> Result<Filter, String> {
    if t.class != CONTEXT {
        return Err(format!("filter choice must be context class, got class {} tag {}", t.class, t.tag));
    }
    match t.tag {
        0 | 1 => {
            let kids = t.as_cons().ok_or("and/or must be constructed")?;
            let v = kids.iter().map(decode_filter).collect::<Result<Vec<_>, _>>()?;
            Ok(if t.tag == 0 { Filter::And(v) } else { Filter::Or(v) })
        }
        2 => {
            let kids = t.as_cons().ok_or("not must be constructed (explicit tag)")?;
            if kids.len() != 1 {
                return Err(format!("not must wrap exactly one filter, has {}", kids.len()));
            }
            Ok(Filter::Not(Box::new(decode_filter(&kids[0])?)))
        }
        3 | 5 | 6 | 8 => {
            let kids = t.as_cons().ok_or("AVA must be constructed")?;
            if kids.len() != 2 {
                return Err(format!("AVA must have 2 elements, has {}", kids.len()));
            }
            let (a, v) = (ostr(&kids[0])?, ostr(&kids[1])?);
            Ok(match t.tag {
                3 => Filter::Eq(a, v),
                5 => Filter::Ge(a, v),
                6 => Filter::Le(a, v),
                _ => Filter::Approx(a, v),
            })
        }
        4 => {
            let kids = t.as_cons().ok_or("substrings must be constructed")?;
            if kids.len() != 2 {
                return Err(format!("substrings must have 2 elements, has {}", kids.len()));
            }
            let attr = ostr(&kids[0])?;
            if !kids[1].is(UNIVERSAL, 16) {
                return Err("substrings list must be a universal SEQUENCE".into());
            }
            let subs = kids[1].as_cons().ok_or("substrings list must be constructed")?;
            if subs.is_empty() {
                return Err("substrings list must have at least one element".into());
            }
            let (mut initial, mut any, mut fin) = (None, Vec::new(), None);
            for (i, s) in subs.iter().enumerate() {
                if s.class != CONTEXT {
                    return Err("substring element must be context-tagged".into());
                }
                let v = s.as_prim().ok_or("substring element must be primitive")?.to_vec();
                if v.is_empty() {
                    return Err("substring element must not be empty".into());
                }
                match s.tag {
                    0 => {
                        if i != 0 {
                            return Err("initial must be the first substring element".into());
                        }
                        initial = Some(v);
                    }
                    1 => {
                        if fin.is_some() {
                            return Err("any after final".into());
                        }
                        any.push(v);
                    }
                    2 => {
                        if i + 1 != subs.len() {
                            return Err("final must be the last substring element".into());
                        }
                        fin = Some(v);
                    }
                    n => return Err(format!("bad substring choice [{}]", n)),
                }
            }
            Ok(Filter::Sub { attr, initial, any, fin })
        }
        7 => Ok(Filter::Present(t.as_prim().ok_or("present must be primitive")?.to_vec())),
        9 => {
            let kids = t.as_cons().ok_or("extensibleMatch must be constructed")?;
            let mut it = kids.iter().peekable();
            let mut rule = None;
            let mut attr = None;
            if it.peek().map(|k| k.is(CONTEXT, 1)).unwrap_or(false) {
                rule = Some(ctx_prim(it.next().unwrap(), 1)?);
            }
            if it.peek().map(|k| k.is(CONTEXT, 2)).unwrap_or(false) {
                attr = Some(ctx_prim(it.next().unwrap(), 2)?);
            }
            let val = ctx_prim(it.next().ok_or("extensibleMatch without matchValue")?, 3)?;
            let mut dn = false;
            if let Some(k) = it.next() {
                let b = ctx_prim(k, 4)?;
                if b.len() != 1 {
                    return Err("dnAttributes BOOLEAN must have one content octet".into());
                }
                if b[0] == 0 {
                    return Err("dnAttributes FALSE equals its DEFAULT and must be absent (RFC 4511 5.1)".into());
                }
                if b[0] != 0xFF {
                    return Err("BOOLEAN TRUE must be FF (RFC 4511 5.1)".into());
                }
                dn = true;
            }
            if it.next().is_some() {
                return Err("trailing element in extensibleMatch".into());
            }
            Ok(Filter::Ext { rule, attr, val, dn })
        }
        n => Err(format!("unknown filter choice [{}]", n)),
    }
}

pub fn encode_filter(f: &Filter) -> Tlv {
    let ava = |tag: u8, a: &Vec<u8>, v: &Vec<u8>| Tlv::cons(CONTEXT, tag, vec![Tlv::octets(a.clone()), Tlv::octets(v.clone())]);
    match f {
        Filter::And(v) => Tlv::cons(CONTEXT, 0, v.iter().map(encode_filter).collect()),
        Filter::Or(v) => Tlv::cons(CONTEXT, 1, v.iter().map(encode_filter).collect()),
        Filter::Not(x) => Tlv::cons(CONTEXT, 2, vec![encode_filter(x)]),
        Filter::Eq(a, v) => ava(3, a, v),
        Filter::Ge(a, v) => ava(5, a, v),
        Filter::Le(a, v) => ava(6, a, v),
        Filter::Approx(a, v) => ava(8, a, v),
        Filter::Present(a) => Tlv::prim(CONTEXT, 7, a.clone()),
        Filter::Sub { attr, initial, any, fin } => {
            let mut subs = Vec::new();
            if let Some(i) = initial {
                subs.push(Tlv::prim(CONTEXT, 0, i.clone()));
            }
            for a in any {
                subs.push(Tlv::prim(CONTEXT, 1, a.clone()));
            }
            if let Some(x) = fin {
                subs.push(Tlv::prim(CONTEXT, 2, x.clone()));
            }
            Tlv::cons(CONTEXT, 4, vec![Tlv::octets(attr.clone()), Tlv::seq(subs)])
        }
        Filter::Ext { rule, attr, val, dn } => {
            let mut k = Vec::new();
            if let Some(r) = rule {
                k.push(Tlv::prim(CONTEXT, 1, r.clone()));
            }
            if let Some(a) = attr {
                k.push(Tlv::prim(CONTEXT, 2, a.clone()));
            }
            k.push(Tlv::prim(CONTEXT, 3, val.clone()));
            if *dn {
                k.push(Tlv::prim(CONTEXT, 4, vec![0xFF]));
            }
            Tlv::cons(CONTEXT, 9, k)
        }
    }
}

// ------------------------------------------------------------------ canonical text (Appendix E)

pub fn must_escape(b: u8) -> bool {
    b == 0 || b == b'(' || b == b')' || b == b'*' || b == b'\\'
}

pub fn print_value(v: &[u8], out: &mut Vec<u8>) {
    for &b in v {
        if must_escape(b) {
            out.extend_from_slice(format!("\\{:02x}", b).as_bytes());
        } else {
            out.push(b);
        }
    }
}

pub fn print_filter(f: &Filter) -> Vec<u8> {
    let mut out = Vec::new();
    print_into(f, &mut out);
    out
}

fn print_into(f: &Filter, out: &mut Vec<u8>) {
    out.push(b'(');
    match f {
        Filter::And(v) => {
            out.push(b'&');
            v.iter().for_each(|x| print_into(x, out));
        }
        Filter::Or(v) => {
            out.push(b'|');
            v.iter().for_each(|x| print_into(x, out));
        }
        Filter::Not(x) => {
            out.push(b'!');
            print_into(x, out);
        }
        Filter::Eq(a, v) | Filter::Ge(a, v) | Filter::Le(a, v) | Filter::Approx(a, v) => {
            out.extend_from_slice(a);
            out.extend_from_slice(match f {
                Filter::Eq(..) => b"=",
                Filter::Ge(..) => b">=",
                Filter::Le(..) => b"<=",
                _ => b"~=",
            });
            print_value(v, out);
        }
        Filter::Present(a) => {
            out.extend_from_slice(a);
            out.extend_from_slice(b"=*");
        }
        Filter::Sub { attr, initial, any, fin } => {
            out.extend_from_slice(attr);
            out.push(b'=');
            if let Some(i) = initial {
                print_value(i, out);
            }
            out.push(b'*');
            for a in any {
                print_value(a, out);
                out.push(b'*');
            }
            if let Some(x) = fin {
                print_value(x, out);
            }
        }
        Filter::Ext { rule, attr, val, dn } => {
            if let Some(a) = attr {
                out.extend_from_slice(a);
            }
            if *dn {
                out.extend_from_slice(b":dn");
            }
            if let Some(r) = rule {
                out.push(b':');
                out.extend_from_slice(r);
            }
            out.extend_from_slice(b":=");
            print_value(val, out);
        }
    }
    out.push(b')');
}

fn hexval(c: u8) -> Option<u8> {
    match c {
        b'0'..=b'9' => Some(c - b'0'),
        b'a'..=b'f' => Some(c - b'a' + 10),
        b'A'..=b'F' => Some(c - b'A' + 10),
        _ => None,
    }
}

/// Textual canonicalisation: add the optional outer parentheses, and rewrite each
/// `\hh` to the raw byte or (for the five bytes that must be escaped) to the
/// lower-case escape. None if a backslash is not followed by two hex digits.
pub fn canon(s: &[u8]) -> Option<Vec<u8>> {
    let mut out = Vec::with_capacity(s.len() + 2);
    let wrap = s.first() != Some(&b'(');
    if wrap {
        out.push(b'(');
    }
    let mut i = 0;
    while i < s.len() {
        if s[i] == b'\\' {
            let h = hexval(*s.get(i + 1)?)?;
            let l = hexval(*s.get(i + 2)?)?;
            let b = (h << 4) | l;
            if must_escape(b) {
                out.extend_from_slice(format!("\\{:02x}", b).as_bytes());
            } else {
                out.push(b);
            }
            i += 3;
        } else {
            out.push(s[i]);
            i += 1;
        }
    }
    if wrap {
        out.push(b')');
    }
    Some(out)
}

/// Purely syntactic malformation classes (Appendix E, clause 2). Each is provably
/// outside RFC 4515 + the two documented extensions. Returns the class name.
pub fn malformed_class(s: &[u8]) -> Option<&'static str> {
    if s.contains(&0) {
        return Some("raw-nul");
    }
    // malformed escapes
    let mut i = 0;
    while i < s.len() {
        if s[i] == b'\\' {
            let ok = s.get(i + 1).and_then(|c| hexval(*c)).is_some() && s.get(i + 2).and_then(|c| hexval(*c)).is_some();
            if !ok {
                return Some("bad-escape");
            }
            i += 3;
        } else {
            i += 1;
        }
    }
    let open = s.iter().filter(|&&c| c == b'(').count();
    let close = s.iter().filter(|&&c| c == b')').count();
    if open != close {
        return Some("unbalanced-parens");
    }
    if s.windows(2).any(|w| w == b"**") {
        return Some("adjacent-asterisks");
    }
    // '(' may only follow start, '&', '|', '!' or ')'
    for (i, &c) in s.iter().enumerate() {
        if c == b'(' && i > 0 && !matches!(s[i - 1], b'&' | b'|' | b'!' | b')') {
            return Some("lparen-in-value");
        }
    }
    if s.first() == Some(&b'(') {
        // text after the parenthesis that closes the first one
        let mut depth = 0i64;
        for (i, &c) in s.iter().enumerate() {
            if c == b'(' {
                depth += 1;
            } else if c == b')' {
                depth -= 1;
                if depth == 0 && i + 1 != s.len() {
                    return Some("trailing-text");
                }
                if depth < 0 {
                    return Some("unbalanced-parens");
                }
            }
        }
    } else if s.contains(&b')') || s.contains(&b'(') {
        // a bare item cannot contain parentheses at all
        return Some("paren-in-bare-item");
    }
    // empty attribute description in front of an operator
    let starts_op = |t: &[u8]| t.starts_with(b"=") || t.starts_with(b">=") || t.starts_with(b"<=") || t.starts_with(b"~=");
    if starts_op(s) {
        return Some("empty-attr");
    }
    for (i, &c) in s.iter().enumerate() {
        if c == b'(' && starts_op(&s[i + 1..]) {
            return Some("empty-attr");
        }
    }
    if s.is_empty() {
        return Some("empty");
    }
    None
}

// ------------------------------------------------------------------ strict RFC 4515 recogniser

pub struct Strict<'a> {
    s: &'a [u8],
    i: usize,
    /// set when the string hits a grammar ambiguity (":dn" in a case variant); no verdict then
    pub ambiguous: bool,
    depth: usize,
}

fn is_keychar(c: u8) -> bool {
    c.is_ascii_alphanumeric() || c == b'-'
}

impl<'a> Strict<'a> {
    pub fn new(s: &'a [u8]) -> Self {
        Strict { s, i: 0, ambiguous: false, depth: 0 }
    }
    fn peek(&self) -> Option<u8> {
        self.s.get(self.i).copied()
    }
    fn eat(&mut self, c: u8) -> bool {
        if self.peek() == Some(c) {
            self.i += 1;
            true
        } else {
            false
        }
    }
    fn starts(&self, t: &[u8]) -> bool {
        self.s[self.i..].starts_with(t)
    }

    /// top level: filter / bare item (library extension)
    pub fn top(&mut self) -> Option<Filter> {
        let f = if self.peek() == Some(b'(') { self.filter()? } else { self.item()? };
        if self.i == self.s.len() {
            Some(f)
        } else {
            None
        }
    }

    fn filter(&mut self) -> Option<Filter> {
        self.depth += 1;
        if self.depth > 200 {
            return None;
        }
        if !self.eat(b'(') {
            return None;
        }
        let f = match self.peek()? {
            b'&' => {
                self.i += 1;
                Filter::And(self.list()?)
            }
            b'|' => {
                self.i += 1;
                Filter::Or(self.list()?)
            }
            b'!' => {
                self.i += 1;
                Filter::Not(Box::new(self.filter()?))
            }
            _ => self.item()?,
        };
        if !self.eat(b')') {
            return None;
        }
        self.depth -= 1;
        Some(f)
    }

    fn list(&mut self) -> Option<Vec<Filter>> {
        let mut v = Vec::new();
        while self.peek() == Some(b'(') {
            v.push(self.filter()?);
        }
        Some(v)
    }

    fn number(&mut self) -> bool {
        let st = self.i;
        while self.peek().map(|c| c.is_ascii_digit()).unwrap_or(false) {
            self.i += 1;
        }
        let d = &self.s[st..self.i];
        !d.is_empty() && (d.len() == 1 || d[0] != b'0')
    }

    /// oid = descr / numericoid (>= 2 arcs)
    fn oid(&mut self) -> Option<Vec<u8>> {
        let st = self.i;
        match self.peek()? {
            c if c.is_ascii_alphabetic() => {
                self.i += 1;
                while self.peek().map(is_keychar).unwrap_or(false) {
                    self.i += 1;
                }
            }
            c if c.is_ascii_digit() => {
                if !self.number() {
                    return None;
                }
                let mut arcs = 1;
                while self.peek() == Some(b'.') {
                    self.i += 1;
                    if !self.number() {
                        return None;
                    }
                    arcs += 1;
                }
                if arcs < 2 {
                    return None;
                }
            }
            _ => return None,
        }
        Some(self.s[st..self.i].to_vec())
    }

    fn attrdesc(&mut self) -> Option<Vec<u8>> {
        let st = self.i;
        self.oid()?;
        while self.peek() == Some(b';') {
            self.i += 1;
            let o = self.i;
            while self.peek().map(is_keychar).unwrap_or(false) {
                self.i += 1;
            }
            if self.i == o {
                return None;
            }
        }
        Some(self.s[st..self.i].to_vec())
    }

    /// valueencoding up to the next ')' , '*' or end. Raw runs must be UTF-8.
    fn value(&mut self) -> Option<Vec<u8>> {
        let mut out = Vec::new();
        let mut raw = Vec::new();
        loop {
            match self.peek() {
                None | Some(b')') | Some(b'*') => break,
                Some(0) | Some(b'(') => return None,
                Some(b'\\') => {
                    if std::str::from_utf8(&raw).is_err() {
                        return None;
                    }
                    raw.clear();
                    let h = hexval(*self.s.get(self.i + 1)?)?;
                    let l = hexval(*self.s.get(self.i + 2)?)?;
                    out.push((h << 4) | l);
                    self.i += 3;
                }
                Some(c) => {
                    raw.push(c);
                    out.push(c);
                    self.i += 1;
                }
            }
        }
        if std::str::from_utf8(&raw).is_err() {
            return None;
        }
        Some(out)
    }

    fn item(&mut self) -> Option<Filter> {
        if self.peek() == Some(b':') {
            // ( [dnattrs] matchingrule COLON EQUALS assertionvalue )
            let dn = self.dnattrs();
            if !self.eat(b':') {
                return None;
            }
            let rule = self.oid()?;
            if !self.starts(b":=") {
                return None;
            }
            self.i += 2;
            let val = self.value()?;
            return Some(Filter::Ext { rule: Some(rule), attr: None, val, dn });
        }
        let attr = self.attrdesc()?;
        match self.peek()? {
            b'=' => {
                self.i += 1;
                let first = self.value()?;
                if self.peek() != Some(b'*') {
                    return Some(Filter::Eq(attr, first));
                }
                // substring or present
                let mut parts: Vec<Vec<u8>> = vec![first];
                while self.eat(b'*') {
                    parts.push(self.value()?);
                }
                if parts.len() == 2 && parts[0].is_empty() && parts[1].is_empty() {
                    return Some(Filter::Present(attr));
                }
                let n = parts.len();
                let initial = if parts[0].is_empty() { None } else { Some(parts[0].clone()) };
                let fin = if parts[n - 1].is_empty() { None } else { Some(parts[n - 1].clone()) };
                let any: Vec<Vec<u8>> = parts[1..n - 1].to_vec();
                if any.iter().any(|a| a.is_empty()) {
                    return None; // adjacent asterisks
                }
                Some(Filter::Sub { attr, initial, any, fin })
            }
            b'>' | b'<' | b'~' => {
                let op = self.peek()?;
                self.i += 1;
                if !self.eat(b'=') {
                    return None;
                }
                let v = self.value()?;
                if self.peek() == Some(b'*') {
                    return None;
                }
                Some(match op {
                    b'>' => Filter::Ge(attr, v),
                    b'<' => Filter::Le(attr, v),
                    _ => Filter::Approx(attr, v),
                })
            }
            b':' => {
                let dn = self.dnattrs();
                let mut rule = None;
                if !self.starts(b":=") {
                    if !self.eat(b':') {
                        return None;
                    }
                    rule = Some(self.oid()?);
                }
                if !self.starts(b":=") {
                    return None;
                }
                self.i += 2;
                let val = self.value()?;
                if self.peek() == Some(b'*') {
                    return None;
                }
                Some(Filter::Ext { rule, attr: Some(attr), val, dn })
            }
            _ => None,
        }
    }

    /// dnattrs = COLON "dn", only when followed by another COLON (otherwise the text
    /// is the start of a matching rule such as dnSubtreeMatch).
    fn dnattrs(&mut self) -> bool {
        let rest = &self.s[self.i..];
        if rest.len() >= 4 && rest[0] == b':' && rest[1..3].eq_ignore_ascii_case(b"dn") && rest[3] == b':' {
            if &rest[1..3] != b"dn" {
                // ABNF literals are case-insensitive, but "DN" is also a legal descr:
                // the grammar is ambiguous here, so no verdict is drawn from this string.
                self.ambiguous = true;
            }
            self.i += 3;
            true
        } else {
            false
        }
    }
}

/// Some(ast) iff `s` is in the strict language (and not ambiguous).
pub fn strict_parse(s: &[u8]) -> Option<Filter> {
    let mut p = Strict::new(s);
    let f = p.top()?;
    if p.ambiguous {
        return None;
    }
    // substring `*` inside the value of a non-substring item is impossible by construction;
    // values after ext/ordering ops reject '*' above.
    Some(f)
}

#[cfg(test)]
mod tests {
    use super::*;

    #[test]
    fn strict_examples() {
        // RFC 4515 section 4 examples
        for s in [
            "(cn=Babs Jensen)",
            "(!(cn=Tim Howes))",
            "(&(objectClass=Person)(|(sn=Jensen)(cn=Babs J*)))",
            "(o=univ*of*mich*)",
            "(seeAlso=)",
            "(cn:caseExactMatch:=Fred Flintstone)",
            "(cn:=Betty Rubble)",
            "(sn:dn:2.4.6.8.10:=Barney Rubble)",
            "(o:dn:=Ace Industry)",
            "(:1.2.3:=Wilma Flintstone)",
            "(:DN:2.4.6.8.10:=Dino)",
            "(o=Parens R Us \\28for all your parenthetical needs\\29)",
            "(cn=*\\2A*)",
            "(filename=C:\\5cMyFile)",
            "(bin=\\00\\00\\00\\04)",
            "(sn=Lu\\c4\\8di\\c4\\87)",
            "(1.3.6.1.4.1.1466.0=\\04\\02\\48\\69)",
            "(entryDN:dnSubtreeMatch:=dc=example)",
            "(&)",
            "(|)",
            "cn=bare",
        ] {
            let mut p = Strict::new(s.as_bytes());
            let f = p.top();
            assert!(f.is_some(), "{}", s);
            let f = f.unwrap();
            if !p.ambiguous {
                assert_eq!(canon(s.as_bytes()).unwrap(), print_filter(&f), "{}", s);
                assert_eq!(decode_filter(&encode_filter(&f)).unwrap(), f);
            }
            assert_eq!(malformed_class(s.as_bytes()), None, "{}", s);
        }
        for s in ["(cn=a", "cn=a)", "(cn=a)x", "(cn=\\zz)", "(cn=\\4)", "(=a)", "(cn=a**b)", "(cn=a(b)", "", "(2=x)", "(cn;=x)", "((cn=a))", "(:dn:=x)", "(:=x)", "(cn>=a*)"] {
            assert!(strict_parse(s.as_bytes()).is_none(), "{}", s);
        }
        match strict_parse(b"(cn=a*b*c)").unwrap() {
            Filter::Sub { initial, any, fin, .. } => {
                assert_eq!(initial, Some(b"a".to_vec()));
                assert_eq!(any, vec![b"b".to_vec()]);
                assert_eq!(fin, Some(b"c".to_vec()));
            }
            _ => panic!(),
        }
    }
}
