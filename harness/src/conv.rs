//! Conversions between the harness tree and the library's tree (library side is
//! only ever the thing under test).

use crate::ber::{Body, Tlv};
use lber::common::TagClass;
use lber::structure::{StructureTag, PL};

pub fn class_to_lib(c: u8) -> TagClass {
    match c {
        0 => TagClass::Universal,
        1 => TagClass::Application,
        2 => TagClass::Context,
        _ => TagClass::Private,
    }
}

pub fn class_from_lib(c: TagClass) -> u8 {
    c as u8
}

pub fn to_lib(t: &Tlv) -> StructureTag {
    StructureTag {
        class: class_to_lib(t.class),
        id: t.tag as u64,
        payload: match &t.body {
            Body::Prim(v) => PL::P(v.clone()),
            Body::Cons(c) => PL::C(c.iter().map(to_lib).collect()),
        },
    }
}

/// None if the library tree has a tag number the harness tree cannot hold.
pub fn from_lib(t: &StructureTag) -> Option<Tlv> {
    if t.id > 30 {
        return None;
    }
    Some(Tlv {
        class: class_from_lib(t.class),
        tag: t.id as u8,
        body: match &t.payload {
            PL::P(v) => Body::Prim(v.clone()),
            PL::C(c) => Body::Cons(c.iter().map(from_lib).collect::<Option<Vec<_>>>()?),
        },
    })
}

pub fn lib_encode(t: StructureTag) -> Vec<u8> {
    let mut buf = bytes::BytesMut::new();
    lber::write::encode_into(&mut buf, t).expect("encode_into is infallible on Vec");
    buf.to_vec()
}
