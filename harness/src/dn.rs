//! Strict RFC 4514 distinguished-name reader (DESIGN.md Appendix F). Independent of ldap3.

#[derive(Clone, Debug, PartialEq, Eq)]
pub struct Ava {
    pub typ: String,
    pub value: Vec<u8>,
    pub hexstring: bool,
}

fn hexval(c: u8) -> Option<u8> {
    match c {
        b'0'..=b'9' => Some(c - b'0'),
        b'a'..=b'f' => Some(c - b'a' + 10),
        b'A'..=b'F' => Some(c - b'A' + 10),
        _ => None,
    }
}

fn is_special_raw(c: u8) -> bool {
    matches!(c, b'"' | b'+' | b',' | b';' | b'<' | b'>' | b'\\') || c == 0
}

fn parse_type(s: &[u8]) -> Result<String, String> {
    if s.is_empty() {
        return Err("empty attribute type".into());
    }
    let ok = if s[0].is_ascii_alphabetic() {
        s.iter().all(|c| c.is_ascii_alphanumeric() || *c == b'-')
    } else if s[0].is_ascii_digit() {
        let arcs: Vec<&[u8]> = s.split(|c| *c == b'.').collect();
        arcs.len() >= 2 && arcs.iter().all(|a| !a.is_empty() && a.iter().all(|c| c.is_ascii_digit()) && (a.len() == 1 || a[0] != b'0'))
    } else {
        false
    };
    if ok {
        Ok(String::from_utf8(s.to_vec()).unwrap())
    } else {
        Err(format!("bad attribute type {:?}", String::from_utf8_lossy(s)))
    }
}

/// Parse one attribute value starting at s[i]; stops at an unescaped ',' or '+' or the end.
fn parse_value(s: &[u8], mut i: usize) -> Result<(Vec<u8>, bool, usize), String> {
    let start = i;
    if s.get(i) == Some(&b'#') {
        // hexstring
        i += 1;
        let mut out = Vec::new();
        while i + 1 < s.len() + 1 {
            match (s.get(i).and_then(|c| hexval(*c)), s.get(i + 1).and_then(|c| hexval(*c))) {
                (Some(h), Some(l)) => {
                    out.push((h << 4) | l);
                    i += 2;
                }
                _ => break,
            }
        }
        if out.is_empty() {
            return Err("'#' not followed by hex pairs (unescaped leading '#')".into());
        }
        match s.get(i) {
            None | Some(b',') | Some(b'+') => return Ok((out, true, i)),
            _ => return Err("garbage after hexstring (unescaped leading '#')".into()),
        }
    }
    let mut out = Vec::new();
    let mut raw_run: Vec<u8> = Vec::new();
    let mut last_was_raw_space = false;
    while i < s.len() {
        let c = s[i];
        if c == b',' || c == b'+' {
            break;
        }
        if c == b'\\' {
            if std::str::from_utf8(&raw_run).is_err() {
                return Err("raw bytes are not UTF-8".into());
            }
            raw_run.clear();
            let n = *s.get(i + 1).ok_or("dangling backslash")?;
            if matches!(n, b'\\' | b'"' | b'+' | b',' | b';' | b'<' | b'>' | b' ' | b'#' | b'=') {
                out.push(n);
                i += 2;
            } else {
                let h = hexval(n).ok_or("bad escape")?;
                let l = s.get(i + 2).and_then(|c| hexval(*c)).ok_or("bad hex escape")?;
                out.push((h << 4) | l);
                i += 3;
            }
            last_was_raw_space = false;
            continue;
        }
        if is_special_raw(c) {
            return Err(format!("unescaped special character {:?} in value", c as char));
        }
        if i == start && c == b' ' {
            return Err("unescaped leading space".into());
        }
        last_was_raw_space = c == b' ';
        raw_run.push(c);
        out.push(c);
        i += 1;
    }
    if std::str::from_utf8(&raw_run).is_err() {
        return Err("raw bytes are not UTF-8".into());
    }
    if last_was_raw_space {
        return Err("unescaped trailing space".into());
    }
    Ok((out, false, i))
}

/// dn = [ rdn *( "," rdn ) ], rdn = ava *( "+" ava )
pub fn parse_dn(s: &[u8]) -> Result<Vec<Vec<Ava>>, String> {
    let mut dn = Vec::new();
    if s.is_empty() {
        return Ok(dn);
    }
    let mut i = 0;
    let mut rdn = Vec::new();
    loop {
        let eq = s[i..].iter().position(|c| *c == b'=').ok_or("missing '='")? + i;
        let typ = parse_type(&s[i..eq])?;
        let (value, hexstring, next) = parse_value(s, eq + 1)?;
        rdn.push(Ava { typ, value, hexstring });
        i = next;
        match s.get(i) {
            None => {
                dn.push(rdn);
                return Ok(dn);
            }
            Some(b'+') => i += 1,
            Some(b',') => {
                dn.push(std::mem::take(&mut rdn));
                i += 1;
            }
            _ => unreachable!(),
        }
        if i >= s.len() {
            return Err("DN ends after separator".into());
        }
    }
}

#[cfg(test)]
mod tests {
    use super::*;
    #[test]
    fn rfc4514_examples() {
        let d = parse_dn(b"UID=jsmith,DC=example,DC=net").unwrap();
        assert_eq!(d.len(), 3);
        let d = parse_dn(b"OU=Sales+CN=J.  Smith,DC=example,DC=net").unwrap();
        assert_eq!(d[0].len(), 2);
        assert_eq!(d[0][1].value, b"J.  Smith");
        let d = parse_dn(b"CN=James \\\"Jim\\\" Smith\\, III,DC=example,DC=net").unwrap();
        assert_eq!(d[0][0].value, b"James \"Jim\" Smith, III");
        let d = parse_dn(b"CN=Before\\0dAfter,DC=example,DC=net").unwrap();
        assert_eq!(d[0][0].value, b"Before\rAfter");
        let d = parse_dn(b"1.3.6.1.4.1.1466.0=#04024869").unwrap();
        assert!(d[0][0].hexstring);
        let d = parse_dn(b"CN=Lu\\C4\\8Di\\C4\\87").unwrap();
        assert_eq!(d[0][0].value, "Lu\u{10d}i\u{107}".as_bytes());
        assert!(parse_dn(b"cn= x").is_err());
        assert!(parse_dn(b"cn=x ").is_err());
        assert!(parse_dn(b"cn=#x").is_err());
        assert!(parse_dn(b"cn=a;b").is_err());
        assert!(parse_dn(b"cn=a\"b").is_err());
        assert_eq!(parse_dn(b"cn=a=b").unwrap()[0][0].value, b"a=b");
        assert_eq!(parse_dn(b"cn=\\20x\\20").unwrap()[0][0].value, b" x ");
        assert_eq!(parse_dn(b"cn=").unwrap()[0][0].value, b"");
    }
}
