//! Generators for well-formed server responses (shared by C03, C06, C10, C11, ...).

use crate::gens;
use crate::model::{CritForm, Entry, RCtl, Res, Resp, RespMsg};
use crate::props::c19;
use proptest::collection::vec;
use proptest::prelude::*;

pub const RFC_CODES: &[u32] = &[0, 1, 2, 3, 4, 5, 6, 7, 8, 10, 11, 12, 13, 14, 16, 17, 18, 19, 20, 21, 32, 33, 34, 36, 48, 49, 50, 51, 52, 53, 54, 64, 65, 66, 67, 68, 69, 71, 80, 88, 118, 119, 120, 122, 4096];

pub fn rc() -> BoxedStrategy<u32> {
    prop_oneof![
        4 => proptest::sample::select(RFC_CODES),
        3 => proptest::sample::select(&[0u32, 5, 6, 10][..]),
        1 => 0u32..200,
        1 => proptest::sample::select(&[127u32, 128, 255, 256, 32767, 32768, 65535, 65536, 8388607, 8388608, 2147483646, 2147483647, 2147483648, 4294967294, 4294967295][..]),
        1 => 0u32..=u32::MAX,
    ]
    .boxed()
}

pub fn uri() -> BoxedStrategy<String> {
    prop_oneof![3 => gens::text(12).prop_map(|t| format!("ldap://h/{}", t)), 1 => gens::text(10), 1 => Just(String::new())].boxed()
}

pub fn res() -> BoxedStrategy<Res> {
    (rc(), gens::long_text(), gens::long_text(), proptest::option::weighted(0.4, vec(uri(), 1..5))).prop_map(|(rc, matched, text, refs)| Res { rc, matched, text, refs }).boxed()
}

pub fn small_res() -> BoxedStrategy<Res> {
    (rc(), gens::text(8), gens::text(12), proptest::option::weighted(0.3, vec(uri(), 1..3))).prop_map(|(rc, matched, text, refs)| Res { rc, matched, text, refs }).boxed()
}

/// result-shaped response of the given application tag, with the extras that tag allows
pub fn result_resp(app: u8, small: bool) -> BoxedStrategy<Resp> {
    let r = if small { small_res() } else { res() };
    match app {
        1 => (r, proptest::option::of(gens::blob(12))).prop_map(|(res, sasl)| Resp::Result { app: 1, res, sasl, exop_name: None, exop_val: None }).boxed(),
        24 => (r, proptest::option::of(prop_oneof![gens::oid(), gens::text(8)]), proptest::option::of(gens::blob(20)))
            .prop_map(|(res, exop_name, exop_val)| Resp::Result { app: 24, res, sasl: None, exop_name, exop_val })
            .boxed(),
        a => r.prop_map(move |res| Resp::result(a, res)).boxed(),
    }
}

pub const RESULT_TAGS: &[u8] = &[1, 5, 7, 9, 11, 13, 15, 24];

pub fn any_result_resp(small: bool) -> BoxedStrategy<Resp> {
    proptest::sample::select(RESULT_TAGS).prop_flat_map(move |a| result_resp(a, small)).boxed()
}

pub fn opt_controls(max: usize) -> BoxedStrategy<Option<Vec<RCtl>>> {
    proptest::option::weighted(0.5, c19::resp_controls(max)).boxed()
}

pub fn entry_resp() -> BoxedStrategy<Resp> {
    crate::props::c15::entry(4, 3).prop_map(Resp::Entry).boxed()
}

/// an entry with one big value so the message exceeds read-buffer sizes
pub fn big_entry_resp() -> BoxedStrategy<Resp> {
    (gens::text(6), proptest::sample::select(&[8_000u32, 8_192, 9_000, 20_000, 65_530, 65_536, 70_000, 200_000][..]), any::<u8>())
        .prop_map(|(dn, n, b)| Resp::Entry(Entry { dn, attrs: vec![("jpegPhoto".into(), vec![vec![b; n as usize]])] }))
        .boxed()
}

pub fn reference_resp() -> BoxedStrategy<Resp> {
    vec(uri(), 1..4).prop_map(Resp::Reference).boxed()
}

pub fn intermediate_resp() -> BoxedStrategy<Resp> {
    (proptest::option::of(gens::oid()), proptest::option::of(gens::blob(12))).prop_map(|(name, val)| Resp::Intermediate { name, val }).boxed()
}

/// any well-formed server->client message
pub fn any_msg(big: bool) -> BoxedStrategy<RespMsg> {
    let resp = if big {
        prop_oneof![5 => any_result_resp(false), 3 => entry_resp(), 1 => big_entry_resp(), 1 => reference_resp(), 1 => intermediate_resp()].boxed()
    } else {
        prop_oneof![5 => any_result_resp(true), 3 => entry_resp(), 1 => reference_resp(), 1 => intermediate_resp()].boxed()
    };
    let ordinary = (prop_oneof![1i64..100, 0i64..=2147483647, Just(0i64), Just(2147483647i64)], resp, opt_controls(3)).prop_map(|(id, resp, ctrls)| RespMsg { id, resp, ctrls });
    // the one unsolicited notification RFC 4511 defines: Notice of Disconnection (message id 0)
    let notice = rc().prop_map(|code| RespMsg::new(0, Resp::Result { app: 24, res: Res::code(code, "notice of disconnection"), sasl: None, exop_name: Some("1.3.6.1.4.1.1466.20036".into()), exop_val: None }));
    prop_oneof![30 => ordinary, 1 => notice].boxed()
}

pub fn crit_form() -> BoxedStrategy<CritForm> {
    prop_oneof![Just(CritForm::Absent), Just(CritForm::False), Just(CritForm::True)].boxed()
}
