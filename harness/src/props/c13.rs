//! C13 — completed operations leave nothing behind.

use crate::ber::{self, Tlv};
use crate::model::{CritForm, Entry, RCtl, Req, Res, Resp, RespMsg};
use crate::runner::{panic_sig, Ctx, Fail, Obs, PLane, Property};
use crate::sim::{self, err_kind, quiesce, Recv, SimResult};
use crate::simops::{self, Single};
use crate::{ensure, fail};
use ldap3::adapters::{Adapter, EntriesOnly, PagedResults};
use ldap3::{Ldap, Scope};
use proptest::collection::vec;
use proptest::prelude::*;
use serde::{Deserialize, Serialize};
use std::collections::HashMap;
use std::sync::{Arc, Mutex};
use std::time::Duration;

#[derive(Clone, Copy, Debug, PartialEq, Eq, Hash, Serialize, Deserialize)]
pub enum SearchHow {
    Direct,
    EntriesOnly,
    Conv,
    Paged,
    EntriesOnlyPaged,
}

#[derive(Clone, Copy, Debug, PartialEq, Eq, Hash, Serialize, Deserialize)]
pub enum AbandonTarget {
    Finished,
    TimedOut,
    InFlight,
    NeverIssued,
    /// a streaming search that has delivered one entry and whose consumer waits in next(); afterwards finish()
    InFlightSearch,
    /// the same, but the stream is dropped without finish() after the waiter was released
    InFlightSearchDropped,
}

#[derive(Clone, Debug, PartialEq, Eq, Hash, Serialize, Deserialize)]
pub enum Step {
    Single(Single),
    SingleError(Single, u32),
    SingleTimeout(Single, bool),
    /// how, number of entries (per page for paged), pages, read at most this many items before finish (None = to the end)
    Search { how: SearchHow, n: u8, pages: u8, read: Option<u8>, #[serde(default)] open: bool },
    SearchTimeout { adapted: bool, late: bool },
    Abandon(AbandonTarget),
    Unsolicited(u8),
    /// as after a wrap-around: move the id counter back so that the ids of past (completed, timed-out,
    /// abandoned, finished) operations are handed out again; whoever gets them must work normally
    Rewind(u8),
    /// the reply / first entry is written at exactly the instant the timeout fires: either outcome is
    /// right for the caller, and the driver sees the reply and the scrub request in the same turn
    TimeoutTie { search: bool, adapted: bool },
    /// the socket's send buffer is full while another request is being written, so the timed
    /// operation times out while its request is still queued at the driver; then the buffer drains.
    /// `answered`: whether the server (which does get the request in the end) ever answers it
    TimeoutWhileQueued { search: bool, adapted: bool, answered: bool },
    /// a search during which the server also sends a response of a non-search type (application tag) under
    /// the search's id; it is ignored and the search completes normally
    SearchWithForeign { adapted: bool, app: u8, n: u8 },
    /// search() convenience call against a silent server (no stream the caller could finish())
    SearchConvTimeout { late: bool },
    /// an operation that fails locally, before anything is sent: 0 = PagedResults adapter with a caller-supplied
    /// paging control (AdapterInit), 1 = unparsable filter, 2 = add with an attribute without values,
    /// 3 = [EntriesOnly, PagedResults] chain with a caller-supplied paging control, 4 = search() with a bad filter
    LocalFailure(u8),
    /// two operations on two clones time out at the same instant (both scrub requests are queued together)
    DoubleTimeout { second_is_search: bool, late: bool },
    /// a paged search is finished early on its second page while the (long released) id of its FIRST page
    /// has been handed out again to an operation that is still outstanding: that operation must not be disturbed
    PagedFinishWhileIdReused { adapted: bool },
    /// a Notice of Disconnection (message id 0) arrives in the middle of a search; the server then carries on and
    /// completes the search. how: 0 = direct stream, 1 = EntriesOnly stream, 2 = search()
    SearchWithNotice { how: u8, n: u8 },
    /// a pending operation is abandoned from another handle, but its own future is only polled again later - after
    /// the released id has been handed to a new operation; that operation's reservation must survive
    AbandonNoticedLate,
    /// a search through a user-defined adapter which fails (returns Err) from its next() after `after` items, while the
    /// search is still open at the server; the caller then finish()es
    SearchAdapterError { n: u8, after: u8, chained: bool },
}

/// user-defined adapter: passes everything through, fails on purpose
#[derive(Clone, Debug)]
pub struct FailingAdapter {
    left: u8,
}
impl ldap3::adapters::SoloMarker for FailingAdapter {}

#[async_trait::async_trait]
impl<'a> Adapter<'a, &'a str, Vec<&'a str>> for FailingAdapter {
    async fn start(&mut self, stream: &mut ldap3::SearchStream<'a, &'a str, Vec<&'a str>>, base: &str, scope: Scope, filter: &str, attrs: Vec<&'a str>) -> ldap3::result::Result<()> {
        stream.start(base, scope, filter, attrs).await
    }
    async fn next(&mut self, stream: &mut ldap3::SearchStream<'a, &'a str, Vec<&'a str>>) -> ldap3::result::Result<Option<ldap3::ResultEntry>> {
        if self.left == 0 {
            return Err(ldap3::LdapError::AdapterInit("failing on purpose in next()".into()));
        }
        self.left -= 1;
        stream.next().await
    }
    async fn finish(&mut self, stream: &mut ldap3::SearchStream<'a, &'a str, Vec<&'a str>>) -> ldap3::LdapResult {
        stream.finish().await
    }
}

#[derive(Clone, Debug, Serialize, Deserialize)]
pub struct Case {
    pub steps: Vec<Step>,
    pub repeat: u8,
    pub sched: u64,
}

fn strat(_: &Ctx) -> BoxedStrategy<Case> {
    let how = prop_oneof![Just(SearchHow::Direct), Just(SearchHow::EntriesOnly), Just(SearchHow::Conv), Just(SearchHow::Paged), Just(SearchHow::EntriesOnlyPaged)];
    let step = prop_oneof![
        4 => simops::single_strat().prop_map(Step::Single),
        1 => (simops::single_strat(), prop_oneof![Just(32u32), Just(49u32), Just(53u32), Just(10u32)]).prop_map(|(s, c)| Step::SingleError(s, c)),
        2 => (simops::single_strat(), any::<bool>()).prop_map(|(s, l)| Step::SingleTimeout(s, l)),
        6 => (how, 0u8..5, 1u8..4, proptest::option::weighted(0.45, 0u8..6), any::<bool>()).prop_map(|(how, n, pages, read, open)| {
            // "open": the server withholds the final result of the (last served) page, so that an early
            // finish() happens while the search is still open at the driver; only with a read limit
            let open = open && read.is_some() && how != SearchHow::Conv;
            Step::Search { how, n, pages, read, open }
        }),
        1 => (any::<bool>(), any::<bool>()).prop_map(|(adapted, late)| Step::SearchTimeout { adapted, late }),
        3 => prop_oneof![Just(AbandonTarget::Finished), Just(AbandonTarget::TimedOut), Just(AbandonTarget::InFlight), Just(AbandonTarget::NeverIssued), Just(AbandonTarget::InFlightSearch), Just(AbandonTarget::InFlightSearchDropped)].prop_map(Step::Abandon),
        2 => (0u8..5).prop_map(Step::Unsolicited),
        3 => (1u8..6).prop_map(Step::Rewind),
        2 => (any::<bool>(), any::<bool>()).prop_map(|(search, adapted)| Step::TimeoutTie { search, adapted }),
        2 => (any::<bool>(), any::<bool>(), any::<bool>()).prop_map(|(search, adapted, answered)| Step::TimeoutWhileQueued { search, adapted, answered }),
        1 => (any::<bool>(), proptest::sample::select(&[1u8, 7, 9, 11, 13, 15, 24][..]), 0u8..4).prop_map(|(adapted, app, n)| Step::SearchWithForeign { adapted, app, n }),
        1 => any::<bool>().prop_map(|late| Step::SearchConvTimeout { late }),
        2 => (0u8..5).prop_map(Step::LocalFailure),
        1 => (any::<bool>(), any::<bool>()).prop_map(|(second_is_search, late)| Step::DoubleTimeout { second_is_search, late }),
        1 => any::<bool>().prop_map(|adapted| Step::PagedFinishWhileIdReused { adapted }),
        1 => (0u8..3, 0u8..4).prop_map(|(how, n)| Step::SearchWithNotice { how, n }),
        1 => Just(Step::AbandonNoticedLate),
        2 => (0u8..4, 0u8..4, any::<bool>()).prop_map(|(n, after, chained)| Step::SearchAdapterError { n, after: after.min(n), chained }),
    ];
    (vec(step, 3..=14), 1u8..=3, any::<u64>()).prop_map(|(steps, repeat, sched)| Case { steps, repeat, sched }).boxed()
}

#[derive(Clone, Debug)]
enum Plan {
    /// answer with these entries then a result with this code
    Answer { entries: u8, rc: u32, open: bool },
    Silent { late: bool },
    /// answer (result, or one entry for a search) exactly `after_ms` after the request arrived
    Tie { after_ms: u64 },
    /// a search answered with one entry, a well-formed response of another type under the same id, the rest, the result
    Foreign { entries: u8, app: u8 },
    /// open_page: the final result of this page index is withheld (and sent late)
    Paged { per_page: u8, pages: u8, open_page: Option<usize> },
}

#[derive(Default)]
struct Shared {
    plans: HashMap<usize, Plan>,
    /// requests seen per marker index
    seen: HashMap<usize, usize>,
    abandons: Vec<i64>,
    wire_ids: HashMap<usize, Vec<i64>>,
    problems: Vec<String>,
    silent_ids: Vec<(i64, u8, bool)>,
    /// withheld final results: sent after the step, when nobody waits for them any more
    withheld: Vec<Vec<u8>>,
}

const PAGED_OID: &str = "1.2.840.113556.1.4.319";

fn paged_value(size: i64, cookie: &[u8]) -> Vec<u8> {
    ber::encode(&Tlv::seq(vec![Tlv::int(size), Tlv::octets(cookie.to_vec())]))
}

async fn server(wire: sim::Wire, sh: Arc<Mutex<Shared>>) {
    loop {
        match wire.recv().await {
            Recv::Msg(Ok(m), _, _) => {
                if let Req::Abandon(id) = m.req {
                    sh.lock().unwrap().abandons.push(id);
                    continue;
                }
                let Some(tag) = m.req.response_tag() else { continue };
                let Some(idx) = simops::marker_index(&m) else {
                    sh.lock().unwrap().problems.push(format!("request without marker: {:?}", m.req.kind()));
                    continue;
                };
                let (plan, nth) = {
                    let mut s = sh.lock().unwrap();
                    let nth = *s.seen.entry(idx).and_modify(|n| *n += 1).or_insert(0);
                    s.wire_ids.entry(idx).or_default().push(m.id);
                    (s.plans.get(&idx).cloned(), nth)
                };
                let mut out = Vec::new();
                match plan {
                    Some(Plan::Answer { entries, rc, open }) => {
                        if tag == 5 {
                            for e in 0..entries {
                                out.extend_from_slice(&RespMsg::new(m.id, Resp::Entry(Entry::simple(&format!("cn=e{}", e)))).encode());
                            }
                        }
                        let fin = RespMsg::new(m.id, Resp::result(tag, Res::code(rc, ""))).encode();
                        if open && tag == 5 {
                            sh.lock().unwrap().withheld.push(fin);
                        } else {
                            out.extend_from_slice(&fin);
                        }
                    }
                    Some(Plan::Silent { late }) => {
                        sh.lock().unwrap().silent_ids.push((m.id, tag, late));
                    }
                    Some(Plan::Foreign { entries, app }) => {
                        let foreign = if app == 0 {
                            // not under the search's id: the unsolicited Notice of Disconnection
                            RespMsg::new(0, Resp::Result { app: 24, res: Res::code(52, "notice"), sasl: None, exop_name: Some("1.3.6.1.4.1.1466.20036".into()), exop_val: None })
                        } else if app == 24 {
                            RespMsg::new(m.id, Resp::Result { app: 24, res: Res::ok("foreign"), sasl: None, exop_name: Some("1.2.3".into()), exop_val: None })
                        } else {
                            RespMsg::new(m.id, Resp::result(app, Res::ok("foreign")))
                        };
                        for e in 0..entries {
                            if e == 1 {
                                out.extend_from_slice(&foreign.encode());
                            }
                            out.extend_from_slice(&RespMsg::new(m.id, Resp::Entry(Entry::simple(&format!("cn=e{}", e)))).encode());
                        }
                        if entries <= 1 {
                            out.extend_from_slice(&foreign.encode());
                        }
                        out.extend_from_slice(&RespMsg::new(m.id, Resp::result(5, Res::ok(""))).encode());
                    }
                    Some(Plan::Tie { after_ms }) => {
                        let w2 = wire.clone();
                        let id = m.id;
                        tokio::spawn(async move {
                            tokio::time::sleep(Duration::from_millis(after_ms)).await;
                            if tag == 5 {
                                w2.push(&RespMsg::new(id, Resp::Entry(Entry::simple("cn=tie"))).encode());
                                // the search is completed a little later whatever the caller saw
                                tokio::time::sleep(Duration::from_millis(5)).await;
                            }
                            w2.push(&RespMsg::new(id, Resp::result(tag, Res::ok("tie"))).encode());
                        });
                    }
                    Some(Plan::Paged { per_page, pages, open_page }) => {
                        for e in 0..per_page {
                            out.extend_from_slice(&RespMsg::new(m.id, Resp::Entry(Entry::simple(&format!("cn=p{}e{}", nth, e)))).encode());
                        }
                        let cookie: Vec<u8> = if nth + 1 < pages as usize { format!("ck{}", nth).into_bytes() } else { vec![] };
                        let ctl = RCtl { oid: PAGED_OID.into(), crit: CritForm::Absent, val: Some(paged_value(0, &cookie)) };
                        let fin = RespMsg { id: m.id, resp: Resp::result(5, Res::ok("")), ctrls: Some(vec![ctl]) }.encode();
                        if open_page == Some(nth) {
                            sh.lock().unwrap().withheld.push(fin);
                        } else {
                            out.extend_from_slice(&fin);
                        }
                    }
                    None => sh.lock().unwrap().problems.push(format!("no plan for op {}", idx)),
                }
                if !out.is_empty() {
                    wire.push(&out);
                }
            }
            Recv::Msg(Err(e), _, _) => sh.lock().unwrap().problems.push(format!("bad request: {}", e)),
            Recv::Garbage(e) => {
                sh.lock().unwrap().problems.push(e);
                break;
            }
            Recv::Closed => break,
        }
    }
}

struct Cx {
    ldap: Ldap,
    wire: sim::Wire,
    sh: Arc<Mutex<Shared>>,
    msgmap: Arc<Mutex<(i32, std::collections::HashSet<i32>)>>,
    gauges: Arc<Mutex<(usize, usize)>>,
    next_idx: usize,
    last_finished: Option<i32>,
    last_timed_out: Option<i32>,
    notes: Vec<String>,
}

impl Cx {
    fn plan(&mut self, p: Plan) -> (usize, String) {
        let i = self.next_idx;
        self.next_idx += 1;
        self.sh.lock().unwrap().plans.insert(i, p);
        (i, simops::marker(i))
    }
    /// late replies for silent ids flagged `late`
    /// withheld final results arrive when the search has long been finished by the caller
    fn send_withheld(&mut self) {
        let w: Vec<Vec<u8>> = std::mem::take(&mut self.sh.lock().unwrap().withheld);
        for b in w {
            self.wire.push(&b);
        }
    }
    fn send_late(&mut self) {
        let ids: Vec<(i64, u8, bool)> = std::mem::take(&mut self.sh.lock().unwrap().silent_ids);
        for (id, tag, late) in ids {
            if late {
                self.wire.push(&RespMsg::new(id, Resp::result(tag, Res::ok("late"))).encode());
            }
        }
    }
}

async fn do_step(cx: &mut Cx, step: &Step) -> Result<(), Fail> {
    match step {
        Step::Single(k) => {
            let (_, mk) = cx.plan(Plan::Answer { entries: 0, rc: 0, open: false });
            let r = simops::exec_single(&mut cx.ldap, *k, &mk).await;
            ensure!(r.is_ok(), "c13:op-failed", "{:?} failed: {:?}", k, r.err().map(|e| err_kind(&e)));
            cx.last_finished = Some(cx.ldap.last_id());
        }
        Step::SingleError(k, rc) => {
            let (_, mk) = cx.plan(Plan::Answer { entries: 0, rc: *rc, open: false });
            let r = simops::exec_single(&mut cx.ldap, *k, &mk).await;
            ensure!(r.map(|r| r.rc).ok() == Some(*rc), "c13:op-failed", "{:?} did not return code {}", k, rc);
            cx.last_finished = Some(cx.ldap.last_id());
        }
        Step::SingleTimeout(k, late) => {
            let (_, mk) = cx.plan(Plan::Silent { late: *late });
            cx.ldap.with_timeout(Duration::from_millis(50));
            let r = simops::exec_single(&mut cx.ldap, *k, &mk).await;
            ensure!(matches!(r, Err(ldap3::LdapError::Timeout { .. })), "c13:timeout-expected", "{:?} against a silent server returned {:?}", k, r.map(|r| r.rc).map_err(|e| err_kind(&e)));
            cx.last_timed_out = Some(cx.ldap.last_id());
            quiesce().await;
            cx.send_late();
        }
        Step::Search { how, n, pages, read, open } => {
            let paged = matches!(how, SearchHow::Paged | SearchHow::EntriesOnlyPaged);
            // with an open search the caller must not ask for more items than will arrive
            let open_page = if *open && paged { Some((*pages as usize - 1).min(1)) } else { None };
            let available = match (paged, open_page) {
                (true, Some(op)) => *n as usize * (op + 1),
                (true, None) => *n as usize * *pages as usize,
                (false, _) => *n as usize,
            };
            let read = &if *open { read.map(|k| (k as usize).min(available) as u8) } else { *read };
            let (_, mk) = cx.plan(if paged { Plan::Paged { per_page: *n, pages: *pages, open_page } } else { Plan::Answer { entries: *n, rc: 0, open: *open } });
            let total = if paged { *n as usize * *pages as usize } else { *n as usize };
            if *how == SearchHow::Conv {
                let r = cx.ldap.search(&mk, Scope::Subtree, "(a=b)", vec!["a"]).await;
                match r {
                    Ok(sr) => ensure!(sr.0.len() == total, "c13:search-entries", "search() returned {} entries, {} sent", sr.0.len(), total),
                    Err(e) => fail!("c13:op-failed", "search() failed: {}", err_kind(&e)),
                }
                return Ok(());
            }
            let attrs = vec!["a"];
            let s = match how {
                SearchHow::Direct => cx.ldap.streaming_search(&mk, Scope::Subtree, "(a=b)", attrs).await,
                SearchHow::EntriesOnly => cx.ldap.streaming_search_with(EntriesOnly::new(), &mk, Scope::Subtree, "(a=b)", attrs).await,
                SearchHow::Paged => cx.ldap.streaming_search_with(PagedResults::new(2), &mk, Scope::Subtree, "(a=b)", attrs).await,
                _ => {
                    let ad: Vec<Box<dyn Adapter<_, _>>> = vec![Box::new(EntriesOnly::new()), Box::new(PagedResults::new(2))];
                    cx.ldap.streaming_search_with(ad, &mk, Scope::Subtree, "(a=b)", attrs).await
                }
            };
            let mut s = match s {
                Ok(s) => s,
                Err(e) => fail!("c13:op-failed", "search start failed: {}", err_kind(&e)),
            };
            let mut got = 0usize;
            let mut ended = false;
            loop {
                if let Some(k) = read {
                    if got >= *k as usize {
                        break;
                    }
                }
                match s.next().await {
                    Ok(Some(_)) => got += 1,
                    Ok(None) => {
                        ended = true;
                        break;
                    }
                    Err(e) => fail!("c13:op-failed", "search next failed: {}", err_kind(&e)),
                }
            }
            let res = s.finish().await;
            if ended {
                ensure!(got == total, "c13:search-entries", "{:?} search yielded {} entries, {} sent", how, got, total);
                ensure!(res.rc == 0, "c13:search-result", "finish() after reading to the end gave code {}", res.rc);
            } else {
                // what finish() returns here is C10's / C16's business
                let _ = res;
                cx.notes.push(if *open { "early-finish-of-open-search".into() } else { "early-finish".into() });
            }
            // the withheld final result is sent by the caller of do_step, after the quiescent-point check:
            // a late result would otherwise clean up what the early finish() should have released
        }
        Step::SearchAdapterError { n, after, chained } => {
            // the final result is withheld: the search is open at the server and the driver when the adapter fails
            let (_, mk) = cx.plan(Plan::Answer { entries: *n, rc: 0, open: true });
            let fa = FailingAdapter { left: (*after).min(*n) };
            let attrs = vec!["a"];
            let s = if *chained {
                let ad: Vec<Box<dyn Adapter<_, _>>> = vec![Box::new(fa), Box::new(EntriesOnly::new())];
                cx.ldap.streaming_search_with(ad, &mk, Scope::Subtree, "(a=b)", attrs).await
            } else {
                cx.ldap.streaming_search_with(fa, &mk, Scope::Subtree, "(a=b)", attrs).await
            };
            match s {
                Ok(mut s) => {
                    let mut failed = false;
                    for _ in 0..=*n {
                        match s.next().await {
                            Ok(Some(_)) => {}
                            Ok(None) => break,
                            Err(ldap3::LdapError::AdapterInit(_)) => {
                                failed = true;
                                break;
                            }
                            Err(e) => fail!("c13:op-failed", "search next failed: {}", err_kind(&e)),
                        }
                    }
                    ensure!(failed, "c13:adapter-error-swallowed", "the adapter's next() error was not returned");
                    let _ = s.finish().await;
                }
                Err(e) => fail!("c13:op-failed", "search start failed: {}", err_kind(&e)),
            }
            cx.notes.push("adapter-error".into());
        }
        Step::SearchTimeout { adapted, late } => {
            let (_, mk) = cx.plan(Plan::Silent { late: *late });
            cx.ldap.with_timeout(Duration::from_millis(50));
            let s = if *adapted { cx.ldap.streaming_search_with(EntriesOnly::new(), &mk, Scope::Subtree, "(a=b)", vec!["a"]).await } else { cx.ldap.streaming_search(&mk, Scope::Subtree, "(a=b)", vec!["a"]).await };
            let mut s = match s {
                Ok(s) => s,
                Err(e) => fail!("c13:op-failed", "search start failed: {}", err_kind(&e)),
            };
            let r = s.next().await;
            ensure!(matches!(r, Err(ldap3::LdapError::Timeout { .. })), "c13:timeout-expected", "search against a silent server did not time out");
            cx.last_timed_out = Some(s.ldap_handle().last_id());
            let _ = s.finish().await;
            quiesce().await;
            cx.send_late();
        }
        Step::Abandon(t) => {
            let before = cx.sh.lock().unwrap().abandons.len();
            let target: i32 = match t {
                AbandonTarget::Finished => cx.last_finished.unwrap_or(1),
                AbandonTarget::TimedOut => cx.last_timed_out.unwrap_or(1),
                AbandonTarget::NeverIssued => 1_000_000 + cx.next_idx as i32,
                AbandonTarget::InFlightSearch | AbandonTarget::InFlightSearchDropped => {
                    let dropped = *t == AbandonTarget::InFlightSearchDropped;
                    let (idx, mk) = cx.plan(Plan::Answer { entries: 1, rc: 0, open: true });
                    let mut l2 = cx.ldap.clone();
                    let jh = tokio::spawn(async move {
                        let mut s = match l2.streaming_search(&mk, Scope::Subtree, "(a=b)", vec!["a"]).await {
                            Ok(s) => s,
                            Err(e) => return Err(format!("start:{}", err_kind(&e))),
                        };
                        let first = s.next().await.map(|o| o.is_some()).map_err(|e| err_kind(&e));
                        // this call waits: the final result is withheld
                        let second = s.next().await.map(|o| o.is_some()).map_err(|e| err_kind(&e));
                        if dropped {
                            drop(s);
                        } else {
                            let _ = s.finish().await;
                        }
                        Ok((first, second))
                    });
                    quiesce().await;
                    let id = { cx.sh.lock().unwrap().wire_ids.get(&idx).and_then(|v| v.last().copied()) };
                    let Some(id) = id else { fail!("c13:op-failed", "in-flight search never reached the server") };
                    let id = id as i32;
                    let r = cx.ldap.abandon(id).await;
                    ensure!(r.is_ok(), "c13:abandon-failed", "abandon({}) failed: {:?}", id, r.err().map(|e| err_kind(&e)));
                    let ah = jh.abort_handle();
                    match tokio::time::timeout(Duration::from_secs(3600), jh).await {
                        Err(_) => {
                            ah.abort();
                            fail!("c13:abandon-waiter-not-released", "a consumer waiting in next() of search {} is still blocked an hour after abandon({})", id, id)
                        }
                        Ok(Err(_)) => fail!("c13:abandon-waiter-panic", "waiter panicked: {:?}", crate::runner::take_panics()),
                        Ok(Ok(Err(e))) => fail!("c13:op-failed", "in-flight search: {}", e),
                        Ok(Ok(Ok((first, second)))) => {
                            ensure!(first == Ok(true), "c13:op-failed", "the entry sent before the abandon was not delivered: {:?}", first);
                            ensure!(second.is_err(), "c13:abandon-waiter-got-ok", "next() of the abandoned search returned {:?} instead of an error", second);
                        }
                    }
                    let ab = cx.sh.lock().unwrap().abandons.clone();
                    ensure!(ab.len() == before + 1 && ab[before] == id as i64, "c13:abandon-request", "abandon({}) put {:?} on the wire", id, &ab[before..]);
                    cx.notes.push(if dropped { "abandon-of-mid-stream-search-then-drop".into() } else { "abandon-of-mid-stream-search-then-finish".into() });
                    return Ok(());
                }
                AbandonTarget::InFlight => {
                    let (_, mk) = cx.plan(Plan::Silent { late: false });
                    let mut l2 = cx.ldap.clone();
                    let jh = tokio::spawn(async move {
                        let r = l2.delete(&mk).await;
                        (r.map(|r| r.rc).map_err(|e| err_kind(&e)), l2.last_id())
                    });
                    quiesce().await;
                    let id = { cx.sh.lock().unwrap().silent_ids.pop().map(|s| s.0 as i32) };
                    let Some(id) = id else { fail!("c13:op-failed", "in-flight request never reached the server") };
                    let r = cx.ldap.abandon(id).await;
                    ensure!(r.is_ok(), "c13:abandon-failed", "abandon({}) failed: {:?}", id, r.err().map(|e| err_kind(&e)));
                    // the waiting caller must be released with an error
                    let ah = jh.abort_handle();
                    let waited = tokio::time::timeout(Duration::from_secs(3600), jh).await;
                    if waited.is_err() {
                        ah.abort();
                    }
                    match waited {
                        Err(_) => fail!("c13:abandon-waiter-not-released", "a caller waiting on operation {} is still blocked an hour after abandon({})", id, id),
                        Ok(Ok((r, lid))) => {
                            ensure!(lid == id, "c13:op-failed", "in-flight id bookkeeping: {} vs {}", lid, id);
                            ensure!(r.is_err(), "c13:abandon-waiter-got-ok", "abandoned operation returned Ok({:?})", r);
                        }
                        Ok(Err(_)) => fail!("c13:abandon-waiter-panic", "waiter panicked: {:?}", crate::runner::take_panics()),
                    }
                    let ab = cx.sh.lock().unwrap().abandons.clone();
                    ensure!(ab.len() == before + 1 && ab[before] == id as i64, "c13:abandon-request", "abandon({}) put {:?} on the wire", id, &ab[before..]);
                    return Ok(());
                }
            };
            let r = cx.ldap.abandon(target).await;
            ensure!(r.is_ok(), "c13:abandon-failed", "abandon({}) failed: {:?}", target, r.err().map(|e| err_kind(&e)));
            quiesce().await;
            let ab = cx.sh.lock().unwrap().abandons.clone();
            ensure!(ab.len() == before + 1 && ab[before] == target as i64, "c13:abandon-request", "abandon({}) put {:?} on the wire", target, &ab[before..]);
        }
        Step::TimeoutTie { search, adapted } => {
            let (_, mk) = cx.plan(Plan::Tie { after_ms: 50 });
            cx.ldap.with_timeout(Duration::from_millis(50));
            if *search {
                let s = if *adapted { cx.ldap.streaming_search_with(EntriesOnly::new(), &mk, Scope::Subtree, "(a=b)", vec!["a"]).await } else { cx.ldap.streaming_search(&mk, Scope::Subtree, "(a=b)", vec!["a"]).await };
                let mut s = match s {
                    Ok(s) => s,
                    Err(e) => fail!("c13:op-failed", "search start failed: {}", err_kind(&e)),
                };
                match s.next().await {
                    Ok(Some(_)) => cx.notes.push("tie:search-item-won".into()),
                    Err(ldap3::LdapError::Timeout { .. }) => cx.notes.push("tie:search-timeout-won".into()),
                    other => fail!("c13:op-failed", "tied search next() returned {:?}", other.map(|o| o.is_some()).map_err(|e| err_kind(&e))),
                }
                cx.last_timed_out = Some(s.ldap_handle().last_id());
                let _ = s.finish().await;
            } else {
                match simops::exec_single(&mut cx.ldap, Single::Delete, &mk).await {
                    Ok(_) => cx.notes.push("tie:reply-won".into()),
                    Err(ldap3::LdapError::Timeout { .. }) => cx.notes.push("tie:timeout-won".into()),
                    Err(e) => fail!("c13:op-failed", "tied operation failed: {}", err_kind(&e)),
                }
                cx.last_timed_out = Some(cx.ldap.last_id());
            }
            // let the rest of the scripted answer arrive
            tokio::time::sleep(Duration::from_millis(20)).await;
        }
        Step::TimeoutWhileQueued { search, adapted, answered } => {
            cx.wire.block_writes(true);
            // the blocker: an ordinary operation whose request cannot be written for now
            let (_, mk_a) = cx.plan(Plan::Answer { entries: 0, rc: 0, open: false });
            let mut l2 = cx.ldap.clone();
            let jh = tokio::spawn(async move { l2.delete(&mk_a).await.map(|r| r.rc).map_err(|e| err_kind(&e)) });
            quiesce().await;
            let (_, mk) = cx.plan(if *answered { Plan::Answer { entries: 1, rc: 0, open: false } } else { Plan::Silent { late: false } });
            cx.ldap.with_timeout(Duration::from_millis(50));
            if *search {
                let s = if *adapted { cx.ldap.streaming_search_with(EntriesOnly::new(), &mk, Scope::Subtree, "(a=b)", vec!["a"]).await } else { cx.ldap.streaming_search(&mk, Scope::Subtree, "(a=b)", vec!["a"]).await };
                match s {
                    Err(ldap3::LdapError::Timeout { .. }) => {}
                    Err(e) => fail!("c13:op-failed", "queued search start failed with {}", err_kind(&e)),
                    Ok(mut s) => {
                        // (a start that does not wait for the driver: the timeout then hits the first next())
                        let r = s.next().await;
                        ensure!(matches!(r, Err(ldap3::LdapError::Timeout { .. })), "c13:timeout-expected", "search queued behind a blocked socket did not time out");
                        let _ = s.finish().await;
                    }
                }
            } else {
                let r = simops::exec_single(&mut cx.ldap, Single::Compare, &mk).await;
                ensure!(matches!(r, Err(ldap3::LdapError::Timeout { .. })), "c13:timeout-expected", "operation queued behind a blocked socket returned {:?}", r.map(|r| r.rc).map_err(|e| err_kind(&e)));
            }
            cx.last_timed_out = Some(cx.ldap.last_id());
            cx.wire.block_writes(false);
            match tokio::time::timeout(Duration::from_secs(3600), jh).await {
                Ok(Ok(Ok(0))) => {}
                other => fail!("c13:op-failed", "the operation whose request was held up by the full send buffer ended with {:?}", other),
            }
            cx.sh.lock().unwrap().silent_ids.clear();
        }
        Step::SearchWithForeign { adapted, app, n } => {
            let (_, mk) = cx.plan(Plan::Foreign { entries: *n, app: *app });
            let s = if *adapted { cx.ldap.streaming_search_with(EntriesOnly::new(), &mk, Scope::Subtree, "(a=b)", vec!["a"]).await } else { cx.ldap.streaming_search(&mk, Scope::Subtree, "(a=b)", vec!["a"]).await };
            let mut s = match s {
                Ok(s) => s,
                Err(e) => fail!("c13:op-failed", "search start failed: {}", err_kind(&e)),
            };
            let mut got = 0;
            loop {
                match s.next().await {
                    Ok(Some(_)) => got += 1,
                    Ok(None) => break,
                    Err(e) => fail!("c13:op-failed", "a search that also received a response of type [APPLICATION {}] under its id failed with {} after {} entries (such a response is to be ignored)", app, err_kind(&e), got),
                }
            }
            let res = s.finish().await;
            ensure!(got == *n as usize && res.rc == 0, "c13:search-entries", "search with a foreign response under its id yielded {} of {} entries, rc {}", got, n, res.rc);
        }
        Step::SearchWithNotice { how, n } => {
            let (_, mk) = cx.plan(Plan::Foreign { entries: *n, app: 0 });
            let (got, rc) = if *how == 2 {
                match cx.ldap.search(&mk, Scope::Subtree, "(a=b)", vec!["a"]).await {
                    Ok(ldap3::SearchResult(e, r)) => (e.len(), r.rc),
                    Err(e) => fail!("c13:op-failed", "search() during which a notice of disconnection (id 0) arrived failed with {}", err_kind(&e)),
                }
            } else {
                let s = if *how == 1 { cx.ldap.streaming_search_with(EntriesOnly::new(), &mk, Scope::Subtree, "(a=b)", vec!["a"]).await } else { cx.ldap.streaming_search(&mk, Scope::Subtree, "(a=b)", vec!["a"]).await };
                let mut s = match s {
                    Ok(s) => s,
                    Err(e) => fail!("c13:op-failed", "search start failed: {}", err_kind(&e)),
                };
                let mut got = 0;
                loop {
                    match s.next().await {
                        Ok(Some(_)) => got += 1,
                        Ok(None) => break,
                        Err(e) => fail!("c13:op-failed", "a search during which a notice of disconnection (id 0) arrived failed with {} after {} entries", err_kind(&e), got),
                    }
                }
                (got, s.finish().await.rc)
            };
            ensure!(got == *n as usize && rc == 0, "c13:search-entries", "search with an id-0 notice in the middle yielded {} of {} entries, rc {}", got, n, rc);
        }
        Step::AbandonNoticedLate => {
            let (_, mk_v) = cx.plan(Plan::Silent { late: false });
            let mut l2 = cx.ldap.clone();
            // the victim's future is polled by hand: once to get its request out, and again only much later
            let mut victim = Box::pin(async move { l2.delete(&mk_v).await.map(|r| r.rc).map_err(|e| err_kind(&e)) });
            ensure!(futures_util::poll!(victim.as_mut()).is_pending(), "c13:op-failed", "an unanswered operation completed");
            quiesce().await;
            let Some((vid, _, _)) = ({ cx.sh.lock().unwrap().silent_ids.pop() }) else { fail!("c13:op-failed", "victim request never reached the server") };
            let r = cx.ldap.abandon(vid as i32).await;
            ensure!(r.is_ok(), "c13:abandon-failed", "abandon({}) failed: {:?}", vid, r.err().map(|e| err_kind(&e)));
            quiesce().await;
            // the released id goes to a new operation X (as after a wrap-around)
            let spawn_probe = |cx: &mut Cx| {
                cx.msgmap.lock().unwrap().0 = (vid - 1) as i32;
                let (_, mk) = cx.plan(Plan::Silent { late: false });
                let mut l = cx.ldap.clone();
                tokio::spawn(async move { l.delete(&mk).await.map(|r| r.text).map_err(|e| err_kind(&e)) })
            };
            let x = spawn_probe(cx);
            quiesce().await;
            let Some((xid, xtag, _)) = ({ cx.sh.lock().unwrap().silent_ids.pop() }) else { fail!("c13:op-failed", "probe X never reached the server") };
            // only now does the abandoned caller look at its operation again
            match futures_util::poll!(victim.as_mut()) {
                std::task::Poll::Ready(Err(_)) => {}
                other => fail!("c13:abandon-waiter-got-ok", "the abandoned operation's future gave {:?} when polled after the abandon", other),
            }
            quiesce().await;
            // one more allocation from the same counter position: X still holds its id, so Y must get another one
            let y = spawn_probe(cx);
            quiesce().await;
            let Some((yid, ytag, _)) = ({ cx.sh.lock().unwrap().silent_ids.pop() }) else { fail!("c13:op-failed", "probe Y never reached the server") };
            ensure!(yid != xid, "c13:duplicate-id-after-abandon", "operation X is outstanding under id {} (handed to it after that id's previous holder was abandoned); once the abandoned caller had noticed, operation Y was given the same id {}", xid, yid);
            cx.wire.push(&RespMsg::new(xid, Resp::result(xtag, Res::ok("x"))).encode());
            cx.wire.push(&RespMsg::new(yid, Resp::result(ytag, Res::ok("y"))).encode());
            let (rx, ry) = (tokio::time::timeout(Duration::from_secs(3600), x).await, tokio::time::timeout(Duration::from_secs(3600), y).await);
            ensure!(matches!(&rx, Ok(Ok(Ok(t))) if t == "x") && matches!(&ry, Ok(Ok(Ok(t))) if t == "y"), "c13:op-failed", "operations issued after an abandon ended with {:?} / {:?}", rx, ry);
            if xid == vid {
                cx.notes.push("abandoned-id-reused-before-the-caller-noticed".into());
            }
        }
        Step::SearchConvTimeout { late } => {
            let (_, mk) = cx.plan(Plan::Silent { late: *late });
            cx.ldap.with_timeout(Duration::from_millis(50));
            let r = cx.ldap.search(&mk, Scope::Subtree, "(a=b)", vec!["a"]).await;
            ensure!(matches!(r, Err(ldap3::LdapError::Timeout { .. })), "c13:timeout-expected", "search() against a silent server did not time out");
            quiesce().await;
            cx.send_late();
        }
        Step::LocalFailure(kind) => {
            let before: usize = cx.sh.lock().unwrap().wire_ids.values().map(|v| v.len()).sum();
            let mk = simops::marker(cx.next_idx);
            cx.next_idx += 1;
            let what = match kind % 5 {
                0 | 3 => {
                    cx.ldap.with_controls(vec![ldap3::controls::PagedResults { size: 5, cookie: vec![] }.into()]);
                    let r = if kind % 5 == 0 {
                        cx.ldap.streaming_search_with(PagedResults::new(2), &mk, Scope::Subtree, "(a=b)", vec!["a"]).await.map(|_| ())
                    } else {
                        let ad: Vec<Box<dyn Adapter<_, _>>> = vec![Box::new(EntriesOnly::new()), Box::new(PagedResults::new(2))];
                        cx.ldap.streaming_search_with(ad, &mk, Scope::Subtree, "(a=b)", vec!["a"]).await.map(|_| ())
                    };
                    ensure!(r.is_err(), "c13:op-failed", "a paged search with a caller-supplied paging control was not refused");
                    "adapter-init"
                }
                1 => {
                    let r = cx.ldap.streaming_search(&mk, Scope::Subtree, "(a=b", vec!["a"]).await.map(|_| ());
                    ensure!(r.is_err(), "c13:op-failed", "a search with an unparsable filter was not refused");
                    "bad-filter"
                }
                2 => {
                    let r = cx.ldap.add(&mk, vec![("a", std::collections::HashSet::<&str>::new())]).await;
                    ensure!(r.is_err(), "c13:op-failed", "an add with a value-less attribute was not refused");
                    "add-no-values"
                }
                _ => {
                    let r = cx.ldap.search(&mk, Scope::Subtree, "(&(a=b)", vec!["a"]).await;
                    ensure!(r.is_err(), "c13:op-failed", "search() with an unparsable filter was not refused");
                    "bad-filter-search()"
                }
            };
            quiesce().await;
            let after: usize = cx.sh.lock().unwrap().wire_ids.values().map(|v| v.len()).sum();
            ensure!(after == before, "c13:op-failed", "a locally failing operation ({}) put a request on the wire", what);
            cx.notes.push(format!("local-failure:{}", what));
        }
        Step::DoubleTimeout { second_is_search, late } => {
            let (_, mk1) = cx.plan(Plan::Silent { late: *late });
            let (_, mk2) = cx.plan(Plan::Silent { late: *late });
            let mut l1 = cx.ldap.clone();
            let mut l2 = cx.ldap.clone();
            l1.with_timeout(Duration::from_millis(50));
            l2.with_timeout(Duration::from_millis(50));
            let sis = *second_is_search;
            // both start in the same instant, so both deadlines fall into the same timer tick
            let a = tokio::spawn(async move { matches!(l1.compare(&mk1, "a", "b").await, Err(ldap3::LdapError::Timeout { .. })) });
            let b = tokio::spawn(async move {
                if sis {
                    match l2.streaming_search(&mk2, Scope::Subtree, "(a=b)", vec!["a"]).await {
                        Ok(mut s) => {
                            let r = matches!(s.next().await, Err(ldap3::LdapError::Timeout { .. }));
                            let _ = s.finish().await;
                            r
                        }
                        Err(_) => false,
                    }
                } else {
                    matches!(l2.delete(&mk2).await, Err(ldap3::LdapError::Timeout { .. }))
                }
            });
            let (ra, rb) = (a.await.unwrap_or(false), b.await.unwrap_or(false));
            ensure!(ra && rb, "c13:timeout-expected", "two operations against a silent server: timed out = {:?}", (ra, rb));
            quiesce().await;
            cx.send_late();
        }
        Step::PagedFinishWhileIdReused { adapted } => {
            // page 0 complete, page 1: one entry, its result withheld (so the search is open when finish() comes)
            let (idx, mk) = cx.plan(Plan::Paged { per_page: 1, pages: 3, open_page: Some(1) });
            let attrs = vec!["a"];
            let s = if *adapted {
                let ad: Vec<Box<dyn Adapter<_, _>>> = vec![Box::new(EntriesOnly::new()), Box::new(PagedResults::new(2))];
                cx.ldap.streaming_search_with(ad, &mk, Scope::Subtree, "(a=b)", attrs).await
            } else {
                cx.ldap.streaming_search_with(PagedResults::new(2), &mk, Scope::Subtree, "(a=b)", attrs).await
            };
            let mut s = match s {
                Ok(s) => s,
                Err(e) => fail!("c13:op-failed", "search start failed: {}", err_kind(&e)),
            };
            for _ in 0..2 {
                match s.next().await {
                    Ok(Some(_)) => {}
                    other => fail!("c13:op-failed", "paged search: {:?}", other.map(|o| o.is_some()).map_err(|e| err_kind(&e))),
                }
            }
            let first_id = { cx.sh.lock().unwrap().wire_ids.get(&idx).and_then(|v| v.first().copied()) };
            let Some(first_id) = first_id else { fail!("c13:op-failed", "no request seen") };
            // as after a wrap-around: the next operation is handed the id the first page travelled under
            cx.msgmap.lock().unwrap().0 = (first_id - 1) as i32;
            let (_, mk_b) = cx.plan(Plan::Silent { late: false });
            let mut l2 = cx.ldap.clone();
            let jh = tokio::spawn(async move {
                let r = l2.delete(&mk_b).await;
                (r.map(|r| r.text).map_err(|e| err_kind(&e)), l2.last_id())
            });
            quiesce().await;
            let sid = { cx.sh.lock().unwrap().silent_ids.pop() };
            let Some((bid, btag, _)) = sid else { fail!("c13:op-failed", "bystander request never reached the server") };
            // the early finish of the paged search
            let _ = s.finish().await;
            quiesce().await;
            // now the bystander is answered: it must get its own answer
            cx.wire.push(&RespMsg::new(bid, Resp::result(btag, Res::ok("bystander"))).encode());
            let ah = jh.abort_handle();
            match tokio::time::timeout(Duration::from_secs(3600), jh).await {
                Err(_) => {
                    ah.abort();
                    fail!("c13:bystander-disturbed", "an operation outstanding under id {} (the id the paged search's FIRST page had used and released) never got its answer after the paged search was finished early on its second page", bid)
                }
                Ok(Ok((Ok(t), _))) if t == "bystander" => {}
                Ok(other) => fail!("c13:bystander-disturbed", "the operation outstanding under re-used id {} ended with {:?}", bid, other.map(|o| o.0)),
            }
            if bid == first_id {
                cx.notes.push("first-page-id-reused-during-early-finish".into());
            }
        }
        Step::Rewind(k) => {
            let mut m = cx.msgmap.lock().unwrap();
            m.0 = (m.0 - *k as i32).max(0);
        }
        Step::Unsolicited(k) => {
            let id = 2_000_000 + cx.next_idx as i64;
            let msg = match k {
                0 => RespMsg::new(0, Resp::Result { app: 24, res: Res::code(52, "notice"), sasl: None, exop_name: Some("1.3.6.1.4.1.1466.20036".into()), exop_val: None }),
                1 => RespMsg::new(id, Resp::result(11, Res::ok("unsol"))),
                2 => RespMsg::new(id, Resp::Entry(Entry::simple("cn=unsol"))),
                // a response under the id the allocator hands out NEXT (not in use now, the client is idle): it belongs
                // to nobody, and the operation that gets this id afterwards must be served normally (C01: a response
                // under an unknown id disturbs no other operation)
                k => {
                    let fid = {
                        let m = cx.msgmap.lock().unwrap();
                        if m.0 < i32::MAX - 4 && !m.1.contains(&(m.0 + 1)) {
                            m.0 as i64 + 1
                        } else {
                            id
                        }
                    };
                    if *k == 3 {
                        RespMsg::new(fid, Resp::result(11, Res::ok("unsol")))
                    } else {
                        RespMsg::new(fid, Resp::Entry(Entry::simple("cn=unsol")))
                    }
                }
            };
            cx.wire.push(&msg.encode());
            if *k >= 3 {
                // the driver has read and dropped it before the next operation is issued
                quiesce().await;
                cx.notes.push("stray-response-under-the-next-id".into());
            }
        }
    }
    Ok(())
}

fn step_class(s: &Step) -> String {
    match s {
        Step::Search { how, read: None, .. } => format!("{:?}-search-read-to-end", how),
        Step::Search { how, read: Some(_), open: true, .. } => format!("{:?}-search-finished-early-while-open", how),
        Step::Search { how, read: Some(_), .. } => format!("{:?}-search-finished-early-or-at-limit", how),
        Step::Abandon(t) => format!("abandon-{:?}", t),
        Step::Single(_) => "single".into(),
        Step::SingleError(..) => "single-error".into(),
        Step::SingleTimeout(..) => "single-timeout".into(),
        Step::SearchTimeout { adapted, .. } => format!("search-timeout-{}", if *adapted { "adapted" } else { "direct" }),
        Step::Unsolicited(_) => "unsolicited".into(),
        Step::Rewind(_) => "rewind-id-counter".into(),
        Step::SearchWithForeign { adapted, .. } => format!("search-with-foreign-response-{}", if *adapted { "adapted" } else { "direct" }),
        Step::SearchConvTimeout { .. } => "search()-timeout".into(),
        Step::AbandonNoticedLate => "abandon-noticed-late".into(),
        Step::SearchAdapterError { chained, .. } => format!("user-adapter-fails-in-next{}", if *chained { "-chained" } else { "" }),
        Step::SearchWithNotice { how, .. } => format!("search-with-id0-notice-{}", ["direct", "entries-only", "search()"][*how as usize % 3]),
        Step::LocalFailure(k) => format!("local-failure-{}", k % 5),
        Step::DoubleTimeout { second_is_search, .. } => format!("double-timeout-{}", if *second_is_search { "op+search" } else { "op+op" }),
        Step::PagedFinishWhileIdReused { .. } => "paged-early-finish-while-first-page-id-reused".into(),
        Step::TimeoutTie { search, .. } => format!("timeout-tie-{}", if *search { "search" } else { "single" }),
        Step::TimeoutWhileQueued { search, answered, .. } => format!("timeout-while-queued-{}-{}", if *search { "search" } else { "single" }, if *answered { "answered-later" } else { "never-answered" }),
    }
}

pub fn check(case: &Case, obs: &mut Obs) -> Result<(), Fail> {
    let c = case.clone();
    let out = sim::run_sim(case.sched, async move {
        let conn = sim::connect();
        let sh = Arc::new(Mutex::new(Shared::default()));
        let srv = tokio::spawn(server(conn.wire.clone(), sh.clone()));
        let mut cx = Cx { ldap: conn.ldap.clone(), wire: conn.wire.clone(), sh: sh.clone(), msgmap: conn.msgmap.clone(), gauges: conn.gauges.clone(), next_idx: 0, last_finished: None, last_timed_out: None, notes: vec![] };
        let mut result: Result<(), Fail> = Ok(());
        'outer: for round in 0..c.repeat {
            for (i, step) in c.steps.iter().enumerate() {
                if let Err(f) = do_step(&mut cx, step).await {
                    result = Err(f);
                    break 'outer;
                }
                // quiescent point: nothing outstanding
                quiesce().await;
                quiesce().await;
                let (last, in_use) = {
                    let m = cx.msgmap.lock().unwrap();
                    let mut v: Vec<i32> = m.1.iter().copied().collect();
                    v.sort();
                    (m.0, v)
                };
                let g = *cx.gauges.lock().unwrap();
                if !in_use.is_empty() {
                    result = Err(Fail::new(format!("c13:id-leak:{}", step_class(step)), format!("round {} step {} ({:?}): nothing is outstanding but message ids {:?} are still reserved (last issued {})", round, i, step, in_use, last)));
                    break 'outer;
                }
                if g != (0, 0) {
                    result = Err(Fail::new(format!("c13:routing-leak:{}", step_class(step)), format!("round {} step {} ({:?}): nothing is outstanding but the driver holds {} result and {} search routing entries", round, i, step, g.0, g.1)));
                    break 'outer;
                }
                // now the withheld final results of open searches arrive, as late replies
                cx.send_withheld();
                quiesce().await;
            }
        }
        let problems = sh.lock().unwrap().problems.clone();
        let notes = cx.notes.clone();
        drop(cx);
        let sim::Conn { ldap, driver, .. } = conn;
        drop(ldap);
        let end = sim::join_driver(driver).await;
        let _ = srv.await;
        (result, problems, end, notes)
    });
    let (result, problems, end, notes) = match out {
        SimResult::Done(v) => v,
        SimResult::Hang => fail!("c13:hang", "history never completed"),
    };
    if let sim::DriveEnd::Panic(p) = &end {
        fail!(panic_sig(p), "driver panicked: {}", p);
    }
    result?;
    ensure!(problems.is_empty(), "c13:server-problem", "{:?}", problems);
    for s in &case.steps {
        obs.label(step_class(s));
    }
    for n in notes {
        obs.label(n);
    }
    let interesting = case.steps.iter().filter(|s| !matches!(s, Step::Single(_) | Step::SingleError(..) | Step::Unsolicited(_) | Step::Rewind(_))).count();
    if case.steps.len() >= 3 && interesting >= 1 {
        obs.nontrivial(format!("{:?}", case.steps));
    }
    Ok(())
}


// ---------------------------------------------------------------- lane: a connection established through StartTLS
//
// StartTLS is the one operation the library runs through the driver's single-operation mode; its message id and
// routing entry must be gone like any other's once the connection is handed to the caller.

#[derive(Clone, Debug, Serialize, Deserialize)]
pub struct TlsCase {
    ops_after: u8,
}

fn tls_check(c: &TlsCase, obs: &mut Obs) -> Result<(), Fail> {
    use crate::netinfra::{self, Cert};
    use tokio::io::{AsyncReadExt, AsyncWriteExt};
    let rt = tokio::runtime::Builder::new_current_thread().enable_all().build().map_err(|e| Fail::new("env-runtime", e.to_string()))?;
    let c = c.clone();
    let res: Result<(Vec<i32>, (usize, usize), Vec<u32>), Fail> = rt.block_on(async move {
        let listener = tokio::net::TcpListener::bind("127.0.0.1:0").await.map_err(|e| Fail::new("env-bind", e.to_string()))?;
        let port = listener.local_addr().map_err(|e| Fail::new("env-bind", e.to_string()))?.port();
        let acc = netinfra::acceptor(Cert::Good).map_err(|e| Fail::new("env-tls", e))?;
        let srv = tokio::spawn(async move {
            let Ok((mut sock, _)) = listener.accept().await else { return };
            // the StartTLS request in cleartext
            let mut buf = Vec::new();
            let id = loop {
                let mut tmp = [0u8; 512];
                match sock.read(&mut tmp).await {
                    Ok(0) | Err(_) => return,
                    Ok(n) => buf.extend_from_slice(&tmp[..n]),
                }
                if let ber::Parsed::Complete(t, _) = ber::parse(&buf) {
                    match crate::model::decode_request(&t) {
                        Ok(m) => break m.id,
                        Err(_) => return,
                    }
                }
            };
            let _ = sock.write_all(&RespMsg::new(id, Resp::Result { app: 24, res: Res::ok(""), sasl: None, exop_name: Some("1.3.6.1.4.1.1466.20037".into()), exop_val: None }).encode()).await;
            let Ok(mut tls) = acc.accept(sock).await else { return };
            let mut buf = Vec::new();
            loop {
                let mut tmp = [0u8; 2048];
                match tls.read(&mut tmp).await {
                    Ok(0) | Err(_) => return,
                    Ok(n) => buf.extend_from_slice(&tmp[..n]),
                }
                while let ber::Parsed::Complete(t, used) = ber::parse(&buf) {
                    buf.drain(..used);
                    if let Ok(m) = crate::model::decode_request(&t) {
                        if let Some(tag) = m.req.response_tag() {
                            let _ = tls.write_all(&RespMsg::new(m.id, Resp::result(tag, Res::ok("tls"))).encode()).await;
                        }
                    }
                }
            }
        });
        let settings = ldap3::LdapConnSettings::new().set_starttls(true).set_conn_timeout(Duration::from_secs(20)).set_connector(netinfra::ca_connector().map_err(|e| Fail::new("env-tls", e))?);
        let (conn, mut ldap) = match ldap3::LdapConnAsync::with_settings(settings, &format!("ldap://localhost:{}", port)).await {
            Ok(x) => x,
            Err(e) => return Err(Fail::new("env-starttls", format!("StartTLS establishment against the harness's own server failed: {}", err_kind(&e)))),
        };
        let gauges = conn.verif_gauges();
        let drv = tokio::spawn(async move {
            let _ = conn.drive().await;
        });
        let mut rcs = Vec::new();
        for i in 0..c.ops_after {
            match tokio::time::timeout(Duration::from_secs(20), ldap.delete(&format!("cn=x{}", i))).await {
                Ok(Ok(r)) => rcs.push(r.rc),
                Ok(Err(e)) => return Err(Fail::new("c13:op-failed", format!("operation after StartTLS failed: {}", err_kind(&e)))),
                Err(_) => return Err(Fail::new("env-timeout", "operation after StartTLS timed out")),
            }
        }
        tokio::time::sleep(Duration::from_millis(20)).await;
        let in_use: Vec<i32> = {
            let m = ldap.verif_msgmap();
            let m = m.lock().unwrap();
            let mut v: Vec<i32> = m.1.iter().copied().collect();
            v.sort();
            v
        };
        let g = *gauges.lock().unwrap();
        drop(ldap);
        let _ = tokio::time::timeout(Duration::from_secs(5), drv).await;
        srv.abort();
        Ok((in_use, g, rcs))
    });
    let (in_use, g, _rcs) = res?;
    ensure!(in_use.is_empty(), "c13:id-leak:starttls", "a connection established through StartTLS (then {} operations) still has message ids {:?} reserved although nothing is outstanding", c.ops_after, in_use);
    ensure!(g == (0, 0), "c13:routing-leak:starttls", "a connection established through StartTLS holds {:?} routing entries although nothing is outstanding", g);
    obs.label("starttls-connection");
    obs.nontrivial(c.ops_after);
    Ok(())
}

fn tls_run(ctx: &Ctx, known: &[crate::runner::KnownFinding]) -> crate::runner::LaneReport {
    let mut rep = crate::runner::LaneReport::new("starttls");
    rep.exhaustive = false;
    if ctx.worker != 0 {
        return rep;
    }
    for ops_after in 0..ctx.tier.pick(3u8, 12u8) {
        let c = TlsCase { ops_after };
        crate::runner::eval_case(&mut rep, known, &c, |obs| tls_check(&c, obs));
        if rep.failure.is_some() {
            break;
        }
    }
    rep
}

fn tls_replay(v: serde_json::Value) -> Result<(), Fail> {
    let c: TlsCase = serde_json::from_value(v).map_err(|e| Fail::new("replay-format", e.to_string()))?;
    tls_check(&c, &mut Obs::default())
}

pub fn property() -> Property {
    Property {
        id: "C13",
        level: "exploration",
        rule: "generated histories of 3-14 steps, repeated 1-3 times on one connection (up to 42 steps), mixing: the 7 single-result operations (success and error codes), operations and searches that time out against a silent server (with or without a late reply), replies/entries written at exactly the instant the timeout fires (tie: either outcome is accepted, the driver sees reply and scrub request in the same turn under the seeded select! order), operations and search starts that time out while their request is still queued behind a full socket send buffer (the server answers them later or never), direct / EntriesOnly / search() / PagedResults / [EntriesOnly, PagedResults] searches with 0-4 entries (x 1-3 pages) read to the end or finish()ed after k items - also while the search is still OPEN at the driver (the server withholds the final result of the page / search and sends it late), abandon of a finished, timed-out, in-flight or never-issued id, unsolicited responses, and rewinds of the id counter (as after a wrap-around) so that later operations are handed the ids of past ones and must work normally. Oracle at every quiescent point (virtual-clock quiescence: no task can run): the id table's in-use set is empty and both routing-map gauges are 0; abandon puts an AbandonRequest naming exactly the id on the wire, releases a waiting caller with an error, and the id leaves the in-use set. Lane starttls: real loopback connections established through StartTLS (the one operation run in the driver's single-operation mode), then 0-11 operations: no id and no routing entry may remain. Non-trivial: >=3 steps including >=1 search, abandon or timeout. Distinct = debug rendering of the step list.",
        assumptions: &["hooks verif_msgmap / verif_gauges expose the id table and the sizes of the routing maps", "streams dropped without finish() are not 'completed' and are not generated", "server disconnects are C04's"],
        lanes: vec![
            Box::new(PLane { name: "histories", cases: |t| t.pick(1_000, 15_000), strat, check }),
            Box::new(crate::runner::FnLane { name: "starttls", run: tls_run, replay: tls_replay }),
        ],
        workers: (8, 16),
    }
}
