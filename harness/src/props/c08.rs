//! C08 — filter strings compile to the RFC 4511 filter they denote.

use crate::ber;
use crate::conv::from_lib;
use crate::filter::{self, Filter};
use crate::gens;
use crate::runner::{guard, panic_sig, pick_idx, Ctx, Fail, Obs, PLane, Property};
use crate::{ensure, fail};
use lber::structures::ASNTag;
use proptest::collection::vec;
use proptest::prelude::*;
use serde::{Deserialize, Serialize};

pub fn show(s: &[u8]) -> String {
    let mut o = String::new();
    for &b in s {
        if (0x20..0x7f).contains(&b) && b != b'"' {
            o.push(b as char);
        } else {
            o.push_str(&format!("<{:02x}>", b));
        }
    }
    o
}

/// Compile with the library and decode the BER with the harness decoder.
/// Ok(None) = library rejected; Err = violation of clause 4 (panic) or undecodable output.
pub fn lib_compile(s: &[u8]) -> Result<Option<Filter>, Fail> {
    let r = guard(|| ldap3::parse_filter(s).map(|t| t.into_structure()));
    match r {
        Err(p) => Err(Fail::new(panic_sig(&p), format!("parse_filter panicked on {:?}: {}", show(s), p))),
        Ok(Err(())) => Ok(None),
        Ok(Ok(st)) => {
            let tlv = from_lib(&st).ok_or_else(|| Fail::new("c08:bad-ber", "filter BER uses a tag number > 30"))?;
            // encode with the library's writer and read back with the harness reader, so the
            // bytes that would travel are what is judged
            let bytes = crate::conv::lib_encode(st);
            let back = ber::parse_all(&bytes).map_err(|e| Fail::new("c08:bad-ber", format!("encoded filter unreadable: {}", e)))?;
            if back != tlv {
                return Err(Fail::new("c08:bad-ber", "encoded filter differs from its structure"));
            }
            match filter::decode_filter(&back) {
                Ok(f) => Ok(Some(f)),
                Err(e) => Err(Fail::new("c08:not-rfc4511", format!("library accepted {:?} but emitted BER that is not an RFC 4511 Filter: {} ({})", show(s), e, ber::hex(&bytes)))),
            }
        }
    }
}

/// All four clauses on one string.
pub fn judge(s: &[u8], obs: &mut Obs) -> Result<Option<Filter>, Fail> {
    let got = lib_compile(s)?;
    // clause 1
    if let Some(expect) = filter::strict_parse(s) {
        obs.label("strict-accepts");
        match &got {
            None => {
                let sig = if expect_has_dn_prefixed_rule(&expect) { "c08:reject-valid-dn-prefixed-rule" } else { "c08:reject-valid" };
                fail!(sig, "RFC 4515 filter {:?} rejected (denotes {:?})", show(s), expect)
            }
            Some(f) => ensure!(f.normalized() == expect.normalized(), "c08:wrong-ast", "{:?} compiled to {:?}, denotes {:?}", show(s), f, expect),
        }
    }
    // clause 2
    if let Some(class) = filter::malformed_class(s) {
        obs.label(format!("malformed:{}", class));
        ensure!(got.is_none(), format!("c08:accept-malformed-{}", class), "malformed ({}) string {:?} accepted as {:?}", class, show(s), got);
    }
    // clause 3
    if let Some(f) = &got {
        obs.label("lib-accepts");
        let c = filter::canon(s).ok_or_else(|| Fail::new("c08:accept-malformed-bad-escape", format!("accepted string {:?} has a malformed escape", show(s))))?;
        let p = filter::print_filter(f);
        ensure!(c == p, "c08:means-what-it-says", "{:?} compiled to a filter that prints as {:?}; canonical input is {:?}", show(s), show(&p), show(&c));
    }
    Ok(got)
}

fn expect_has_dn_prefixed_rule(f: &Filter) -> bool {
    let mut hit = false;
    f.visit(&mut |x| {
        if let Filter::Ext { rule: Some(r), .. } = x {
            if r.len() > 2 && r[..2].eq_ignore_ascii_case(b"dn") {
                hit = true;
            }
        }
    });
    hit
}

// ------------------------------------------------------------------ generators

pub fn attr_desc() -> BoxedStrategy<Vec<u8>> {
    let base = prop_oneof![
        4 => gens::descr(),
        1 => proptest::sample::select(&["cn", "objectClass", "entryDN", "dn", "DN", "o", "x-a-", "a1-"][..]).prop_map(String::from),
        2 => gens::oid(),
    ];
    (base, vec("[A-Za-z0-9-]{1,6}", 0..3))
        .prop_map(|(b, opts)| {
            let mut s = b;
            for o in opts {
                s.push(';');
                s.push_str(&o);
            }
            s.into_bytes()
        })
        .boxed()
}

pub fn rule_name() -> BoxedStrategy<Vec<u8>> {
    prop_oneof![
        3 => gens::descr().prop_filter("rule named dn is ambiguous", |s| !s.eq_ignore_ascii_case("dn")),
        3 => proptest::sample::select(&["dnSubtreeMatch", "dnOneLevelMatch", "dnx", "dn-", "DNmatch", "dN1", "caseExactMatch", "d", "dm"][..]).prop_map(String::from),
        2 => gens::oid(),
    ]
    .prop_map(|s| s.into_bytes())
    .boxed()
}

pub fn value_bytes() -> BoxedStrategy<Vec<u8>> {
    let b = prop_oneof![
        6 => proptest::sample::select(&b"abcXYZ019 =<>~:;,.+-_#&|!/\"'"[..]),
        3 => proptest::sample::select(&b"()*\\\0"[..]),
        1 => any::<u8>(),
    ];
    prop_oneof![
        1 => Just(vec![]),
        6 => vec(b, 0..8),
        2 => gens::text(6).prop_map(|s| s.into_bytes()),
    ]
    .boxed()
}

fn nonempty_value() -> BoxedStrategy<Vec<u8>> {
    value_bytes().prop_map(|mut v| {
        if v.is_empty() {
            v.push(b'v');
        }
        v
    })
    .boxed()
}

pub fn item() -> BoxedStrategy<Filter> {
    let sub = (attr_desc(), proptest::option::of(nonempty_value()), vec(nonempty_value(), 0..4), proptest::option::of(nonempty_value())).prop_map(|(attr, initial, any, fin)| {
        if initial.is_none() && any.is_empty() && fin.is_none() {
            Filter::Present(attr)
        } else {
            Filter::Sub { attr, initial, any, fin }
        }
    });
    let ext = (proptest::option::of(attr_desc()), proptest::option::of(rule_name()), value_bytes(), any::<bool>()).prop_map(|(attr, rule, val, dn)| {
        let rule = if attr.is_none() && rule.is_none() { Some(b"2.5.13.2".to_vec()) } else { rule };
        Filter::Ext { rule, attr, val, dn }
    });
    prop_oneof![
        3 => (attr_desc(), value_bytes()).prop_map(|(a, v)| Filter::Eq(a, v)),
        1 => (attr_desc(), value_bytes()).prop_map(|(a, v)| Filter::Ge(a, v)),
        1 => (attr_desc(), value_bytes()).prop_map(|(a, v)| Filter::Le(a, v)),
        1 => (attr_desc(), value_bytes()).prop_map(|(a, v)| Filter::Approx(a, v)),
        1 => attr_desc().prop_map(Filter::Present),
        3 => sub,
        3 => ext,
    ]
    .boxed()
}

pub fn filter_ast(depth: u32, width: usize) -> BoxedStrategy<Filter> {
    item()
        .prop_recursive(depth, 48, width as u32, move |inner| {
            prop_oneof![
                2 => vec(inner.clone(), 0..=width).prop_map(Filter::And),
                2 => vec(inner.clone(), 0..=width).prop_map(Filter::Or),
                1 => inner.prop_map(|f| Filter::Not(Box::new(f))),
            ]
        })
        .boxed()
}

#[derive(Clone, Debug, Serialize, Deserialize)]
pub struct Render {
    /// per value character: 0 raw where legal, 1 lower-case hex, 2 upper-case hex, 3 mixed case
    pub esc: Vec<u8>,
    pub bare_top: bool,
}

pub fn render_opts() -> BoxedStrategy<Render> {
    (prop_oneof![2 => Just(vec![0u8]), 1 => Just(vec![1u8]), 1 => Just(vec![2u8]), 4 => vec(0u8..4, 1..10)], any::<bool>()).prop_map(|(esc, bare_top)| Render { esc, bare_top }).boxed()
}

struct R<'a> {
    o: &'a Render,
    n: usize,
    out: Vec<u8>,
}

impl<'a> R<'a> {
    fn choice(&mut self) -> u8 {
        let c = self.o.esc[self.n % self.o.esc.len()];
        self.n += 1;
        c
    }
    fn esc(&mut self, b: u8, how: u8) {
        let s = match how {
            2 => format!("\\{:02X}", b),
            3 => {
                let lo = format!("{:x}", b & 0xf);
                let hi = format!("{:X}", b >> 4);
                format!("\\{}{}", hi, lo)
            }
            _ => format!("\\{:02x}", b),
        };
        self.out.extend_from_slice(s.as_bytes());
    }
    fn value(&mut self, v: &[u8]) {
        let mut rest = v;
        while !rest.is_empty() {
            let (valid, bad): (&str, &[u8]) = match std::str::from_utf8(rest) {
                Ok(s) => (s, &[]),
                Err(e) => {
                    let (a, b) = rest.split_at(e.valid_up_to());
                    let badlen = e.error_len().unwrap_or(b.len());
                    (std::str::from_utf8(a).unwrap(), &b[..badlen])
                }
            };
            let consumed = valid.len() + bad.len();
            for ch in valid.chars() {
                let how = self.choice();
                let mut buf = [0u8; 4];
                let bytes = ch.encode_utf8(&mut buf).as_bytes().to_vec();
                let must = bytes.len() == 1 && filter::must_escape(bytes[0]);
                if must || how != 0 {
                    let how = if how == 0 { 1 } else { how };
                    for b in bytes {
                        self.esc(b, how);
                    }
                } else {
                    self.out.extend_from_slice(&bytes);
                }
            }
            for &b in bad {
                let how = self.choice().max(1);
                self.esc(b, how);
            }
            rest = &rest[consumed..];
        }
    }
    fn filter(&mut self, f: &Filter, parens: bool) {
        if parens {
            self.out.push(b'(');
        }
        match f {
            Filter::And(v) => {
                self.out.push(b'&');
                v.iter().for_each(|x| self.filter(x, true));
            }
            Filter::Or(v) => {
                self.out.push(b'|');
                v.iter().for_each(|x| self.filter(x, true));
            }
            Filter::Not(x) => {
                self.out.push(b'!');
                self.filter(x, true);
            }
            Filter::Eq(a, v) | Filter::Ge(a, v) | Filter::Le(a, v) | Filter::Approx(a, v) => {
                self.out.extend_from_slice(a);
                self.out.extend_from_slice(match f {
                    Filter::Eq(..) => b"=",
                    Filter::Ge(..) => b">=",
                    Filter::Le(..) => b"<=",
                    _ => b"~=",
                });
                self.value(v);
            }
            Filter::Present(a) => {
                self.out.extend_from_slice(a);
                self.out.extend_from_slice(b"=*");
            }
            Filter::Sub { attr, initial, any, fin } => {
                self.out.extend_from_slice(attr);
                self.out.push(b'=');
                if let Some(i) = initial {
                    self.value(i);
                }
                self.out.push(b'*');
                for a in any {
                    self.value(a);
                    self.out.push(b'*');
                }
                if let Some(x) = fin {
                    self.value(x);
                }
            }
            Filter::Ext { rule, attr, val, dn } => {
                if let Some(a) = attr {
                    self.out.extend_from_slice(a);
                }
                if *dn {
                    self.out.extend_from_slice(b":dn");
                }
                if let Some(r) = rule {
                    self.out.push(b':');
                    self.out.extend_from_slice(r);
                }
                self.out.extend_from_slice(b":=");
                self.value(val);
            }
        }
        if parens {
            self.out.push(b')');
        }
    }
}

pub fn render(f: &Filter, o: &Render) -> Vec<u8> {
    let mut r = R { o, n: 0, out: Vec::new() };
    let is_item = !matches!(f, Filter::And(_) | Filter::Or(_) | Filter::Not(_));
    r.filter(f, !(o.bare_top && is_item));
    r.out
}

/// A valid filter string (used by other properties: C02, C16, C19, C20).
pub fn valid_filter_string(depth: u32, width: usize) -> BoxedStrategy<(Filter, Vec<u8>)> {
    (filter_ast(depth, width), render_opts())
        .prop_map(|(f, o)| {
            let s = render(&f, &o);
            (f, s)
        })
        .boxed()
}

fn nontrivial_ast(f: &Filter) -> bool {
    let mut nt = f.depth() >= 2;
    f.visit(&mut |x| match x {
        Filter::Sub { initial, any, fin, .. } => {
            if initial.is_some() as usize + any.len() + fin.is_some() as usize >= 2 {
                nt = true;
            }
        }
        Filter::Ext { rule, attr, dn, .. } => {
            if rule.is_some() as usize + attr.is_some() as usize + *dn as usize >= 2 {
                nt = true;
            }
        }
        _ => {}
    });
    nt
}

// ------------------------------------------------------------------ lane: ast

#[derive(Clone, Debug, Serialize, Deserialize)]
pub struct AstCase {
    f: Filter,
    r: Render,
}

fn ast_strat(_: &Ctx) -> BoxedStrategy<AstCase> {
    (filter_ast(5, 4), render_opts()).prop_map(|(f, r)| AstCase { f, r }).boxed()
}

fn check_ast(c: &AstCase, obs: &mut Obs) -> Result<(), Fail> {
    let s = render(&c.f, &c.r);
    // trusted-base self-check: the strict recogniser must read back the generated AST
    match filter::strict_parse(&s) {
        Some(f) if f == c.f => {}
        other => fail!("harness-selfcheck-c08", "strict recogniser reads {:?} as {:?}, generated {:?}", show(&s), other, c.f),
    }
    judge(&s, obs)?;
    let escapes = s.iter().filter(|&&b| b == b'\\').count();
    if escapes > 0 {
        obs.label("has-escape");
    }
    if expect_has_dn_prefixed_rule(&c.f) {
        obs.label("dn-prefixed-rule");
    }
    if c.r.bare_top && s.first() != Some(&b'(') {
        obs.label("bare-item");
    }
    if nontrivial_ast(&c.f) || escapes > 0 {
        obs.nontrivial(&s);
    }
    Ok(())
}

// ------------------------------------------------------------------ lane: malformed

#[derive(Clone, Debug, Serialize, Deserialize)]
pub struct MalCase {
    base: AstCase,
    kind: u8,
    pos: u16,
    junk: Vec<u8>,
}

fn mal_strat(_: &Ctx) -> BoxedStrategy<MalCase> {
    (ast_strat(&Ctx { tier: crate::runner::Tier::Quick, seed: 0, worker: 0, workers: 1 }), 0u8..12, any::<u16>(), vec(proptest::sample::select(&b"ab1=()*\\ "[..]), 1..4))
        .prop_map(|(base, kind, pos, junk)| MalCase { base, kind, pos, junk })
        .boxed()
}

pub fn mutate(c: &MalCase) -> Vec<u8> {
    let mut s = render(&c.base.f, &c.base.r);
    // positions inside values are found textually: any index after an '=' and before the next ')' / '*'
    let value_positions: Vec<usize> = {
        let mut v = Vec::new();
        let mut inval = false;
        for (i, &b) in s.iter().enumerate() {
            match b {
                b'=' if !inval => {
                    inval = true;
                    v.push(i + 1);
                }
                b')' | b'(' => inval = false,
                _ if inval => v.push(i + 1),
                _ => {}
            }
        }
        v.retain(|&i| i <= s.len() && !(i >= 1 && s[i - 1] == b'\\') && !(i >= 2 && s[i - 2] == b'\\'));
        v
    };
    let vp = |pos: u16| -> usize {
        if value_positions.is_empty() {
            s.len()
        } else {
            value_positions[pick_idx(pos, value_positions.len())]
        }
    };
    match c.kind {
        0 => {
            // delete the final ')'
            if s.last() == Some(&b')') {
                s.pop();
            } else {
                s.insert(0, b'(');
            }
        }
        1 => s.insert(0, b'('),
        2 => s.push(b')'),
        3 => {
            if s.first() != Some(&b'(') {
                s.insert(0, b'(');
                s.push(b')');
            }
            s.extend_from_slice(&c.junk);
        }
        4 => {
            // a backslash followed by two characters that are not both hex digits (sign characters, 'x', spaces, ...)
            const BAD: [&[u8]; 16] = [b"\\zq", b"\\+5", b"\\5+", b"\\-1", b"\\0x", b"\\x0", b"\\ 5", b"\\5 ", b"\\g0", b"\\0g", b"\\+a", b"\\a+", b"\\.5", b"\\5.", b"\\_f", b"\\f_"];
            let i = vp(c.pos);
            let bad = BAD[c.junk.first().copied().unwrap_or(0) as usize % BAD.len()];
            s.splice(i..i, bad.iter().copied());
        }
        5 => {
            // backslash + one hex digit right before a closing parenthesis / end
            if s.last() == Some(&b')') {
                let n = s.len() - 1;
                s.splice(n..n, b"\\4".iter().copied());
            } else {
                s.extend_from_slice(b"\\4");
            }
        }
        6 => {
            let i = vp(c.pos);
            s.insert(i, 0);
        }
        7 => {
            let i = vp(c.pos);
            s.insert(i, b'(');
        }
        8 => {
            // empty attribute description
            s = b"(=".to_vec();
            s.extend_from_slice(&c.junk.iter().copied().filter(|b| b.is_ascii_alphanumeric()).collect::<Vec<u8>>());
            s.push(b')');
        }
        9 => {
            let i = vp(c.pos);
            s.splice(i..i, b"**".iter().copied());
        }
        10 => {
            // lone backslash at the very end of a bare item
            s = b"cn=ab\\".to_vec();
        }
        _ => {
            // unbalanced: drop one '(' somewhere
            if let Some(i) = s.iter().position(|&b| b == b'(') {
                s.remove(i);
                if !s.contains(&b')') {
                    s.push(b')');
                }
            } else {
                s.push(b')');
            }
        }
    }
    s
}

fn check_mal(c: &MalCase, obs: &mut Obs) -> Result<(), Fail> {
    let s = mutate(c);
    let class = filter::malformed_class(&s);
    judge(&s, obs)?;
    match class {
        Some(cl) => obs.nontrivial((cl, &s)),
        None => obs.label("mutation-not-classified"),
    }
    Ok(())
}

// ------------------------------------------------------------------ lane: strings / bytes

#[derive(Clone, Debug, Serialize, Deserialize)]
pub struct StrCase {
    hex: String,
}

const TOKENS: &[&[u8]] = &[
    b"(", b")", b"(", b")", b"&", b"|", b"!", b"=", b">=", b"<=", b"~=", b"*", b"\\", b":", b":dn", b":=", b";", b".", b"-", b"a", b"cn", b"1", b"0", b"2.5", b"\\2a", b"\\5C", b"\\28", b" ", b"\xc3\xa9",
    b"\0", b"\xff", b"dn", b"x", b"=*", b"(&", b"(|", b"(!", b"))",
];

const SLOT_A: &[&[u8]] = &[b"a", b"cn", b"1.2", b"2", b"cn;x", b"", b"0.1", b"01.2", b"a;", b"a-b", b"-a", b"1.", b"dn"];
const SLOT_O: &[&[u8]] = &[b"=", b">=", b"<=", b"~=", b":=", b":dn:=", b":r:=", b":dn:r:=", b"=*", b":DN:=", b"::=", b":dnr:=", b":1.2:=", b":dn:1.2:=", b">", b"=="];
const SLOT_V: &[&[u8]] = &[b"", b"a", b"*", b"a*", b"*a", b"a*b", b"**", b"\\2a", b"\\2", b"\\zz", b"(", b")", b"\xc3\xa9", b"\0", b"a*b*c", b"*a*", b" ", b"\\5C\\5c", b"\xff"];
const SKEL: &[&str] = &["(AOV)", "AOV", "(&(AOV)(AOV))", "(|(AOV))", "(!(AOV))", "(!AOV)", "(&(AOV)AOV)", "((AOV))", "(AOV)(AOV)", "(&)", "(|)", "(!)", "(&(AOV)", "(AOV))", "(OV)", "(AO)", "(AV)"];

fn str_strat(_: &Ctx) -> BoxedStrategy<StrCase> {
    let soup = vec(proptest::sample::select(TOKENS), 0..12).prop_map(|toks| {
        let mut s = Vec::new();
        for t in toks {
            if s.len() + t.len() <= 24 {
                s.extend_from_slice(t);
            }
        }
        s
    });
    let slots = (proptest::sample::select(SKEL), vec((proptest::sample::select(SLOT_A), proptest::sample::select(SLOT_O), proptest::sample::select(SLOT_V)), 3)).prop_map(|(sk, fills)| {
        let mut s = Vec::new();
        let mut k = 0;
        let mut cur = fills[0];
        for c in sk.bytes() {
            match c {
                b'A' => {
                    cur = fills[k.min(2)];
                    k += 1;
                    s.extend_from_slice(cur.0)
                }
                b'O' => s.extend_from_slice(cur.1),
                b'V' => s.extend_from_slice(cur.2),
                other => s.push(other),
            }
        }
        s
    });
    prop_oneof![1 => soup, 2 => slots].prop_map(|s| StrCase { hex: ber::hex(&s) }).boxed()
}

const SHORT_ALPHABET: &[u8] = b"()&|!=*\\:a2<";

fn short_run(ctx: &Ctx, known: &[crate::runner::KnownFinding]) -> crate::runner::LaneReport {
    let mut rep = crate::runner::LaneReport::new("short-exhaustive");
    rep.exhaustive = true;
    let maxlen = ctx.tier.pick(4usize, 6usize);
    let n = SHORT_ALPHABET.len() as u64;
    let mut idx = 0u64;
    for len in 0..=maxlen {
        let total = n.pow(len as u32);
        for code in 0..total {
            if idx % ctx.workers as u64 == ctx.worker as u64 {
                let mut s = Vec::with_capacity(len);
                let mut c = code;
                for _ in 0..len {
                    s.push(SHORT_ALPHABET[(c % n) as usize]);
                    c /= n;
                }
                let case = StrCase { hex: ber::hex(&s) };
                crate::runner::eval_case(&mut rep, known, &case, |obs| check_str(&case, obs));
            }
            idx += 1;
        }
    }
    rep
}

fn short_replay(v: serde_json::Value) -> Result<(), Fail> {
    let c: StrCase = serde_json::from_value(v).map_err(|e| Fail::new("replay-format", e.to_string()))?;
    check_str(&c, &mut Obs::default())
}

fn bytes_strat(_: &Ctx) -> BoxedStrategy<StrCase> {
    prop_oneof![
        3 => vec(any::<u8>(), 0..40),
        2 => vec(proptest::sample::select(&b"()&|!=<>~*\\:;.-a1 \0"[..]), 0..16),
        2 => (valid_filter_string(3, 3), vec((any::<u16>(), any::<u8>()), 1..3)).prop_map(|((_, mut s), muts)| {
            for (p, b) in muts {
                if !s.is_empty() {
                    let i = pick_idx(p, s.len());
                    s[i] = b;
                }
            }
            s
        }),
    ]
    .prop_map(|s| StrCase { hex: ber::hex(&s) })
    .boxed()
}

pub fn check_str(c: &StrCase, obs: &mut Obs) -> Result<(), Fail> {
    let s = ber::unhex(&c.hex);
    let got = judge(&s, obs)?;
    if got.is_some() || filter::strict_parse(&s).is_some() {
        obs.nontrivial(&s);
    }
    Ok(())
}

// ------------------------------------------------------------------ coverage-guided lane (libFuzzer)

fn fuzz_spec() -> crate::fuzzlane::FuzzSpec {
    crate::fuzzlane::FuzzSpec { target: "filter", oracle: |d, o| judge(d, o).map(|_| ()), seeds: crate::fuzzlane::seeds_filter, max_len: 96, runs_per_worker: 3000000 }
}

fn fuzz_run(ctx: &Ctx, known: &[crate::runner::KnownFinding]) -> crate::runner::LaneReport {
    crate::fuzzlane::run(&fuzz_spec(), ctx, known)
}

fn fuzz_replay(v: serde_json::Value) -> Result<(), Fail> {
    crate::fuzzlane::replay(&fuzz_spec(), v)
}

pub fn property() -> Property {
    Property {
        id: "C08",
        level: "exploration",
        rule: "lanes: ast (generated filter syntax trees depth<=5 width<=4, attribute descriptions descr/numericoid+options, matching rules incl. names starting with 'dn', arbitrary value bytes, rendered with generated escaping choices/hex case/bare top item -> all four clauses); malformed (a valid string with one provably-illegal mutation: unbalanced paren, trailing text, bad escape, raw NUL or '(' in value, empty attribute, '**' -> must be Err); strings (token soup <=24 bytes and skeleton/slot strings over the filter alphabet); short-exhaustive (EVERY string of length <=4, thorough <=6, over the 12-symbol alphabet ()&|!=*\\:a2<) and bytes (random / mutated bytes) -> clauses: strict-accept => same AST, malformed-class => Err, accepted => canon(s)==print(decode(encode)), never panic. Non-trivial: AST of depth>=2 or substrings with >=2 parts or extensible with >=2 components or a value needing an escape; every classified malformed string; any string the library or the strict recogniser accepts. Distinct = hash of the string.",
        assumptions: &[
            "harness filter model (src/filter.rs): strict RFC 4515 recogniser, RFC 4511 Filter decoder, canonical printer; self-checked on every generated AST and on the RFC 4515 examples",
            "nesting is bounded (depth <= 5 generated, <= 200 recognised); stack exhaustion on extreme nesting is outside the stated quantifier",
            "':DN' in other letter cases is treated as ambiguous (ABNF literal vs. descr) and yields no clause-1 verdict",
        ],
        lanes: vec![
            Box::new(PLane { name: "ast", cases: |t| t.pick(6_000, 100_000), strat: ast_strat, check: check_ast }),
            Box::new(PLane { name: "malformed", cases: |t| t.pick(3_000, 40_000), strat: mal_strat, check: check_mal }),
            Box::new(PLane { name: "strings", cases: |t| t.pick(10_000, 300_000), strat: str_strat, check: check_str }),
            Box::new(PLane { name: "bytes", cases: |t| t.pick(5_000, 100_000), strat: bytes_strat, check: check_str }),
            Box::new(crate::runner::FnLane { name: "short-exhaustive", run: short_run, replay: short_replay }),
            Box::new(crate::runner::FnLane { name: "fuzz", run: fuzz_run, replay: fuzz_replay }),
        ],
        workers: (8, 16),
    }
}
