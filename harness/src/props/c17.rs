//! C17 — requested TLS is never silently downgraded (real loopback TCP + TLS).

use crate::ber::{self, Parsed};
use crate::model::{self, Req, Res, Resp, RespMsg};
use crate::netinfra::{self, Cert, Tap};
use crate::runner::{eval_case, Ctx, Fail, FnLane, KnownFinding, LaneReport, Obs, Property};
use crate::{ensure, fail};
use ldap3::{LdapConnAsync, LdapConnSettings};
use serde::{Deserialize, Serialize};
use serde_json::Value;
use std::sync::{Arc, Mutex};
use std::time::Duration;
use tokio::io::{AsyncReadExt, AsyncWriteExt};
use tokio::net::TcpListener;

pub const STARTTLS_OID: &str = "1.3.6.1.4.1.1466.20037";

#[derive(Clone, Copy, Debug, PartialEq, Eq, Hash, Serialize, Deserialize)]
pub enum Scheme {
    StartTls,
    Ldaps,
}

#[derive(Clone, Copy, Debug, PartialEq, Eq, Hash, Serialize, Deserialize)]
pub enum Verify {
    Default,
    Disabled,
    TestCa,
}

#[derive(Clone, Copy, Debug, PartialEq, Eq, Hash, Serialize, Deserialize)]
pub enum Reply {
    Success,
    Code,
    Garbage,
    Close,
    NonExtended,
    /// a success response that is NOT the answer to the StartTLS request (foreign message id: 0, id+1
    /// or id+7), followed in the same segment by the real answer: a refusal
    ForeignSuccessThenCode,
    /// an answer under the right message id whose LDAPResult is ill-formed (no elements, INTEGER for the code, primitive
    /// instead of constructed, elements in the wrong order); the server then stands ready for a handshake
    MalformedResult,
}

#[derive(Clone, Copy, Debug, PartialEq, Eq, Hash, Serialize, Deserialize)]
pub enum Post {
    Proper,
    HandshakeGarbage,
    /// cleartext LDAP PDUs in the same segment as the StartTLS response, then a proper handshake
    InjectThenProper,
}

#[derive(Clone, Debug, Serialize, Deserialize)]
pub struct Case {
    pub scheme: Scheme,
    pub verify: Verify,
    pub cert: Cert,
    pub reply: Reply,
    pub post: Post,
    // generated parameters
    pub rc: u32,
    pub garbage: Vec<u8>,
    pub inject_kind: u8,
    pub host: String,
    pub split_writes: bool,
    /// how the settings object is put together: 0 = new() + timeout, starttls, verification (in that order);
    /// 1 = default() as the base; 2 = verification/connector first, StartTLS and timeout afterwards;
    /// 3 = a clone() of the finished settings is used; 4 = through the blocking LdapConn API
    #[serde(default)]
    pub build: u8,
    /// what follows host:port in the URL: 0 nothing, 1 "/", 2 a base DN and a known URL extension (bindname), 3 base,
    /// attributes, scope and filter
    #[serde(default)]
    pub url_tail: u8,
}

#[derive(Debug, Default)]
struct ServerLog {
    raw_read: Vec<u8>,
    starttls_seen: bool,
    handshake_done: bool,
    handshake_error: Option<String>,
    inside_tls_requests: Vec<String>,
    problems: Vec<String>,
}

async fn read_ldap_message<S: tokio::io::AsyncRead + Unpin>(s: &mut S, buf: &mut Vec<u8>) -> Option<ber::Tlv> {
    loop {
        match ber::parse(buf) {
            Parsed::Complete(t, used) => {
                buf.drain(..used);
                return Some(t);
            }
            Parsed::Invalid(_) => return None,
            Parsed::Incomplete => {}
        }
        let mut tmp = [0u8; 4096];
        match tokio::time::timeout(Duration::from_secs(5), s.read(&mut tmp)).await {
            Ok(Ok(0)) | Ok(Err(_)) | Err(_) => return None,
            Ok(Ok(n)) => buf.extend_from_slice(&tmp[..n]),
        }
    }
}

async fn serve(listener: TcpListener, c: Case, log: Arc<Mutex<ServerLog>>) {
    let Ok(Ok((sock, _))) = tokio::time::timeout(Duration::from_secs(10), listener.accept()).await else {
        log.lock().unwrap().problems.push("no connection".into());
        return;
    };
    let _ = sock.set_nodelay(true);
    let (mut sock, rlog, _w) = Tap::new(sock);
    let finish = |log: &Arc<Mutex<ServerLog>>, rlog: &Arc<Mutex<Vec<u8>>>| {
        log.lock().unwrap().raw_read = rlog.lock().unwrap().clone();
    };
    let mut proceed = true;
    let mut post = c.post;
    if c.scheme == Scheme::StartTls {
        let mut buf = Vec::new();
        let Some(t) = read_ldap_message(&mut sock, &mut buf).await else {
            log.lock().unwrap().problems.push("no StartTLS request received in cleartext".into());
            finish(&log, &rlog);
            return;
        };
        let id = match model::decode_request(&t) {
            Ok(m) => match &m.req {
                Req::Extended { name, val: None } if name == STARTTLS_OID.as_bytes() => {
                    log.lock().unwrap().starttls_seen = true;
                    m.id
                }
                other => {
                    log.lock().unwrap().problems.push(format!("first cleartext message is not StartTLS: {:?}", other.kind()));
                    m.id
                }
            },
            Err(e) => {
                log.lock().unwrap().problems.push(format!("undecodable first message: {}", e));
                1
            }
        };
        let mut out = Vec::new();
        match c.reply {
            Reply::Success => out.extend_from_slice(&RespMsg::new(id, Resp::Result { app: 24, res: Res::ok(""), sasl: None, exop_name: Some(STARTTLS_OID.into()), exop_val: None }).encode()),
            Reply::Code => {
                out.extend_from_slice(&RespMsg::new(id, Resp::Result { app: 24, res: Res::code(c.rc.max(1), "no TLS for you"), sasl: None, exop_name: Some(STARTTLS_OID.into()), exop_val: None }).encode());
            }
            Reply::ForeignSuccessThenCode => {
                let fid = match c.inject_kind % 3 {
                    0 => 0,
                    1 => id + 1,
                    _ => id + 7,
                };
                out.extend_from_slice(&RespMsg::new(fid, Resp::Result { app: 24, res: Res::ok(""), sasl: None, exop_name: Some(STARTTLS_OID.into()), exop_val: None }).encode());
                out.extend_from_slice(&RespMsg::new(id, Resp::Result { app: 24, res: Res::code(c.rc.max(1), "no TLS for you"), sasl: None, exop_name: Some(STARTTLS_OID.into()), exop_val: None }).encode());
            }
            Reply::MalformedResult => {
                let op: &[u8] = match c.inject_kind % 4 {
                    0 => &[0x78, 0x00],
                    1 => &[0x78, 0x07, 0x02, 0x01, 0x00, 0x04, 0x00, 0x04, 0x00],
                    2 => &[0x58, 0x00],
                    _ => &[0x78, 0x07, 0x04, 0x00, 0x0a, 0x01, 0x00, 0x04, 0x00],
                };
                let idb = ber::encode(&ber::Tlv::int(id));
                out.push(0x30);
                out.push((idb.len() + op.len()) as u8);
                out.extend_from_slice(&idb);
                out.extend_from_slice(op);
            }
            Reply::NonExtended => out.extend_from_slice(&RespMsg::new(id, Resp::result(1, Res::ok(""))).encode()),
            Reply::Garbage => {
                out.extend_from_slice(&c.garbage);
                proceed = false;
            }
            Reply::Close => proceed = false,
        }
        if post == Post::InjectThenProper && proceed {
            // forged responses for the ids the client will use next
            for nid in [id + 1, id + 2] {
                let forged = match c.inject_kind % 3 {
                    0 => Resp::result(1, Res::ok("injected-cleartext")),
                    1 => Resp::result(1, Res::code(49, "injected-cleartext")),
                    _ => Resp::Result { app: 24, res: Res::ok("injected-cleartext"), sasl: None, exop_name: None, exop_val: None },
                };
                out.extend_from_slice(&RespMsg::new(nid, forged).encode());
            }
            post = Post::Proper;
        }
        if c.split_writes && out.len() > 3 && c.post != Post::InjectThenProper {
            let _ = sock.write_all(&out[..3]).await;
            let _ = sock.flush().await;
            tokio::time::sleep(Duration::from_millis(2)).await;
            let _ = sock.write_all(&out[3..]).await;
        } else {
            let _ = sock.write_all(&out).await;
        }
        let _ = sock.flush().await;
        // A server that refuses StartTLS (non-zero code) nevertheless stands ready to do a TLS
        // handshake if the client (wrongly) starts one: a client that ignores the result code must
        // not end up with a handle. A correct client just closes, which ends the accept at once.
    }
    if !proceed {
        if c.reply == Reply::Garbage {
            let mut tmp = [0u8; 2048];
            let _ = tokio::time::timeout(Duration::from_millis(200), sock.read(&mut tmp)).await;
        }
        finish(&log, &rlog);
        return;
    }
    if post == Post::HandshakeGarbage {
        let _ = sock.write_all(if c.garbage.is_empty() { b"not a tls record\r\n" } else { &c.garbage }).await;
        let _ = sock.flush().await;
        let mut tmp = [0u8; 2048];
        let _ = tokio::time::timeout(Duration::from_millis(200), sock.read(&mut tmp)).await;
        finish(&log, &rlog);
        return;
    }
    let acc = match netinfra::acceptor(c.cert) {
        Ok(a) => a,
        Err(e) => {
            log.lock().unwrap().problems.push(e);
            finish(&log, &rlog);
            return;
        }
    };
    let hs_guard = if c.scheme == Scheme::StartTls && matches!(c.reply, Reply::Code | Reply::ForeignSuccessThenCode | Reply::MalformedResult) { Duration::from_millis(1500) } else { Duration::from_secs(10) };
    match tokio::time::timeout(hs_guard, acc.accept(sock)).await {
        Ok(Ok(mut tls)) => {
            log.lock().unwrap().handshake_done = true;
            let mut buf = Vec::new();
            while let Some(t) = read_ldap_message(&mut tls, &mut buf).await {
                match model::decode_request(&t) {
                    Ok(m) => {
                        log.lock().unwrap().inside_tls_requests.push(m.req.kind().to_string());
                        if let Some(tag) = m.req.response_tag() {
                            let _ = tls.write_all(&RespMsg::new(m.id, Resp::result(tag, Res::ok("inside-tls"))).encode()).await;
                            let _ = tls.flush().await;
                        } else if matches!(m.req, Req::Unbind) {
                            break;
                        }
                    }
                    Err(e) => log.lock().unwrap().problems.push(format!("undecodable message inside TLS: {}", e)),
                }
            }
        }
        Ok(Err(e)) => log.lock().unwrap().handshake_error = Some(e.to_string()),
        Err(_) => log.lock().unwrap().handshake_error = Some("handshake timed out".into()),
    }
    finish(&log, &rlog);
}

#[derive(Debug)]
struct ClientOut {
    connected: Result<(), String>,
    bind: Option<Result<(u32, String), String>>,
}

fn run_case(c: &Case) -> Result<(ClientOut, ServerLog), Fail> {
    let rt = tokio::runtime::Builder::new_current_thread().enable_all().build().map_err(|e| Fail::new("env-runtime", e.to_string()))?;
    let c = c.clone();
    rt.block_on(async move {
        let listener = TcpListener::bind(if c.host == "[::1]" { "[::1]:0" } else { "127.0.0.1:0" }).await.map_err(|e| Fail::new("env-bind", e.to_string()))?;
        let port = listener.local_addr().map_err(|e| Fail::new("env-bind", e.to_string()))?.port();
        let log = Arc::new(Mutex::new(ServerLog::default()));
        let srv = tokio::spawn(serve(listener, c.clone(), log.clone()));
        let verify = |s: LdapConnSettings| -> Result<LdapConnSettings, Fail> {
            Ok(match c.verify {
                Verify::Default => s,
                Verify::Disabled => s.set_no_tls_verify(true),
                Verify::TestCa => s.set_connector(netinfra::ca_connector().map_err(|e| Fail::new("env-tls", e))?),
            })
        };
        let base = if c.build == 1 { LdapConnSettings::default() } else { LdapConnSettings::new() };
        let mut settings = if c.build == 2 {
            let mut s = verify(base)?;
            if c.scheme == Scheme::StartTls {
                s = s.set_starttls(true);
            }
            s.set_conn_timeout(Duration::from_secs(6))
        } else {
            let mut s = base.set_conn_timeout(Duration::from_secs(6));
            if c.scheme == Scheme::StartTls {
                s = s.set_starttls(true);
            }
            verify(s)?
        };
        if c.build == 3 {
            settings = settings.clone();
        }
        let tail = ["", "/", "/dc=example,dc=org????bindname=cn%3Dadmin%2Cdc%3Dexample", "/dc=example,dc=org?cn?sub?(cn=a)"][c.url_tail as usize % 4];
        let url = format!("{}://{}:{}{}", if c.scheme == Scheme::Ldaps { "ldaps" } else { "ldap" }, c.host, port, tail);
        let mut out = ClientOut { connected: Ok(()), bind: None };
        if c.build == 4 {
            // the blocking API: establishment and the probe bind on a thread of their own
            let u2 = url.clone();
            let jh = tokio::task::spawn_blocking(move || -> (Result<(), String>, Option<Result<(u32, String), String>>) {
                match ldap3::LdapConn::with_settings(settings, &u2) {
                    Err(e) => (Err(crate::sim::err_kind(&e)), None),
                    Ok(mut conn) => {
                        let b = match conn.with_timeout(Duration::from_secs(10)).simple_bind("cn=probe", "secret-password") {
                            Ok(res) => Ok((res.rc, res.text)),
                            Err(e) => Err(crate::sim::err_kind(&e)),
                        };
                        let _ = conn.with_timeout(Duration::from_secs(2)).unbind();
                        (Ok(()), Some(b))
                    }
                }
            });
            match tokio::time::timeout(Duration::from_secs(25), jh).await {
                Err(_) => return Err(Fail::new("env-timeout", "blocking connection establishment exceeded the 25 s guard")),
                Ok(Err(_)) => {
                    let p = crate::runner::take_panics().into_iter().last().unwrap_or_default();
                    if c.reply != Reply::MalformedResult {
                        return Err(Fail::new(crate::runner::panic_sig(&p), "LdapConn::with_settings panicked"));
                    }
                    out.connected = Err("panic".into());
                }
                Ok(Ok((connected, bind))) => {
                    out.connected = connected;
                    out.bind = bind;
                }
            }
            let _ = tokio::time::timeout(Duration::from_secs(12), srv).await;
            let l = std::mem::take(&mut *log.lock().unwrap());
            return Ok((out, l));
        }
        use futures_util::FutureExt;
        let established = tokio::time::timeout(Duration::from_secs(20), std::panic::AssertUnwindSafe(LdapConnAsync::with_settings(settings, &url)).catch_unwind()).await;
        let established = match established {
            Err(t) => Err(t),
            Ok(Ok(r)) => Ok(r),
            Ok(Err(_)) => {
                // a panic in the CALLER's task while it converts an ill-formed result: not a handle, hence "failed"
                // for this property (and outside C11, which protects the driver); anywhere else it is reported
                let p = crate::runner::take_panics().into_iter().last().unwrap_or_default();
                if c.reply != Reply::MalformedResult {
                    return Err(Fail::new(crate::runner::panic_sig(&p), format!("connection establishment panicked: {}", p)));
                }
                Ok(Err(ldap3::LdapError::AdapterInit("panic".into())))
            }
        };
        match established {
            Err(_) => return Err(Fail::new("env-timeout", "connection establishment exceeded the 20 s guard")),
            Ok(Err(e)) => out.connected = Err(crate::sim::err_kind(&e)),
            Ok(Ok((conn, mut ldap))) => {
                let drv = tokio::spawn(async move {
                    let _ = conn.drive().await;
                });
                let r = tokio::time::timeout(Duration::from_secs(10), ldap.simple_bind("cn=probe", "secret-password")).await;
                out.bind = Some(match r {
                    Err(_) => Err("bind timed out".into()),
                    Ok(Ok(res)) => Ok((res.rc, res.text)),
                    Ok(Err(e)) => Err(crate::sim::err_kind(&e)),
                });
                let _ = tokio::time::timeout(Duration::from_secs(2), ldap.unbind()).await;
                drop(ldap);
                let _ = tokio::time::timeout(Duration::from_secs(2), drv).await;
            }
        }
        let _ = tokio::time::timeout(Duration::from_secs(12), srv).await;
        let l = std::mem::take(&mut *log.lock().unwrap());
        Ok((out, l))
    })
}

pub fn check(c: &Case, obs: &mut Obs) -> Result<(), Fail> {
    let (out, log) = run_case(c)?;
    ensure!(log.problems.is_empty() || out.connected.is_err(), "c17:server-problem", "{:?} (case {:?})", log.problems, c);
    // (I1) nothing but the StartTLS request / TLS records ever travels in cleartext
    let (msgs, tls_ok, _) = netinfra::analyse_cleartext(&log.raw_read);
    let mut cleartext_kinds = Vec::new();
    for m in &msgs {
        cleartext_kinds.push(model::decode_request(m).map(|r| r.req.kind().to_string()).unwrap_or_else(|_| "undecodable".into()));
    }
    match c.scheme {
        Scheme::StartTls => {
            let extra: Vec<&String> = cleartext_kinds.iter().skip(1).collect();
            ensure!(extra.is_empty(), "c17:cleartext-ldap-after-starttls", "LDAP messages sent in cleartext besides the StartTLS request: {:?} (case {:?})", extra, c);
            if let Some(first) = cleartext_kinds.first() {
                ensure!(first == "extended" && log.starttls_seen, "c17:first-message-not-starttls", "the first cleartext message is {:?}, not the StartTLS request", first);
            }
        }
        Scheme::Ldaps => {
            ensure!(cleartext_kinds.is_empty(), "c17:cleartext-ldap-on-ldaps", "LDAP messages sent in cleartext on an ldaps connection: {:?}", cleartext_kinds);
        }
    }
    ensure!(tls_ok, "c17:cleartext-after-tls-start", "bytes that are neither the StartTLS request nor TLS records were sent by the client: {}", ber::hex(&log.raw_read[..log.raw_read.len().min(80)]));
    // (I2) Ok iff TLS was really established under the effective trust settings
    // is the certificate valid for the name the URL gives?
    let name_ok = match c.cert {
        Cert::Good => true,
        Cert::DnsOnly => c.host == "localhost",
        _ => false,
    };
    let cert_ok = c.verify == Verify::Disabled || (c.verify == Verify::TestCa && name_ok);
    let server_side_ok = match c.scheme {
        Scheme::StartTls => matches!(c.reply, Reply::Success | Reply::NonExtended) && c.post != Post::HandshakeGarbage,
        Scheme::Ldaps => c.post != Post::HandshakeGarbage,
    };
    // (a bracketed IPv6 literal is handed to the TLS library as it stands in the URL; whether that verifies
    // against an IP subjectAltName is a capability, not a safety matter: Ok is allowed there, not demanded)
    let must_ok = server_side_ok && cert_ok && c.reply != Reply::NonExtended && !(c.host == "[::1]" && c.verify != Verify::Disabled);
    let may_ok = server_side_ok && cert_ok;
    match &out.connected {
        Ok(()) => {
            ensure!(may_ok, "c17:downgrade-or-unverified", "connection establishment returned a usable handle although TLS must not have been established: case {:?}, handshake done on server: {}", c, log.handshake_done);
            ensure!(log.handshake_done, "c17:handle-without-tls", "a handle was returned but the server never completed a TLS handshake (case {:?})", c);
            // (I3) operations travel inside TLS and see what was sent inside TLS
            match &out.bind {
                Some(Ok((0, text))) if text == "inside-tls" => {}
                other => fail!("c17:injected-cleartext-interpreted", "after establishment the bind returned {:?}; the server answered inside TLS with (0, \"inside-tls\") (case {:?})", other, c),
            }
            ensure!(log.inside_tls_requests.first().map(|s| s.as_str()) == Some("bind"), "c17:bind-not-inside-tls", "the bind was not received inside the TLS session: {:?}", log.inside_tls_requests);
            ensure!(!log.raw_read.windows(15).any(|w| w == b"secret-password"), "c17:password-in-cleartext", "the bind password travelled in cleartext");
        }
        Err(e) => {
            // the scripted server always acts within milliseconds; a client-side Timeout (6 s guard)
            // means establishment sat on a connection that had already been answered or closed
            ensure!(e != "Timeout", "c17:establishment-hangs", "connection establishment did not fail but hung until the 6 s connection timeout although the server had replied with {:?} / {:?} right away (case {:?}); without a connection timeout it would hang forever", c.reply, c.post, c);
            ensure!(!must_ok, "c17:valid-tls-refused", "establishment failed with {} although StartTLS succeeded, the handshake was offered and the certificate is acceptable under the settings (case {:?}, server handshake error {:?})", e, c, log.handshake_error);
        }
    }
    obs.label(format!("{:?}/{:?}", c.scheme, c.verify));
    obs.label(if out.connected.is_ok() { "established" } else { "refused" });
    if c.post == Post::InjectThenProper {
        obs.label("cleartext-injection");
    }
    obs.nontrivial((c.scheme, c.verify, c.cert, c.reply, c.post, &c.host, c.rc, c.inject_kind));
    Ok(())
}

/// "[::1]" if the IPv6 loopback can be bound here, else the IPv4 literal
fn v6_or_v4() -> &'static str {
    static V6: std::sync::OnceLock<bool> = std::sync::OnceLock::new();
    if *V6.get_or_init(|| std::net::TcpListener::bind("[::1]:0").is_ok()) {
        "[::1]"
    } else {
        "127.0.0.1"
    }
}

pub fn cells() -> Vec<(Scheme, Verify, Cert, Reply, Post)> {
    let mut v = Vec::new();
    for verify in [Verify::Default, Verify::Disabled, Verify::TestCa] {
        for cert in [Cert::Good, Cert::WrongName, Cert::SelfSigned, Cert::Expired, Cert::DnsOnly] {
            for reply in [Reply::Success, Reply::Code, Reply::NonExtended, Reply::ForeignSuccessThenCode, Reply::MalformedResult] {
                for post in [Post::Proper, Post::HandshakeGarbage, Post::InjectThenProper] {
                    if matches!(reply, Reply::Code | Reply::ForeignSuccessThenCode | Reply::MalformedResult) && post != Post::Proper && !(reply != Reply::MalformedResult && post == Post::InjectThenProper) {
                        continue;
                    }
                    v.push((Scheme::StartTls, verify, cert, reply, post));
                }
            }
            v.push((Scheme::StartTls, verify, cert, Reply::Garbage, Post::Proper));
            v.push((Scheme::StartTls, verify, cert, Reply::Close, Post::Proper));
            v.push((Scheme::Ldaps, verify, cert, Reply::Success, Post::Proper));
            v.push((Scheme::Ldaps, verify, cert, Reply::Success, Post::HandshakeGarbage));
        }
    }
    v
}

fn lane_run(ctx: &Ctx, known: &[KnownFinding]) -> LaneReport {
    let mut rep = LaneReport::new("cells");
    rep.exhaustive = true;
    let all = cells();
    let rounds = ctx.tier.pick(1u64, 60u64);
    let mut x = ctx.seed.wrapping_mul(0x9e3779b97f4a7c15) ^ 0xabcdef;
    let mut next = move || {
        x ^= x << 13;
        x ^= x >> 7;
        x ^= x << 17;
        x
    };
    for round in 0..rounds {
        for (i, (scheme, verify, cert, reply, post)) in all.iter().enumerate() {
            let r = next();
            if i as u32 % ctx.workers != ctx.worker {
                continue;
            }
            let codes = [1u32, 2, 8, 12, 13, 48, 49, 50, 52, 53, 80, 10, 4096];
            let glen = (r >> 8) % 40 + 1;
            let garbage: Vec<u8> = (0..glen).map(|k| ((r >> (k % 56)) as u8) ^ (k as u8).wrapping_mul(31)).collect();
            let c = Case {
                scheme: *scheme,
                verify: *verify,
                cert: *cert,
                reply: *reply,
                post: *post,
                rc: codes[(r % codes.len() as u64) as usize],
                garbage,
                inject_kind: (r >> 20) as u8,
                host: match (*cert, round, (r >> 30) % 3) {
                    // the DNS-only certificate is valid for "localhost" and must be refused for the address literals
                    (Cert::DnsOnly, 0, _) => if i % 2 == 0 { "127.0.0.1" } else { v6_or_v4() },
                    (_, 0, _) | (_, _, 0) => "localhost",
                    (_, _, 1) => "127.0.0.1",
                    _ => v6_or_v4(),
                }
                .into(),
                split_writes: (r >> 33) % 2 == 0,
                // (15 cells per verification x certificate block: shift by the block number so that every position
                // of a block meets every build variant / URL tail across the blocks of the first round)
                build: if round == 0 { ((i + i / 15) % 5) as u8 } else { ((r >> 40) % 5) as u8 },
                url_tail: if round == 0 { ((i / 5 + i / 15) % 4) as u8 } else { ((r >> 44) % 4) as u8 },
            };
            let t0 = std::time::Instant::now();
            eval_case(&mut rep, known, &c, |obs| check(&c, obs));
            // result-code sweep: every non-zero code class must refuse, also when the server would handshake
            if *scheme == Scheme::StartTls && *reply == Reply::Code && *post == Post::Proper && *verify == Verify::Disabled && *cert == Cert::Good && round == 0 {
                for rc in [1u32, 2, 3, 4, 5, 6, 7, 8, 10, 11, 12, 13, 14, 16, 32, 48, 49, 50, 51, 52, 53, 54, 80, 88, 118, 123, 4096, 65536] {
                    let mut c2 = c.clone();
                    c2.rc = rc;
                    eval_case(&mut rep, known, &c2, |obs| check(&c2, obs));
                }
            }
            if std::env::var("VERIF_C17_TIMING").is_ok() {
                eprintln!("{:6.0} ms {:?} {:?} {:?} {:?} {:?}", t0.elapsed().as_secs_f64() * 1000.0, c.scheme, c.verify, c.cert, c.reply, c.post);
            }
            if rep.failure.is_some() {
                return rep;
            }
        }
    }
    rep
}

fn lane_replay(v: Value) -> Result<(), Fail> {
    let c: Case = serde_json::from_value(v).map_err(|e| Fail::new("replay-format", e.to_string()))?;
    check(&c, &mut Obs::default())
}

pub fn property() -> Property {
    Property {
        id: "C17",
        level: "fault_enumeration",
        rule: "EXHAUSTIVE product of scheme {ldap+StartTLS, ldaps} x verification {default trust store, no_tls_verify, custom connector trusting the test CA} x server certificate {CA-signed for localhost/127.0.0.1/::1, CA-signed for another name, self-signed, expired, CA-signed for the DNS name localhost only (to be refused when the URL names the host by address)} x StartTLS reply {success, non-zero code (after which the server still stands ready for a handshake, so a client that ignores the code is exposed), garbage then close, close, well-formed non-extended response, a success bearing a foreign message id (0, id+1, id+7) ahead of the real refusal, an answer whose LDAPResult is ill-formed} x post-reply behaviour {proper handshake, handshake garbage, forged cleartext LDAP responses for the next message ids in the same segment as the StartTLS response then a proper handshake} (225 cells) plus a sweep of 28 non-zero StartTLS result codes (incl. 5, 6, 10, 14) on the cell where everything else would succeed, each with generated parameters (result code, garbage bytes, forged PDU kind, host spelling, server write segmentation, what follows host:port in the URL (nothing, a base DN with a known URL extension, search parameters), the way the settings object is built: new() / default() base, two orders of the builder calls, a clone, or the blocking LdapConn API); thorough repeats the product 60 times with fresh parameters. The harness's server (tokio + native-tls acceptor, committed test PKI) records every raw byte it receives. Oracle: cleartext holds exactly one StartTLS ExtendedRequest (or nothing on ldaps) and otherwise only TLS records; establishment returns Ok only if the reply was a success, the handshake completed on the server and the certificate is acceptable under the effective settings (and must return Ok when all of that holds for a real StartTLS success); after Ok a bind is received inside TLS, returns the token sent inside TLS (never the forged cleartext one) and its password never appears in the raw log. Non-trivial: every cell (each contains an adversarial or trust-decision element); distinct = cell + parameters.",
        assumptions: &[
            "real sockets and wall time: verdicts are functions of the cell, timing is never borderline (guards of 10-20 s yield an env-* failure = inconclusive)",
            "only the default tls-native backend (OpenSSL) is exercised; the test CA is not in the system trust store, so 'default' verification must refuse every test certificate",
            "a custom connector together with no_tls_verify is not generated (the documented precedence is unspecified)",
            "a well-formed non-extended reply with code 0 may lead to either outcome as long as Ok implies an established TLS session",
        ],
        lanes: vec![Box::new(FnLane { name: "cells", run: lane_run, replay: lane_replay })],
        workers: (8, 16),
    }
}
