//! C11 — hostile or corrupt server bytes cannot crash or wedge the connection.

use crate::ber::{self, Body, Tlv};
use crate::model::{Entry, Res, Resp, RespMsg};
use crate::respgen;
use crate::runner::{guard, panic_sig, pick_idx, Ctx, Fail, FnLane, KnownFinding, LaneReport, Obs, PLane, Property};
use crate::sim::{self, err_kind, quiesce, DriveEnd, ReadEnd, Recv, SimResult};
use crate::simops::{self, Single};
use crate::{ensure, fail};
use bytes::BytesMut;
use ldap3::Scope;
use proptest::collection::vec;
use proptest::prelude::*;
use serde::{Deserialize, Serialize};
use serde_json::Value;
use std::time::Duration;

// ------------------------------------------------------------------ mutation catalogue (DESIGN.md Appendix D)

#[derive(Clone, Debug, Serialize, Deserialize)]
pub enum Mutation {
    None,
    DeleteNode(u16),
    DupNode(u16),
    SwapWithNext(u16),
    Retag { node: u16, class: u8, tag: u8 },
    FlipPc(u16),
    EmptyPrim(u16),
    LongInt { node: u16, len: u8 },
    AppendToEnvelope(u8),
    PrependToEnvelope(u8),
    /// node's length field is written as (true length + delta) without touching the content
    LenDelta { node: u16, delta: i32 },
    ByteSet { pos: u16, val: u8 },
    Truncate(u16),
    OuterTag(u8),
    /// replace the controls element by a malformed one
    BadControls(u8),
    /// message id content := prefix ++ zeros x 0x00 ++ original content (over-long ids whose low
    /// octets alias a valid id under a folding / truncating integer reader)
    WideMsgId { prefix: Vec<u8>, zeros: u8 },
}

fn mutation() -> BoxedStrategy<Mutation> {
    let delta = prop_oneof![(-16i32..=16).prop_filter("nonzero", |d| *d != 0), Just(256i32), Just(-256i32), Just(65536i32), Just(127i32), Just(128i32)];
    prop_oneof![
        2 => any::<u16>().prop_map(Mutation::DeleteNode),
        1 => any::<u16>().prop_map(Mutation::DupNode),
        1 => any::<u16>().prop_map(Mutation::SwapWithNext),
        2 => (any::<u16>(), 0u8..4, 0u8..31).prop_map(|(node, class, tag)| Mutation::Retag { node, class, tag }),
        2 => any::<u16>().prop_map(Mutation::FlipPc),
        2 => any::<u16>().prop_map(Mutation::EmptyPrim),
        1 => (any::<u16>(), 5u8..10).prop_map(|(node, len)| Mutation::LongInt { node, len }),
        1 => (0u8..4).prop_map(Mutation::AppendToEnvelope),
        1 => (0u8..4).prop_map(Mutation::PrependToEnvelope),
        4 => (any::<u16>(), delta).prop_map(|(node, delta)| Mutation::LenDelta { node, delta }),
        2 => (any::<u16>(), any::<u8>()).prop_map(|(pos, val)| Mutation::ByteSet { pos, val }),
        1 => any::<u16>().prop_map(Mutation::Truncate),
        1 => (0u8..6).prop_map(Mutation::OuterTag),
        3 => (0u8..12).prop_map(Mutation::BadControls),
        3 => (vec(prop_oneof![Just(0u8), Just(1u8), Just(0x7fu8), Just(0x80u8), Just(0xffu8), any::<u8>()], 1..6), 0u8..9).prop_map(|(prefix, zeros)| Mutation::WideMsgId { prefix, zeros }),
    ]
    .boxed()
}

fn count_nodes(t: &Tlv) -> usize {
    t.nodes()
}

fn paths(t: &Tlv, cur: &mut Vec<usize>, out: &mut Vec<Vec<usize>>) {
    out.push(cur.clone());
    if let Body::Cons(k) = &t.body {
        for (i, c) in k.iter().enumerate() {
            cur.push(i);
            paths(c, cur, out);
            cur.pop();
        }
    }
}

fn node_mut<'a>(t: &'a mut Tlv, path: &[usize]) -> &'a mut Tlv {
    let mut n = t;
    for &i in path {
        n = match &mut n.body {
            Body::Cons(k) => &mut k[i],
            Body::Prim(_) => unreachable!("path into primitive"),
        };
    }
    n
}

/// apply `f` to the node with pre-order index `idx`
fn with_node(t: &mut Tlv, idx: &mut usize, f: &mut dyn FnMut(&mut Tlv)) -> bool {
    let mut ps = Vec::new();
    paths(t, &mut Vec::new(), &mut ps);
    let Some(p) = ps.get(*idx) else { return false };
    f(node_mut(t, p));
    true
}

/// apply `f` to the child list that contains pre-order node `idx` (idx >= 1)
fn with_parent(t: &mut Tlv, idx: &mut usize, f: &mut dyn FnMut(&mut Vec<Tlv>, usize)) -> bool {
    let mut ps = Vec::new();
    paths(t, &mut Vec::new(), &mut ps);
    let Some(p) = ps.get(*idx) else { return false };
    let Some((last, parent)) = p.split_last() else { return false };
    if let Body::Cons(k) = &mut node_mut(t, parent).body {
        f(k, *last);
        return true;
    }
    false
}

fn encode_len_override(t: &Tlv, target: &mut isize, delta: i32, out: &mut Vec<u8>) {
    let me = *target == 0;
    *target -= 1;
    let push_len = |out: &mut Vec<u8>, len: usize| {
        let l = if me { (len as i64 + delta as i64).max(0) as usize } else { len };
        let mut tmp = Vec::new();
        // minimal definite form of the (possibly falsified) length
        if l < 128 {
            tmp.push(l as u8);
        } else {
            let b = (l as u64).to_be_bytes();
            let skip = b.iter().take_while(|&&x| x == 0).count();
            tmp.push(0x80 | (8 - skip) as u8);
            tmp.extend_from_slice(&b[skip..]);
        }
        out.extend_from_slice(&tmp);
    };
    match &t.body {
        Body::Prim(v) => {
            out.push((t.class << 6) | t.tag);
            push_len(out, v.len());
            out.extend_from_slice(v);
        }
        Body::Cons(k) => {
            out.push((t.class << 6) | 0x20 | t.tag);
            let mut inner = Vec::new();
            for c in k {
                encode_len_override(c, target, delta, &mut inner);
            }
            push_len(out, inner.len());
            out.extend_from_slice(&inner);
        }
    }
}

const EXTRA: &[(u8, u8, bool)] = &[(0, 4, false), (2, 0, false), (2, 10, false), (2, 10, true)];

fn bad_controls(kind: u8) -> Tlv {
    let c = |v: Vec<Tlv>| Tlv::cons(2, 0, v);
    match kind {
        0 => Tlv::prim(2, 0, b"x".to_vec()),
        1 => c(vec![Tlv::octets(b"1.2".to_vec())]),
        2 => c(vec![Tlv::seq(vec![])]),
        3 => c(vec![Tlv::seq(vec![Tlv::int(5)])]),
        4 => c(vec![Tlv::seq(vec![Tlv::octets(b"1.2".to_vec()), Tlv::prim(0, 1, vec![])])]),
        5 => c(vec![Tlv::seq(vec![Tlv::octets(b"1.2".to_vec()), Tlv::cons(0, 1, vec![])])]),
        6 => c(vec![Tlv::seq(vec![Tlv::octets(b"1.2".to_vec()), Tlv::cons(0, 4, vec![Tlv::octets(vec![1])])])]),
        7 => c(vec![Tlv::seq(vec![Tlv::octets(b"1.2".to_vec()), Tlv::boolean(true), Tlv::octets(vec![]), Tlv::octets(vec![])])]),
        8 => c(vec![Tlv::seq(vec![Tlv::octets(vec![0xff, 0xfe])])]),
        9 => c(vec![Tlv::seq(vec![Tlv::cons(0, 4, vec![])])]),
        10 => c(vec![Tlv::seq(vec![Tlv::octets(b"1.2".to_vec()), Tlv::int(7)])]),
        _ => c(vec![Tlv::seq(vec![Tlv::octets(b"1.2".to_vec()), Tlv::boolean(true), Tlv::cons(0, 4, vec![])])]),
    }
}

pub fn apply(msg: &RespMsg, m: &Mutation) -> Vec<u8> {
    let mut t = msg.to_tlv();
    let n = count_nodes(&t);
    let pick = |x: u16| pick_idx(x, n);
    match m {
        Mutation::None => {}
        Mutation::DeleteNode(x) => {
            let mut i = pick(*x).max(1);
            with_parent(&mut t, &mut i, &mut |k, p| {
                k.remove(p);
            });
        }
        Mutation::DupNode(x) => {
            let mut i = pick(*x).max(1);
            with_parent(&mut t, &mut i, &mut |k, p| {
                let c = k[p].clone();
                k.insert(p, c);
            });
        }
        Mutation::SwapWithNext(x) => {
            let mut i = pick(*x).max(1);
            with_parent(&mut t, &mut i, &mut |k, p| {
                if p + 1 < k.len() {
                    k.swap(p, p + 1);
                } else if p > 0 {
                    k.swap(p, p - 1);
                }
            });
        }
        Mutation::Retag { node, class, tag } => {
            let mut i = pick(*node);
            with_node(&mut t, &mut i, &mut |nd| {
                nd.class = *class;
                nd.tag = *tag;
            });
        }
        Mutation::FlipPc(x) => {
            let mut i = pick(*x);
            with_node(&mut t, &mut i, &mut |nd| {
                nd.body = match &nd.body {
                    Body::Prim(v) => match ber::parse_all(v) {
                        Ok(inner) => Body::Cons(vec![inner]),
                        Err(_) => Body::Cons(vec![]),
                    },
                    Body::Cons(k) => {
                        let mut b = Vec::new();
                        for c in k {
                            b.extend_from_slice(&ber::encode(c));
                        }
                        Body::Prim(b)
                    }
                };
            });
        }
        Mutation::EmptyPrim(x) => {
            let mut i = pick(*x);
            with_node(&mut t, &mut i, &mut |nd| {
                nd.body = match &nd.body {
                    Body::Prim(_) => Body::Prim(vec![]),
                    Body::Cons(_) => Body::Cons(vec![]),
                };
            });
        }
        Mutation::LongInt { node, len } => {
            let mut i = pick(*node);
            with_node(&mut t, &mut i, &mut |nd| {
                if let Body::Prim(_) = nd.body {
                    nd.body = Body::Prim(vec![0x01; *len as usize]);
                }
            });
        }
        Mutation::WideMsgId { prefix, zeros } => {
            if let Body::Cons(kids) = &mut t.body {
                if let Some(Tlv { body: Body::Prim(p), .. }) = kids.first_mut() {
                    let mut v = prefix.clone();
                    v.extend(std::iter::repeat(0u8).take(*zeros as usize));
                    v.extend_from_slice(p);
                    *p = v;
                }
            }
        }
        Mutation::AppendToEnvelope(k) | Mutation::PrependToEnvelope(k) => {
            let (class, tag, cons) = EXTRA[*k as usize % EXTRA.len()];
            let e = if cons { Tlv::cons(class, tag, vec![Tlv::octets(b"x".to_vec())]) } else { Tlv::prim(class, tag, b"1.3.6.1".to_vec()) };
            if let Body::Cons(kids) = &mut t.body {
                if matches!(m, Mutation::AppendToEnvelope(_)) {
                    kids.push(e);
                } else {
                    kids.insert(0, e);
                }
            }
        }
        Mutation::LenDelta { node, delta } => {
            let mut target = pick(*node) as isize;
            let mut out = Vec::new();
            encode_len_override(&t, &mut target, *delta, &mut out);
            return out;
        }
        Mutation::ByteSet { pos, val } => {
            let mut b = ber::encode(&t);
            let i = pick_idx(*pos, b.len());
            b[i] = *val;
            return b;
        }
        Mutation::Truncate(x) => {
            let mut b = ber::encode(&t);
            let i = pick_idx(*x, b.len());
            b.truncate(i);
            return b;
        }
        Mutation::OuterTag(k) => {
            let (class, tag, cons) = [(0u8, 4u8, false), (0, 17, true), (0, 16, false), (2, 0, true), (1, 16, true), (0, 2, false)][*k as usize % 6];
            t.class = class;
            t.tag = tag;
            if !cons {
                let mut b = Vec::new();
                if let Body::Cons(k) = &t.body {
                    for c in k {
                        b.extend_from_slice(&ber::encode(c));
                    }
                }
                t.body = Body::Prim(b);
            }
        }
        Mutation::BadControls(k) => {
            if let Body::Cons(kids) = &mut t.body {
                if kids.len() >= 3 {
                    kids.pop();
                }
                kids.push(bad_controls(*k));
            }
        }
    }
    ber::encode(&t)
}

/// Envelope classes the harness can decide independently of the library.
#[derive(Debug, PartialEq)]
pub enum EnvClass {
    /// first complete TLV is definitely not an LDAPMessage envelope
    NotEnvelope,
    /// complete TLV that looks like an envelope (may still be ill-formed deeper down)
    Plausible,
    /// harness cannot frame it (incomplete or invalid BER header)
    Unframed,
}

pub fn classify(bytes: &[u8]) -> (EnvClass, Option<usize>) {
    let Ok(Some((hl, cl, cons, class, tag))) = ber::header(bytes) else { return (EnvClass::Unframed, None) };
    if bytes.len() < hl + cl {
        return (EnvClass::Unframed, None);
    }
    let total = hl + cl;
    if !(cons && class == 0 && tag == 16) {
        return (EnvClass::NotEnvelope, Some(total));
    }
    match ber::parse(&bytes[..total]) {
        ber::Parsed::Complete(t, _) => {
            let k = t.as_cons().unwrap_or(&[]);
            let id_ok = k.first().map(|i| i.is(0, 2) && i.as_prim().map(|p| !p.is_empty() && p.len() <= 4 && p[0] & 0x80 == 0).unwrap_or(false)).unwrap_or(false);
            if k.len() < 2 || !id_ok {
                (EnvClass::NotEnvelope, Some(total))
            } else {
                (EnvClass::Plausible, Some(total))
            }
        }
        // the outer frame is complete but an inner length overruns it
        ber::Parsed::Invalid("child overruns parent") => (EnvClass::NotEnvelope, Some(total)),
        // forms the harness reader does not model (high tag numbers, indefinite or reserved
        // inner lengths): framed, but no verdict on the envelope
        _ => (EnvClass::Plausible, Some(total)),
    }
}

// ------------------------------------------------------------------ lane: decoder

#[derive(Clone, Debug, Serialize, Deserialize)]
pub enum DecCase {
    Mutated { msg: RespMsg, m: Mutation, trailer: Vec<u8> },
    Raw { hex: String },
}

fn dec_strat(_: &Ctx) -> BoxedStrategy<DecCase> {
    let mutated = (respgen::any_msg(false), mutation(), vec(any::<u8>(), 0..4)).prop_map(|(msg, m, trailer)| DecCase::Mutated { msg, m, trailer });
    let framed_random = (vec(any::<u8>(), 0..40), any::<bool>()).prop_map(|(mut body, inflate)| {
        let mut b = vec![0x30, (body.len() as u8).wrapping_add(if inflate { 3 } else { 0 })];
        b.append(&mut body);
        DecCase::Raw { hex: ber::hex(&b) }
    });
    let tiny = proptest::sample::select(&["3000", "300102", "30020100", "3003020101", "30050201016100", "30050201016500", "300502010161 7f", "30060201010500a000", "3005020101a000", "30 0c 00 00 00 00 00 00 00 00 00 00 00 00", "30800000", "3084000000020101", "30030201ff", "300a0201018a0130a003", "308100", "30820000", "308400000000", "3080", "30810102", "30028100", "3003020100", "3088ffffffffffffffff", "3088fffffffffffffff6", "30887fffffffffffffff", "30888000000000000000", "3084ffffffff", "30850100000000", "3089010000000000000000", "308affffffffffffffffffff", "3088ffffffffffffffff020101", "300c0201016188ffffffffffffffff"][..])
        .prop_map(|h| DecCase::Raw { hex: h.replace(' ', "") });
    prop_oneof![8 => mutated, 2 => framed_random, 1 => vec(any::<u8>(), 0..48).prop_map(|b| DecCase::Raw { hex: ber::hex(&b) }), 1 => tiny].boxed()
}

/// The decoder-lane oracle on raw bytes (also the fuzz-target oracle).
pub fn judge_decoder(bytes: &[u8], obs: &mut Obs) -> Result<(), Fail> {
    let (class, frame_len) = classify(bytes);
    let mut buf = BytesMut::from(bytes);
    let r = guard(|| ldap3::verif::verif_decode(&mut buf));
    let r = match r {
        Ok(r) => r,
        Err(p) => {
            let sig = panic_sig(&p);
            fail!(sig, "frame decoder panicked on {}: {}", ber::hex(&bytes[..bytes.len().min(64)]), p)
        }
    };
    match (&r, frame_len) {
        (Ok(None), Some(total)) => fail!("c11:complete-frame-needs-more", "all {} octets announced by the outer length have arrived but the decoder still asks for more ({}): the connection waits forever", total, ber::hex(&bytes[..bytes.len().min(64)])),
        (Ok(Some(_)), Some(total)) => {
            ensure!(bytes.len() - buf.len() == total, "c11:wrong-consumption", "decoder consumed {} bytes of a {}-byte frame", bytes.len() - buf.len(), total);
            ensure!(class != EnvClass::NotEnvelope, "c11:non-envelope-delivered", "input that is not an LDAPMessage envelope was delivered instead of rejected: {}", ber::hex(&bytes[..bytes.len().min(64)]));
        }
        _ => {}
    }
    obs.label(match &r {
        Ok(Some(_)) => "decoded",
        Ok(None) => "need-more",
        Err(_) => "rejected",
    });
    obs.label(format!("class:{:?}", class));
    Ok(())
}

pub fn check_dec(c: &DecCase, obs: &mut Obs) -> Result<(), Fail> {
    let bytes = match c {
        DecCase::Mutated { msg, m, trailer } => {
            let mut b = apply(msg, m);
            b.extend_from_slice(trailer);
            b
        }
        DecCase::Raw { hex } => ber::unhex(hex),
    };
    judge_decoder(&bytes, obs)?;
    match c {
        DecCase::Mutated { m, .. } => {
            obs.label(format!("mut:{}", format!("{:?}", m).split(|ch: char| !ch.is_alphanumeric()).next().unwrap_or("")));
            obs.nontrivial(&bytes);
        }
        DecCase::Raw { .. } => {
            if bytes.first() == Some(&0x30) && bytes.len() >= 2 {
                obs.nontrivial(&bytes);
            }
        }
    }
    Ok(())
}

// ------------------------------------------------------------------ lane: driver

#[derive(Clone, Debug, Serialize, Deserialize)]
pub enum Hostile {
    /// a mutated response addressed to pending op `target`
    Mutated { target: u8, m: Mutation },
    /// a well-formed response of the wrong type for the target's operation kind
    WrongType { target: u8, app: u8, empty: bool },
    Raw { hex: String },
}

#[derive(Clone, Debug, Serialize, Deserialize)]
pub struct DrvCase {
    /// pending operations: None = streaming search, Some(kind) = single op
    pending: Vec<Option<Single>>,
    /// entries already delivered to each search before the hostile bytes
    warmup: u8,
    hostile: Hostile,
    sched: u64,
    /// well-formed frames written in the same burst (same read) directly before the hostile bytes
    #[serde(default)]
    glued: u8,
}

fn drv_strat(_: &Ctx) -> BoxedStrategy<DrvCase> {
    let pend = vec(prop_oneof![2 => Just(None), 2 => simops::single_strat().prop_map(Some)], 1..=3);
    let hostile = prop_oneof![
        // target 3 = message id 0 (an unsolicited notification), otherwise a pending operation
        5 => (0u8..4, mutation()).prop_map(|(target, m)| Hostile::Mutated { target, m }),
        5 => (0u8..4, proptest::sample::select(&[1u8, 4, 5, 7, 9, 11, 13, 15, 19, 24, 25, 0, 2, 3, 30][..]), any::<bool>()).prop_map(|(target, app, empty)| Hostile::WrongType { target, app, empty }),
        2 => proptest::sample::select(&["3000", "300102", "3003020101", "30050201016500", "30050201016100", "300502010161 7f", "30 0c 00 00 00 00 00 00 00 00 00 00 00 00", "0403616263", "3005020101a000"][..]).prop_map(|h| Hostile::Raw { hex: h.replace(' ', "") }),
    ];
    (pend, 0u8..3, hostile, any::<u64>(), prop_oneof![2 => Just(0u8), 2 => 1u8..4]).prop_map(|(pending, warmup, hostile, sched, glued)| DrvCase { pending, warmup, hostile, sched, glued }).boxed()
}

#[derive(Debug)]
struct DrvOut {
    ops: Vec<String>,
    drive: Option<DriveEnd>,
    hostile_bytes: Vec<u8>,
    problems: Vec<String>,
}

fn run_driver(c: &DrvCase) -> SimResult<DrvOut> {
    let c = c.clone();
    sim::run_sim(c.sched, async move {
        let conn = sim::connect();
        let wire = conn.wire.clone();
        let mut tasks = Vec::new();
        for (i, p) in c.pending.iter().cloned().enumerate() {
            let mut ldap = conn.ldap.clone();
            tasks.push(tokio::spawn(async move {
                let mk = simops::marker(i);
                let body = async {
                    match p {
                        Some(k) => match simops::exec_single(&mut ldap, k, &mk).await {
                            Ok(_) => "ok".to_string(),
                            Err(e) => err_kind(&e),
                        },
                        None => match ldap.streaming_search(&mk, Scope::Subtree, "(a=b)", vec!["a"]).await {
                            Ok(mut s) => {
                                let mut end;
                                loop {
                                    match s.next().await {
                                        Ok(Some(_)) => continue,
                                        Ok(None) => {
                                            end = "ok".to_string();
                                            break;
                                        }
                                        Err(e) => {
                                            end = err_kind(&e);
                                            break;
                                        }
                                    }
                                }
                                let _ = s.finish().await;
                                if end.is_empty() {
                                    end = "?".into();
                                }
                                end
                            }
                            Err(e) => format!("start:{}", err_kind(&e)),
                        },
                    }
                };
                match tokio::time::timeout(Duration::from_secs(3600), body).await {
                    Ok(s) => s,
                    Err(_) => "hang".to_string(),
                }
            }));
        }
        let mut problems = Vec::new();
        let mut ids: Vec<Option<i64>> = vec![None; c.pending.len()];
        quiesce().await;
        while let Some(r) = wire.try_recv() {
            if let Recv::Msg(Ok(m), _, _) = r {
                if let Some(i) = simops::marker_index(&m) {
                    if i < ids.len() {
                        ids[i] = Some(m.id);
                    }
                }
            }
        }
        if ids.iter().any(|i| i.is_none()) {
            problems.push("not all requests arrived".to_string());
        }
        // warm-up entries for searches
        for (i, p) in c.pending.iter().enumerate() {
            if p.is_none() {
                for e in 0..c.warmup {
                    wire.push(&RespMsg::new(ids[i].unwrap_or(1), Resp::Entry(Entry::simple(&format!("cn=w{}", e)))).encode());
                }
            }
        }
        quiesce().await;
        let hostile: Vec<u8> = match &c.hostile {
            Hostile::Raw { hex } => ber::unhex(hex),
            Hostile::Mutated { target, m } => {
                let t = *target as usize % c.pending.len();
                let zero = *target == 3;
                let id = if zero { 0 } else { ids[t].unwrap_or(1) };
                let resp = if zero {
                    Resp::Result { app: 24, res: Res::code(52, "notice of disconnection"), sasl: None, exop_name: Some("1.3.6.1.4.1.1466.20036".into()), exop_val: None }
                } else {
                    match c.pending[t] {
                        Some(k) => Resp::result(k.resp_tag(), Res::ok("x")),
                        None => Resp::result(5, Res::ok("x")),
                    }
                };
                apply(&RespMsg { id, resp, ctrls: Some(vec![crate::model::RCtl { oid: "1.2.3".into(), crit: crate::model::CritForm::True, val: Some(vec![1, 2]) }]) }, m)
            }
            Hostile::WrongType { target, app, empty } => {
                let t = *target as usize % c.pending.len();
                let id = if *target == 3 { 0 } else { ids[t].unwrap_or(1) };
                let body = if *empty { vec![] } else { vec![Tlv::enumerated(0), Tlv::octets(vec![]), Tlv::octets(vec![])] };
                ber::encode(&Tlv::seq(vec![Tlv::int(id), Tlv::cons(1, *app, body)]))
            }
        };
        // one burst: `glued` well-formed frames (entries of a pending search, else responses to an
        // id nobody waits for) followed by the hostile bytes, all available to a single read
        let mut burst = Vec::new();
        for g in 0..c.glued {
            let f = match c.pending.iter().position(|p| p.is_none()) {
                Some(i) => RespMsg::new(ids[i].unwrap_or(1), Resp::Entry(Entry::simple(&format!("cn=g{}", g)))),
                None => RespMsg::new(0x7000_0000 + g as i64, Resp::result(7, Res::ok("late"))),
            };
            burst.extend_from_slice(&f.encode());
        }
        burst.extend_from_slice(&hostile);
        wire.push(&burst);
        quiesce().await;
        // whatever happened, the server now closes the connection
        wire.end_read(ReadEnd::Eof);
        let mut ops = Vec::new();
        for t in tasks {
            match t.await {
                Ok(s) => ops.push(s),
                Err(_) => ops.push(format!("panic:{}", crate::runner::take_panics().into_iter().last().unwrap_or_default())),
            }
        }
        let sim::Conn { ldap, driver, .. } = conn;
        drop(ldap);
        let drive = tokio::time::timeout(Duration::from_secs(3600), sim::join_driver(driver)).await.ok();
        DrvOut { ops, drive, hostile_bytes: hostile, problems }
    })
}

pub fn check_drv(c: &DrvCase, obs: &mut Obs) -> Result<(), Fail> {
    let o = match run_driver(c) {
        SimResult::Done(o) => o,
        SimResult::Hang => fail!("c11:driver-wedged", "scenario never completed after hostile bytes {:?}", c.hostile),
    };
    ensure!(o.problems.is_empty(), "harness-c11", "{:?}", o.problems);
    let hx = ber::hex(&o.hostile_bytes[..o.hostile_bytes.len().min(64)]);
    match &o.drive {
        None => fail!("c11:driver-wedged", "drive() did not return within a virtual hour after hostile bytes {} and EOF", hx),
        Some(DriveEnd::Panic(p)) => {
            let sig = panic_sig(p);
            fail!(sig, "driver panicked on hostile bytes {} ({:?}): {}", hx, c.hostile, p)
        }
        _ => {}
    }
    for (i, s) in o.ops.iter().enumerate() {
        ensure!(s != "hang", "c11:op-wedged", "pending operation {} is still waiting a virtual hour after hostile bytes {} and EOF", i, hx);
    }
    let (class, _) = classify(&o.hostile_bytes);
    if class == EnvClass::NotEnvelope {
        obs.label("not-an-envelope");
        ensure!(matches!(o.drive, Some(DriveEnd::Err(_))), "c11:non-envelope-no-decoding-error", "input that is not an LDAPMessage envelope ({}) did not end the connection with an error: drive() = {:?}", hx, o.drive);
        for (i, s) in o.ops.iter().enumerate() {
            if let Some(p) = s.strip_prefix("panic:") {
                fail!(panic_sig(p), "pending operation {} panicked: {}", i, p);
            }
            ensure!(s != "ok", "c11:pending-op-ok-after-garbage", "pending operation {} returned Ok although the connection ended on undecodable input {}", i, hx);
        }
    }
    // panics in a *caller's* task while converting a well-enveloped but ill-formed result are
    // outside C11's statement (driver and envelope); they are recorded, not reported
    if o.ops.iter().any(|s| s.starts_with("panic:")) {
        obs.label("caller-task-panic-on-ill-formed-result(not-C11)");
    }
    obs.label(format!("class:{:?}", class));
    obs.nontrivial((format!("{:?}", c.pending), &o.hostile_bytes));
    Ok(())
}

// ------------------------------------------------------------------ lane: stack (child process, 2 MiB thread stack)

#[derive(Clone, Debug, Serialize, Deserialize)]
pub struct StackCase {
    depth: u32,
    placement: u8,
    long_headers: bool,
    /// 0 = definite lengths; 1 = every element of the chain uses the indefinite form (x0 80), no end-of-contents
    /// octets; 2 = indefinite with the matching 00 00 terminators. The enclosing frame is always definite.
    #[serde(default)]
    indef: u8,
}

/// nested constructed TLVs of the given depth, built without recursion
pub fn nested(depth: u32, tagbyte: u8, long_headers: bool) -> Vec<u8> {
    let lenlen = |l: usize| -> usize {
        if long_headers {
            4
        } else if l < 128 {
            1
        } else if l < 256 {
            2
        } else if l < 65536 {
            3
        } else if l < (1 << 24) {
            4
        } else {
            5
        }
    };
    let mut lens: Vec<usize> = Vec::with_capacity(depth as usize);
    let mut cur = 0usize;
    for _ in 0..depth {
        lens.push(cur);
        cur += 1 + lenlen(cur);
    }
    let mut out = Vec::with_capacity(cur);
    for l in lens.iter().rev() {
        out.push(tagbyte);
        let n = lenlen(*l);
        if n == 1 {
            out.push(*l as u8);
        } else {
            out.push(0x80 | (n - 1) as u8);
            let b = (*l as u64).to_be_bytes();
            out.extend_from_slice(&b[8 - (n - 1)..]);
        }
    }
    out
}

pub fn stack_input(c: &StackCase) -> Vec<u8> {
    let tagbyte = if c.placement % 3 == 2 { 0xa0 } else { 0x30 };
    let chain = if c.indef == 0 {
        nested(c.depth, tagbyte, c.long_headers)
    } else {
        let mut v = Vec::with_capacity(c.depth as usize * 4);
        for _ in 0..c.depth {
            v.extend_from_slice(&[tagbyte, 0x80]);
        }
        if c.indef == 2 {
            v.resize(v.len() + 2 * c.depth as usize, 0);
        }
        v
    };
    // an indefinite chain cannot be the frame itself (the frame length must be known): it becomes the protocolOp
    let placement = if c.indef != 0 && c.placement % 3 == 0 { 1 } else { c.placement % 3 };
    match placement {
        // the whole envelope is the chain
        0 => chain,
        // chain as the protocolOp
        1 => {
            let mut inner = vec![0x02, 0x01, 0x01];
            let mut op = chain;
            if !op.is_empty() {
                op[0] = 0x65;
            }
            inner.extend_from_slice(&op);
            let mut out = vec![0x30];
            let b = (inner.len() as u64).to_be_bytes();
            out.push(0x84);
            out.extend_from_slice(&b[4..]);
            out.extend_from_slice(&inner);
            out
        }
        // chain inside the controls
        _ => {
            let mut inner = vec![0x02, 0x01, 0x01, 0x65, 0x07, 0x0a, 0x01, 0x00, 0x04, 0x00, 0x04, 0x00];
            inner.extend_from_slice(&chain);
            let mut out = vec![0x30];
            let b = (inner.len() as u64).to_be_bytes();
            out.push(0x84);
            out.extend_from_slice(&b[4..]);
            out.extend_from_slice(&inner);
            out
        }
    }
}

/// Run in the child: decode like Framed on a thread with tokio's default worker stack size.
pub fn stackprobe_main(path: &str) -> i32 {
    let bytes = std::fs::read(path).expect("probe input");
    let h = std::thread::Builder::new()
        .stack_size(2 * 1024 * 1024)
        .spawn(move || {
            let mut buf = BytesMut::from(&bytes[..]);
            let r = std::panic::catch_unwind(std::panic::AssertUnwindSafe(|| ldap3::verif::verif_decode(&mut buf)));
            match r {
                Ok(Ok(Some(_))) => "decoded",
                Ok(Ok(None)) => "need-more",
                Ok(Err(_)) => "rejected",
                Err(_) => "panic",
            }
        })
        .expect("spawn probe thread");
    match h.join() {
        Ok(s) => {
            println!("PROBE {}", s);
            0
        }
        Err(_) => 3,
    }
}

fn probe(c: &StackCase) -> Result<String, Fail> {
    let input = stack_input(c);
    let dir = crate::runner::verif_root().join("harness").join("target").join("probe");
    let _ = std::fs::create_dir_all(&dir);
    static SEQ: std::sync::atomic::AtomicU64 = std::sync::atomic::AtomicU64::new(0);
    let path = dir.join(format!("probe-{}-{}.bin", std::process::id(), SEQ.fetch_add(1, std::sync::atomic::Ordering::SeqCst)));
    std::fs::write(&path, &input).map_err(|e| Fail::new("harness-c11-probe", e.to_string()))?;
    let exe = std::env::current_exe().map_err(|e| Fail::new("harness-c11-probe", e.to_string()))?;
    let out = std::process::Command::new(exe).arg("stackprobe").arg(&path).output().map_err(|e| Fail::new("harness-c11-probe", e.to_string()))?;
    let _ = std::fs::remove_file(&path);
    use std::os::unix::process::ExitStatusExt;
    if let Some(sig) = out.status.signal() {
        let stderr = String::from_utf8_lossy(&out.stderr);
        let overflow = stderr.contains("overflowed its stack");
        return Err(Fail::new(
            if overflow { "c11:stack-overflow" } else { "c11:child-killed" },
            format!("decoding a {}-byte frame with {} nested constructed elements (placement {}) on a 2 MiB stack killed the process with signal {}{}", input.len(), c.depth, c.placement % 3, sig, if overflow { " (stack overflow)" } else { "" }),
        ));
    }
    let so = String::from_utf8_lossy(&out.stdout).to_string();
    let verdict = so.lines().find_map(|l| l.strip_prefix("PROBE ")).unwrap_or("").to_string();
    if verdict == "panic" {
        return Err(Fail::new("c11:probe-panic", format!("decoder panicked on nested input depth {}", c.depth)));
    }
    if verdict.is_empty() {
        return Err(Fail::new("harness-c11-probe", format!("probe child gave no verdict: status {:?}", out.status)));
    }
    if verdict == "need-more" {
        return Err(Fail::new("c11:complete-frame-needs-more", format!("nested frame depth {} complete but decoder asks for more", c.depth)));
    }
    Ok(verdict)
}

fn stack_run(ctx: &Ctx, known: &[KnownFinding]) -> LaneReport {
    let mut rep = LaneReport::new("stack");
    rep.exhaustive = false;
    let n = ctx.tier.pick(6u32, 40u32);
    // log-uniform depths up to what fits in 1 MiB, derived deterministically from the seed
    let mut x = ctx.seed.wrapping_mul(0x9e3779b97f4a7c15).wrapping_add((ctx.worker as u64).wrapping_mul(0x632be59bd9b4e019)) | 1;
    let mut next = move || {
        x ^= x << 13;
        x ^= x >> 7;
        x ^= x << 17;
        x
    };
    for k in 0..n {
        let long = next() % 3 == 0;
        let maxd: f64 = if long { 1_048_576.0 / 5.0 } else { 1_048_576.0 / 4.2 };
        let frac = (next() % 10_000) as f64 / 10_000.0;
        let mut depth = (maxd.ln() * frac).exp() as u32;
        if k == 0 {
            depth = maxd as u32 - 10;
        }
        if k == 1 {
            depth = 12_000;
        }
        let indef = if k >= 2 && k % 3 == 2 { 1 + (next() % 2) as u8 } else { 0 };
        if indef != 0 {
            // 2 (or 4) octets per level
            let maxi: f64 = 1_048_000.0 / if indef == 2 { 4.0 } else { 2.0 };
            depth = if k == 2 { maxi as u32 } else { (maxi.ln() * frac).exp() as u32 };
        }
        let c = StackCase { depth: depth.max(1), placement: (next() % 3) as u8, long_headers: long, indef };
        crate::runner::eval_case(&mut rep, known, &c, |obs| {
            let v = probe(&c)?;
            obs.label(format!("verdict:{}", v));
            obs.label(format!("depth>=10^{}", (c.depth as f64).log10() as u32));
            if c.indef != 0 {
                obs.label("indefinite-length-chain");
            }
            obs.nontrivial((c.depth, c.placement, c.long_headers, c.indef));
            Ok(())
        });
    }
    rep
}

fn stack_replay(v: Value) -> Result<(), Fail> {
    let c: StackCase = serde_json::from_value(v).map_err(|e| Fail::new("replay-format", e.to_string()))?;
    probe(&c).map(|_| ())
}

// ------------------------------------------------------------------ coverage-guided lane (libFuzzer)

fn fuzz_spec() -> crate::fuzzlane::FuzzSpec {
    crate::fuzzlane::FuzzSpec { target: "hostile_frame", oracle: judge_decoder, seeds: crate::fuzzlane::seeds_frames, max_len: 512, runs_per_worker: 6000000 }
}


// ------------------------------------------------------------------ lane: skeletons (exhaustive)

/// element alphabet for envelope skeletons
const SKEL: &[&[u8]] = &[
    &[0x02, 0x01, 0x01],                                     // message id 1
    &[0x02, 0x01, 0x00],                                     // message id 0
    &[0x65, 0x07, 0x0a, 0x01, 0x00, 0x04, 0x00, 0x04, 0x00], // SearchResultDone, success
    &[0x65, 0x00],                                           // operation without elements
    &[0x61, 0x07, 0x0a, 0x01, 0x00, 0x04, 0x00, 0x04, 0x00], // BindResponse
    &[0xa0, 0x09, 0x30, 0x07, 0x04, 0x05, b'1', b'.', b'2', b'.', b'3'], // controls: one control, oid only
    &[0xa0, 0x00],                                           // empty controls
    &[0x80, 0x00],                                           // primitive [0]
    &[0x8a, 0x00],                                           // AD-style [10], primitive
    &[0xaa, 0x00],                                           // [10], constructed
    &[0x8a, 0x01, 0x41],                                     // [10] with content
    &[0x04, 0x00],                                           // OCTET STRING
    &[0x05, 0x00],                                           // NULL
    &[0x30, 0x00],                                           // empty SEQUENCE
    &[0x78, 0x07, 0x0a, 0x01, 0x00, 0x04, 0x00, 0x04, 0x00], // ExtendedResponse (the operation the AD trailer belongs to)
    &[0x78, 0x00],                                           // ExtendedResponse without elements
    &[0x78, 0x03, 0x0a, 0x01, 0x00],                         // ExtendedResponse with the result code only
];

#[derive(Clone, Debug, Serialize, Deserialize)]
pub struct SkelCase {
    elems: Vec<u8>,
    #[serde(default)]
    form: u8,
}

fn skel_bytes(c: &SkelCase) -> Vec<u8> {
    let mut body = Vec::new();
    for e in &c.elems {
        body.extend_from_slice(SKEL[*e as usize % SKEL.len()]);
    }
    // outer length: short form, or a (non-minimal) long form with 1, 2 or 4 length octets
    let mut out = vec![0x30];
    match c.form % 4 {
        0 => out.push(body.len() as u8),
        1 => out.extend_from_slice(&[0x81, body.len() as u8]),
        2 => out.extend_from_slice(&[0x82, 0, body.len() as u8]),
        _ => out.extend_from_slice(&[0x84, 0, 0, 0, body.len() as u8]),
    }
    out.extend_from_slice(&body);
    out
}

fn skel_run(ctx: &Ctx, known: &[KnownFinding]) -> LaneReport {
    let mut rep = LaneReport::new("skeletons");
    rep.exhaustive = true;
    let k = SKEL.len() as u64;
    // every sequence of 0..=4 elements (thorough: 0..=5) over the alphabet
    let maxlen = ctx.tier.pick(4u32, 5u32);
    let mut idx: u64 = 0;
    for len in 0..=maxlen {
        for code in 0..k.pow(len) {
            idx += 1;
            if idx % ctx.workers as u64 != ctx.worker as u64 {
                continue;
            }
            let mut elems = Vec::with_capacity(len as usize);
            let mut c = code;
            for _ in 0..len {
                elems.push((c % k) as u8);
                c /= k;
            }
            for form in 0..4u8 {
                let case = SkelCase { elems: elems.clone(), form };
                crate::runner::eval_case(&mut rep, known, &case, |obs| {
                    let b = skel_bytes(&case);
                    judge_decoder(&b, obs)?;
                    obs.nontrivial(b);
                    Ok(())
                });
                if rep.failure.is_some() {
                    return rep;
                }
            }
        }
    }
    rep
}

fn skel_replay(v: Value) -> Result<(), Fail> {
    let c: SkelCase = serde_json::from_value(v).map_err(|e| Fail::new("replay-format", e.to_string()))?;
    judge_decoder(&skel_bytes(&c), &mut Obs::default())
}

fn fuzz_run(ctx: &Ctx, known: &[crate::runner::KnownFinding]) -> crate::runner::LaneReport {
    crate::fuzzlane::run(&fuzz_spec(), ctx, known)
}

fn fuzz_replay(v: serde_json::Value) -> Result<(), Fail> {
    crate::fuzzlane::replay(&fuzz_spec(), v)
}

pub fn property() -> Property {
    Property {
        id: "C11",
        level: "exploration",
        rule: "lanes: decoder (a valid response message of any kind with exactly one mutation from the catalogue of DESIGN.md Appendix D - element deleted/duplicated/swapped, tag class/number/P-C changed, primitive emptied, over-long INTEGER, message id widened to 5-17 octets whose low octets still spell the original id, extra envelope element incl. the AD-style [10] trailer, any one TLV length falsified by +-delta (truncated/inflated inner lengths), byte set, truncation, outer tag changed, 12 malformed control lists - plus random bytes behind a plausible outer header and raw random bytes; oracle under catch_unwind: never a panic; if the octets announced by the outer length are all present the decoder must not answer 'need more'; a delivered frame consumes exactly the outer frame; input that is definitely not an envelope is never delivered); driver (the same delivered while 1-3 operations are pending on the simulated connection, incl. every response type under a live single or search id or under message id 0 (unsolicited notifications), with and without elements, alone or in the same read directly behind 1-3 well-formed frames; oracle: driver neither panics nor wedges (virtual watchdog), drive() returns, and for definite non-envelopes it returns an error that every pending operation observes); stack (child process, 2 MiB thread stack: frames with log-uniform 1..~250 000 nested constructed elements up to 1 MiB placed as envelope / protocolOp / controls; death by signal is the violation; a third of the chains use the indefinite length form inside a definite frame, with or without end-of-contents octets); skeletons (EXHAUSTIVE: every SEQUENCE of 0-4 (thorough 0-5) elements over a 17-element alphabet - valid id, id 0, operations with and without elements, ExtendedResponse with 3 / 1 / 0 elements, valid / empty / primitive controls, AD-style [10] in three shapes, OCTET STRING, NULL, empty SEQUENCE - each with the outer length in short form and in 1-, 2- and 4-octet long form, through the decoder oracle). Non-trivial: exactly one mutation away from a valid message, or random bytes starting with a plausible outer header; every driver and stack case. Distinct = hash of the bytes.",
        assumptions: &[
            "harness classification of 'definitely not an envelope': outer TLV not a universal constructed SEQUENCE, fewer than two elements, first element not a 1-4 octet non-negative universal INTEGER, or inner lengths that overrun the outer frame",
            "a panic in the caller's task while converting a well-enveloped but ill-formed result is outside the statement (driver and envelope) and only labelled",
        ],
        lanes: vec![
            Box::new(PLane { name: "decoder", cases: |t| t.pick(8_000, 200_000), strat: dec_strat, check: check_dec }),
            Box::new(PLane { name: "driver", cases: |t| t.pick(800, 15_000), strat: drv_strat, check: check_drv }),
            Box::new(FnLane { name: "stack", run: stack_run, replay: stack_replay }),
            Box::new(FnLane { name: "skeletons", run: skel_run, replay: skel_replay }),
            Box::new(crate::runner::FnLane { name: "fuzz", run: fuzz_run, replay: fuzz_replay }),
        ],
        workers: (8, 16),
    }
}
