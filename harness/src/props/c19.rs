//! C19 — control and extended-operation values round-trip through their codecs.

use crate::ber::{self, Tlv, APPLICATION, CONTEXT, UNIVERSAL};
use crate::conv::from_lib;
use crate::filter::{self, Filter};
use crate::gens;
use crate::model::{self, CritForm, Ctl, Entry, RCtl, Resp, RespMsg, Res};
use crate::props::{c08, c15};
use crate::runner::{guard, panic_sig, Ctx, Fail, Obs, PLane, Property};
use crate::{ensure, fail};
use ldap3::controls::{self, ControlType, MakeCritical, RawControl};
use ldap3::exop::{self, Exop};
use proptest::collection::vec;
use proptest::prelude::*;
use serde::{Deserialize, Serialize};

const MAXI: i32 = i32::MAX;

fn size_strat() -> BoxedStrategy<i32> {
    prop_oneof![3 => 0i32..1000, 2 => proptest::sample::select(&[0, 1, 127, 128, 255, 256, 32767, 32768, 65535, 65536, 8388607, 8388608, MAXI - 1, MAXI][..]), 2 => 0i32..=MAXI].boxed()
}

fn cookie() -> BoxedStrategy<Vec<u8>> {
    // any content; lengths around 128 / 256 make the value's own length or the enclosing SEQUENCE's cross a BER length-form boundary
    prop_oneof![8 => gens::blob(24), 1 => (prop_oneof![116usize..=132, 244usize..=260], any::<u8>()).prop_map(|(n, b)| vec![b; n])].boxed()
}

// ------------------------------------------------------------------ request side

#[derive(Clone, Debug, Serialize, Deserialize)]
pub enum ReqCase {
    Paged { size: i32, cookie: Vec<u8>, critical: bool },
    SyncRequest { persist: bool, cookie: Option<Vec<u8>>, reload_hint: bool, critical: bool },
    PreRead { attrs: Vec<String> },
    PostRead { attrs: Vec<String> },
    Assertion { f: Filter, s: String, critical: bool },
    MatchedValues { items: Vec<Filter>, s: String },
    ProxyAuth { authzid: String },
    TxnSpec { id: String },
    ManageDsaIt { critical: bool },
    RelaxRules { critical: bool },
    WhoAmI,
    PasswordModify { user: Option<String>, old: Option<String>, new: Option<String> },
    StartTxn,
    EndTxn { id: String, commit: bool },
}

fn utf8_filter(depth: u32) -> BoxedStrategy<(Filter, String)> {
    c08::valid_filter_string(depth, 3).prop_map(|(f, s)| (f, String::from_utf8(s).expect("rendered filters are UTF-8"))).boxed()
}

fn req_strat(_: &Ctx) -> BoxedStrategy<ReqCase> {
    let attrs = || vec(prop_oneof![gens::descr(), gens::oid(), gens::text(6)], 0..6);
    let mv = vec(c08::item().prop_filter("no :dn in matched values", |f| !matches!(f, Filter::Ext { dn: true, .. })), 1..4).prop_flat_map(|items| {
        let n = items.len();
        (Just(items), vec(c08::render_opts(), n)).prop_map(|(items, ros)| {
            let mut s = b"(".to_vec();
            for (f, r) in items.iter().zip(ros.iter()) {
                let mut r = r.clone();
                r.bare_top = false;
                s.extend_from_slice(&c08::render(f, &r));
            }
            s.push(b')');
            ReqCase::MatchedValues { items, s: String::from_utf8(s).expect("utf8") }
        })
    });
    prop_oneof![
        3 => (size_strat(), cookie(), any::<bool>()).prop_map(|(size, cookie, critical)| ReqCase::Paged { size, cookie, critical }),
        3 => (any::<bool>(), proptest::option::of(cookie()), any::<bool>(), any::<bool>()).prop_map(|(persist, cookie, reload_hint, critical)| ReqCase::SyncRequest { persist, cookie, reload_hint, critical }),
        1 => attrs().prop_map(|attrs| ReqCase::PreRead { attrs }),
        1 => attrs().prop_map(|attrs| ReqCase::PostRead { attrs }),
        3 => (utf8_filter(3), any::<bool>()).prop_map(|((f, s), critical)| ReqCase::Assertion { f, s, critical }),
        3 => mv,
        1 => gens::text(16).prop_map(|authzid| ReqCase::ProxyAuth { authzid }),
        1 => gens::text(16).prop_map(|id| ReqCase::TxnSpec { id }),
        1 => any::<bool>().prop_map(|critical| ReqCase::ManageDsaIt { critical }),
        1 => any::<bool>().prop_map(|critical| ReqCase::RelaxRules { critical }),
        1 => Just(ReqCase::WhoAmI),
        3 => (proptest::option::of(gens::long_text()), proptest::option::of(gens::text(12)), proptest::option::of(gens::text(12))).prop_map(|(user, old, new)| ReqCase::PasswordModify { user, old, new }),
        1 => Just(ReqCase::StartTxn),
        2 => (gens::text(16), any::<bool>()).prop_map(|(id, commit)| ReqCase::EndTxn { id, commit }),
    ]
    .boxed()
}

fn raw_to_ctl(rc: RawControl) -> Ctl {
    Ctl { oid: rc.ctype, crit: rc.crit, val: rc.val }
}

fn val_tlv(val: &Option<Vec<u8>>, what: &str) -> Result<Tlv, Fail> {
    let v = val.as_ref().ok_or_else(|| Fail::new("c19:req-value-missing", format!("{}: control/exop value absent", what)))?;
    ber::parse_all(v).map_err(|e| Fail::new("c19:req-value-ber", format!("{}: value {} is not one BER element: {}", what, ber::hex(v), e)))
}

fn strict_ostr(t: &Tlv) -> Option<Vec<u8>> {
    if t.is(UNIVERSAL, 4) {
        t.as_prim().map(|v| v.to_vec())
    } else {
        None
    }
}

fn strict_int(t: &Tlv, tag: u8) -> Option<i64> {
    if !t.is(UNIVERSAL, tag) {
        return None;
    }
    let c = t.as_prim()?;
    if !ber::int_is_minimal(c) {
        return None;
    }
    ber::int_value(c)
}

pub fn check_req(c: &ReqCase, obs: &mut Obs) -> Result<(), Fail> {
    let built: Result<Result<Ctl, (Option<String>, Option<Vec<u8>>)>, String> = guard(|| match c.clone() {
        ReqCase::Paged { size, cookie, critical } => {
            let p = controls::PagedResults { size, cookie };
            Ok(raw_to_ctl(if critical { p.critical().into() } else { p.into() }))
        }
        ReqCase::SyncRequest { persist, cookie, reload_hint, critical } => {
            let s = controls::SyncRequest { mode: if persist { controls::RefreshMode::RefreshAndPersist } else { controls::RefreshMode::RefreshOnly }, cookie, reload_hint };
            Ok(raw_to_ctl(if critical { s.critical().into() } else { s.into() }))
        }
        ReqCase::PreRead { attrs } => Ok(raw_to_ctl(controls::PreRead::new(attrs))),
        ReqCase::PostRead { attrs } => Ok(raw_to_ctl(controls::PostRead::new(attrs))),
        ReqCase::Assertion { s, critical, .. } => Ok(raw_to_ctl(if critical { controls::Assertion { filter: s }.critical().into() } else { controls::Assertion::new(s) })),
        ReqCase::MatchedValues { s, .. } => Ok(raw_to_ctl(controls::MatchedValues::new(s))),
        ReqCase::ProxyAuth { authzid } => Ok(raw_to_ctl(controls::ProxyAuth { authzid }.into())),
        ReqCase::TxnSpec { id } => Ok(raw_to_ctl(controls::TxnSpec { txn_id: &id }.into())),
        ReqCase::ManageDsaIt { critical } => Ok(raw_to_ctl(if critical { controls::ManageDsaIt.critical().into() } else { controls::ManageDsaIt.into() })),
        ReqCase::RelaxRules { critical } => Ok(raw_to_ctl(if critical { controls::RelaxRules.critical().into() } else { controls::RelaxRules.into() })),
        ReqCase::WhoAmI => {
            let e: Exop = exop::WhoAmI.into();
            Err((e.name, e.val))
        }
        ReqCase::PasswordModify { user, old, new } => {
            let e: Exop = exop::PasswordModify { user_id: user.as_deref(), old_pass: old.as_deref(), new_pass: new.as_deref() }.into();
            Err((e.name, e.val))
        }
        ReqCase::StartTxn => {
            let e: Exop = exop::StartTxn.into();
            Err((e.name, e.val))
        }
        ReqCase::EndTxn { id, commit } => {
            let e: Exop = exop::EndTxn { txn_id: &id, commit }.into();
            Err((e.name, e.val))
        }
    });
    let built = match built {
        Ok(b) => b,
        Err(p) => fail!(panic_sig(&p), "building {:?} panicked: {}", c, p),
    };
    let want = |ctl: &Ctl, oid: &str, crit: bool| -> Result<(), Fail> {
        ensure!(ctl.oid == oid, "c19:req-oid", "{:?}: OID {:?}, RFC says {:?}", c, ctl.oid, oid);
        ensure!(ctl.crit == crit, "c19:req-criticality", "{:?}: criticality {}, expected {}", c, ctl.crit, crit);
        Ok(())
    };
    let want_exop = |e: &(Option<String>, Option<Vec<u8>>), oid: &str| -> Result<(), Fail> {
        ensure!(e.0.as_deref() == Some(oid), "c19:req-oid", "{:?}: exop name {:?}, RFC says {:?}", c, e.0, oid);
        Ok(())
    };
    let mut nt = false;
    match (c, &built) {
        (ReqCase::Paged { size, cookie, critical }, Ok(ctl)) => {
            want(ctl, "1.2.840.113556.1.4.319", *critical)?;
            let t = val_tlv(&ctl.val, "PagedResults")?;
            let k = t.as_cons().filter(|_| t.is(UNIVERSAL, 16)).ok_or_else(|| Fail::new("c19:req-paged", "value is not a SEQUENCE"))?;
            ensure!(k.len() == 2 && strict_int(&k[0], 2) == Some(*size as i64) && strict_ostr(&k[1]).as_deref() == Some(&cookie[..]), "c19:req-paged", "PagedResults{{{}, {}}} encoded as {}", size, ber::hex(cookie), ber::hex(ctl.val.as_ref().unwrap()));
            nt = cookie.len() >= 128 || *size >= 128;
        }
        (ReqCase::SyncRequest { persist, cookie, reload_hint, critical }, Ok(ctl)) => {
            want(ctl, "1.3.6.1.4.1.4203.1.9.1.1", *critical)?;
            let t = val_tlv(&ctl.val, "SyncRequest")?;
            let k = t.as_cons().filter(|_| t.is(UNIVERSAL, 16)).ok_or_else(|| Fail::new("c19:req-sync", "value is not a SEQUENCE"))?;
            let mut want_k = vec![Tlv::enumerated(if *persist { 3 } else { 1 })];
            if let Some(ck) = cookie {
                want_k.push(Tlv::octets(ck.clone()));
            }
            if *reload_hint {
                want_k.push(Tlv::boolean(true));
            }
            ensure!(k == &want_k[..], "c19:req-sync", "SyncRequest {:?} encoded as {}; RFC 4533 wants {}", c, ber::hex(ctl.val.as_ref().unwrap()), ber::hex(&ber::encode(&Tlv::seq(want_k.clone()))));
            nt = cookie.is_some() as u8 + *reload_hint as u8 + *persist as u8 >= 2;
        }
        (ReqCase::PreRead { attrs }, Ok(ctl)) | (ReqCase::PostRead { attrs }, Ok(ctl)) => {
            let oid = if matches!(c, ReqCase::PreRead { .. }) { "1.3.6.1.1.13.1" } else { "1.3.6.1.1.13.2" };
            want(ctl, oid, false)?;
            let t = val_tlv(&ctl.val, "ReadEntry")?;
            let want_t = Tlv::seq(attrs.iter().map(|a| Tlv::octets(a.as_bytes().to_vec())).collect());
            ensure!(t == want_t, "c19:req-readentry", "attribute list {:?} encoded as {}", attrs, ber::hex(ctl.val.as_ref().unwrap()));
            nt = attrs.len() >= 2;
        }
        (ReqCase::Assertion { f, critical, s }, Ok(ctl)) => {
            want(ctl, "1.3.6.1.1.12", *critical)?;
            let t = val_tlv(&ctl.val, "Assertion")?;
            let got = filter::decode_filter(&t).map_err(|e| Fail::new("c19:req-assertion", format!("Assertion({:?}) value is not a Filter: {}", s, e)))?;
            ensure!(got.normalized() == f.normalized(), "c19:req-assertion", "Assertion({:?}) carries {:?}, expected {:?}", s, got, f);
            nt = f.depth() >= 2;
        }
        (ReqCase::MatchedValues { items, s }, Ok(ctl)) => {
            want(ctl, "1.2.826.0.1.3344810.2.3", false)?;
            let t = val_tlv(&ctl.val, "MatchedValues")?;
            let k = t.as_cons().filter(|_| t.is(UNIVERSAL, 16)).ok_or_else(|| Fail::new("c19:req-matchedvalues", "value is not a SEQUENCE OF"))?;
            let got = k.iter().map(filter::decode_filter).collect::<Result<Vec<_>, _>>().map_err(|e| Fail::new("c19:req-matchedvalues", format!("MatchedValues({:?}): {}", s, e)))?;
            ensure!(&got == items, "c19:req-matchedvalues", "MatchedValues({:?}) carries {:?}, expected {:?}", s, got, items);
            nt = items.len() >= 2;
        }
        (ReqCase::ProxyAuth { authzid }, Ok(ctl)) => {
            want(ctl, "2.16.840.1.113730.3.4.18", true)?;
            ensure!(ctl.val.as_deref() == Some(authzid.as_bytes()), "c19:req-proxyauth", "authzid {:?} carried as {:?}", authzid, ctl.val);
        }
        (ReqCase::TxnSpec { id }, Ok(ctl)) => {
            want(ctl, "1.3.6.1.1.21.2", true)?;
            ensure!(ctl.val.as_deref() == Some(id.as_bytes()), "c19:req-txnspec", "txn id {:?} carried as {:?}", id, ctl.val);
        }
        (ReqCase::ManageDsaIt { critical }, Ok(ctl)) => {
            want(ctl, "2.16.840.1.113730.3.4.2", *critical)?;
            ensure!(ctl.val.is_none(), "c19:req-valueless", "ManageDsaIT must have no value");
        }
        (ReqCase::RelaxRules { critical }, Ok(ctl)) => {
            want(ctl, "1.3.6.1.4.1.4203.666.5.12", *critical)?;
            ensure!(ctl.val.is_none(), "c19:req-valueless", "RelaxRules must have no value");
        }
        (ReqCase::WhoAmI, Err(e)) => {
            want_exop(e, "1.3.6.1.4.1.4203.1.11.3")?;
            ensure!(e.1.is_none(), "c19:req-valueless", "WhoAmI must have no value");
        }
        (ReqCase::StartTxn, Err(e)) => {
            want_exop(e, "1.3.6.1.1.21.1")?;
            ensure!(e.1.is_none(), "c19:req-valueless", "StartTxn must have no value");
        }
        (ReqCase::PasswordModify { user, old, new }, Err(e)) => {
            want_exop(e, "1.3.6.1.4.1.4203.1.11.1")?;
            let mut want_k = Vec::new();
            for (i, f) in [user, old, new].iter().enumerate() {
                if let Some(s) = f {
                    want_k.push(Tlv::prim(CONTEXT, i as u8, s.as_bytes().to_vec()));
                }
            }
            match &e.1 {
                None => ensure!(want_k.is_empty(), "c19:req-passmod", "PasswordModify {:?}: value absent", c),
                Some(_) => {
                    let t = val_tlv(&e.1, "PasswordModify")?;
                    ensure!(t == Tlv::seq(want_k.clone()), "c19:req-passmod", "PasswordModify {:?} encoded as {}", c, ber::hex(e.1.as_ref().unwrap()));
                }
            }
            nt = want_k.len() >= 2;
        }
        (ReqCase::EndTxn { id, commit }, Err(e)) => {
            want_exop(e, "1.3.6.1.1.21.3")?;
            let t = val_tlv(&e.1, "EndTxn")?;
            let mut want_k = Vec::new();
            if !*commit {
                want_k.push(Tlv::boolean(false));
            }
            want_k.push(Tlv::octets(id.as_bytes().to_vec()));
            ensure!(t == Tlv::seq(want_k), "c19:req-endtxn", "EndTxn {:?} encoded as {}", c, ber::hex(e.1.as_ref().unwrap()));
            nt = !*commit;
        }
        _ => fail!("harness-c19", "builder returned the wrong kind for {:?}", c),
    }
    obs.label(format!("req:{}", format!("{:?}", c).split(|ch: char| !ch.is_alphanumeric()).next().unwrap_or("")));
    if nt {
        obs.nontrivial(format!("{:?}", c));
    }
    Ok(())
}

// ------------------------------------------------------------------ response side

#[derive(Clone, Debug, Serialize, Deserialize)]
pub enum BoolForm {
    Absent,
    False,
    TrueFF,
    True01,
}

impl BoolForm {
    fn value(&self, default: bool) -> bool {
        match self {
            BoolForm::Absent => default,
            BoolForm::False => false,
            _ => true,
        }
    }
    fn push(&self, k: &mut Vec<Tlv>) {
        match self {
            BoolForm::Absent => {}
            BoolForm::False => k.push(Tlv::boolean(false)),
            BoolForm::TrueFF => k.push(Tlv::boolean(true)),
            BoolForm::True01 => k.push(Tlv::prim(UNIVERSAL, 1, vec![0x01])),
        }
    }
}

fn bool_form() -> BoxedStrategy<BoolForm> {
    prop_oneof![Just(BoolForm::Absent), Just(BoolForm::False), Just(BoolForm::TrueFF), Just(BoolForm::True01)].boxed()
}

#[derive(Clone, Debug, Serialize, Deserialize)]
pub enum RespCase {
    Paged { size: i32, cookie: Vec<u8> },
    SyncState { state: u8, uuid: Vec<u8>, cookie: Option<Vec<u8>> },
    SyncDone { cookie: Option<Vec<u8>>, refresh_deletes: BoolForm },
    SyncInfoNewCookie { cookie: Vec<u8> },
    SyncInfoRefresh { present: bool, cookie: Option<Vec<u8>>, done: BoolForm },
    SyncInfoIdSet { cookie: Option<Vec<u8>>, refresh_deletes: BoolForm, uuids: Vec<Vec<u8>> },
    ReadEntry { post: bool, entry: Entry },
    WhoAmI { authzid: String },
    PasswordModify { gen: String },
    StartTxn { id: String },
}

fn resp_strat(_: &Ctx) -> BoxedStrategy<(RespCase, Vec<u8>)> {
    let uuid = || prop_oneof![4 => vec(any::<u8>(), 16), 1 => gens::blob(20)];
    let case = prop_oneof![
        3 => (size_strat(), cookie()).prop_map(|(size, cookie)| RespCase::Paged { size, cookie }),
        3 => (0u8..4, uuid(), proptest::option::of(cookie())).prop_map(|(state, uuid, cookie)| RespCase::SyncState { state, uuid, cookie }),
        3 => (proptest::option::of(cookie()), bool_form()).prop_map(|(cookie, refresh_deletes)| RespCase::SyncDone { cookie, refresh_deletes }),
        1 => cookie().prop_map(|cookie| RespCase::SyncInfoNewCookie { cookie }),
        3 => (any::<bool>(), proptest::option::of(cookie()), bool_form()).prop_map(|(present, cookie, done)| RespCase::SyncInfoRefresh { present, cookie, done }),
        3 => (proptest::option::of(cookie()), bool_form(), proptest::collection::hash_set(vec(any::<u8>(), 16), 0..5)).prop_map(|(cookie, refresh_deletes, uuids)| RespCase::SyncInfoIdSet { cookie, refresh_deletes, uuids: uuids.into_iter().collect() }),
        3 => (any::<bool>(), c15::entry(5, 4)).prop_map(|(post, entry)| RespCase::ReadEntry { post, entry }),
        1 => gens::text(20).prop_map(|authzid| RespCase::WhoAmI { authzid }),
        1 => gens::long_text().prop_map(|gen| RespCase::PasswordModify { gen }),
        1 => gens::text(20).prop_map(|id| RespCase::StartTxn { id }),
    ];
    (case, gens::forms()).boxed()
}

fn opt_cookie(k: &mut Vec<Tlv>, c: &Option<Vec<u8>>) {
    if let Some(c) = c {
        k.push(Tlv::octets(c.clone()));
    }
}

pub fn check_resp(case: &(RespCase, Vec<u8>), obs: &mut Obs) -> Result<(), Fail> {
    let (c, forms) = case;
    let enc = |t: &Tlv| ber::encode_forms(t, forms);
    let nonmin = forms.iter().any(|f| *f != 0);
    let mut nt = nonmin;
    let r: Result<Result<(), Fail>, String> = guard(|| -> Result<(), Fail> {
        match c {
            RespCase::Paged { size, cookie } => {
                let v = enc(&Tlv::seq(vec![Tlv::int(*size as i64), Tlv::octets(cookie.clone())]));
                let raw = RawControl { ctype: "1.2.840.113556.1.4.319".into(), crit: false, val: Some(v) };
                let p: controls::PagedResults = raw.parse();
                ensure!(p.size == *size && &p.cookie == cookie, "c19:resp-paged", "PagedResults{{{}, {}}} parsed as {{{}, {}}}", size, ber::hex(cookie), p.size, ber::hex(&p.cookie));
            }
            RespCase::SyncState { state, uuid, cookie } => {
                let mut k = vec![Tlv::enumerated(*state as i64), Tlv::octets(uuid.clone())];
                opt_cookie(&mut k, cookie);
                let raw = RawControl { ctype: "1.3.6.1.4.1.4203.1.9.1.2".into(), crit: false, val: Some(enc(&Tlv::seq(k))) };
                let p: controls::SyncState = raw.parse();
                let st = match p.state {
                    controls::EntryState::Present => 0,
                    controls::EntryState::Add => 1,
                    controls::EntryState::Modify => 2,
                    controls::EntryState::Delete => 3,
                };
                ensure!(st == *state && &p.entry_uuid == uuid && &p.cookie == cookie, "c19:resp-syncstate", "SyncState {:?} parsed as {:?}", c, p);
            }
            RespCase::SyncDone { cookie, refresh_deletes } => {
                let mut k = Vec::new();
                opt_cookie(&mut k, cookie);
                refresh_deletes.push(&mut k);
                let raw = RawControl { ctype: "1.3.6.1.4.1.4203.1.9.1.3".into(), crit: false, val: Some(enc(&Tlv::seq(k))) };
                let p: controls::SyncDone = raw.parse();
                ensure!(&p.cookie == cookie && p.refresh_deletes == refresh_deletes.value(false), "c19:resp-syncdone", "SyncDone {:?} parsed as {:?}", c, p);
            }
            RespCase::SyncInfoNewCookie { .. } | RespCase::SyncInfoRefresh { .. } | RespCase::SyncInfoIdSet { .. } => {
                let inner = match c {
                    RespCase::SyncInfoNewCookie { cookie } => Tlv::prim(CONTEXT, 0, cookie.clone()),
                    RespCase::SyncInfoRefresh { present, cookie, done } => {
                        let mut k = Vec::new();
                        opt_cookie(&mut k, cookie);
                        done.push(&mut k);
                        Tlv::cons(CONTEXT, if *present { 2 } else { 1 }, k)
                    }
                    RespCase::SyncInfoIdSet { cookie, refresh_deletes, uuids } => {
                        let mut k = Vec::new();
                        opt_cookie(&mut k, cookie);
                        refresh_deletes.push(&mut k);
                        k.push(Tlv::set(uuids.iter().map(|u| Tlv::octets(u.clone())).collect()));
                        Tlv::cons(CONTEXT, 3, k)
                    }
                    _ => unreachable!(),
                };
                let value = enc(&inner);
                let msg = Tlv::cons(APPLICATION, 25, vec![Tlv::prim(CONTEXT, 0, b"1.3.6.1.4.1.4203.1.9.1.4".to_vec()), Tlv::prim(CONTEXT, 1, value)]);
                let bytes = enc(&msg);
                let st = match lber::parse::parse_tag(&bytes) {
                    Ok((rest, st)) if rest.is_empty() => st,
                    _ => fail!("c19:resp-syncinfo", "intermediate response not parsed"),
                };
                let p = controls::parse_syncinfo(ldap3::ResultEntry::new(st));
                let ok = match (c, &p) {
                    (RespCase::SyncInfoNewCookie { cookie }, controls::SyncInfo::NewCookie(ck)) => ck == cookie,
                    (RespCase::SyncInfoRefresh { present: false, cookie, done }, controls::SyncInfo::RefreshDelete { cookie: ck, refresh_done }) => ck == cookie && *refresh_done == done.value(true),
                    (RespCase::SyncInfoRefresh { present: true, cookie, done }, controls::SyncInfo::RefreshPresent { cookie: ck, refresh_done }) => ck == cookie && *refresh_done == done.value(true),
                    (RespCase::SyncInfoIdSet { cookie, refresh_deletes, uuids }, controls::SyncInfo::SyncIdSet { cookie: ck, refresh_deletes: rd, sync_uuids }) => {
                        ck == cookie && *rd == refresh_deletes.value(false) && sync_uuids.len() == uuids.len() && uuids.iter().all(|u| sync_uuids.contains(u))
                    }
                    _ => false,
                };
                ensure!(ok, "c19:resp-syncinfo", "SyncInfo {:?} parsed as {:?}", c, p);
            }
            RespCase::ReadEntry { post, entry } => {
                let v = enc(&entry.to_tlv());
                let raw = RawControl { ctype: if *post { "1.3.6.1.1.13.2" } else { "1.3.6.1.1.13.1" }.into(), crit: false, val: Some(v) };
                let p: controls::ReadEntryResp = raw.parse();
                c15::judge_maps(entry, &p.attrs, &p.bin_attrs).map_err(|f| Fail::new(format!("c19:resp-readentry/{}", f.sig), f.msg))?;
            }
            RespCase::WhoAmI { authzid } => {
                let e = Exop { name: None, val: Some(authzid.as_bytes().to_vec()) };
                let p: exop::WhoAmIResp = e.parse();
                ensure!(&p.authzid == authzid, "c19:resp-whoami", "authzid {:?} parsed as {:?}", authzid, p.authzid);
            }
            RespCase::PasswordModify { gen } => {
                let v = enc(&Tlv::seq(vec![Tlv::prim(CONTEXT, 0, gen.as_bytes().to_vec())]));
                let e = Exop { name: None, val: Some(v) };
                let p: exop::PasswordModifyResp = e.parse();
                ensure!(&p.gen_pass == gen, "c19:resp-passmod", "genPasswd {:?} parsed as {:?}", gen, p.gen_pass);
            }
            RespCase::StartTxn { id } => {
                let e = Exop { name: Some("1.3.6.1.1.21.1".into()), val: Some(id.as_bytes().to_vec()) };
                let p: exop::StartTxnResp = e.parse();
                ensure!(&p.txn_id == id, "c19:resp-starttxn", "txn id {:?} parsed as {:?}", id, p.txn_id);
            }
        }
        Ok(())
    });
    match r {
        Err(p) => fail!(panic_sig(&p), "parsing well-formed response value {:?} (forms {:?}) panicked: {}", c, forms, p),
        Ok(r) => r?,
    }
    match c {
        RespCase::Paged { cookie, .. } => nt |= cookie.len() >= 128,
        RespCase::SyncState { cookie, .. } => nt |= cookie.is_some(),
        RespCase::SyncDone { cookie, refresh_deletes } => nt |= cookie.is_some() && !matches!(refresh_deletes, BoolForm::Absent),
        RespCase::SyncInfoRefresh { cookie, done, .. } => nt |= cookie.is_some() || !matches!(done, BoolForm::Absent),
        RespCase::SyncInfoIdSet { uuids, .. } => nt |= uuids.len() >= 2,
        RespCase::ReadEntry { entry, .. } => nt |= entry.attrs.len() >= 2,
        _ => {}
    }
    obs.label(format!("resp:{}", format!("{:?}", c).split(|ch: char| !ch.is_alphanumeric()).next().unwrap_or("")));
    if nt {
        obs.nontrivial(format!("{:?}{:?}", c, forms));
    }
    Ok(())
}

// ------------------------------------------------------------------ envelope

pub const KNOWN_TYPES: &[(&str, &str)] = &[
    ("1.2.840.113556.1.4.319", "PagedResults"),
    ("1.3.6.1.1.13.2", "PostReadResp"),
    ("1.3.6.1.1.13.1", "PreReadResp"),
    ("1.3.6.1.4.1.4203.1.9.1.3", "SyncDone"),
    ("1.3.6.1.4.1.4203.1.9.1.2", "SyncState"),
    ("2.16.840.1.113730.3.4.2", "ManageDsaIt"),
    ("1.2.826.0.1.3344810.2.3", "MatchedValues"),
];

pub fn known_type_name(t: Option<ControlType>) -> Option<&'static str> {
    t.map(|t| match t {
        ControlType::PagedResults => "PagedResults",
        ControlType::PostReadResp => "PostReadResp",
        ControlType::PreReadResp => "PreReadResp",
        ControlType::SyncDone => "SyncDone",
        ControlType::SyncState => "SyncState",
        ControlType::ManageDsaIt => "ManageDsaIt",
        ControlType::MatchedValues => "MatchedValues",
        _ => "other",
    })
}

pub fn ctl_oid() -> BoxedStrategy<String> {
    prop_oneof![
        3 => gens::oid(),
        3 => proptest::sample::select(KNOWN_TYPES).prop_map(|(o, _)| o.to_string()),
        1 => gens::text(8),
        1 => Just(String::new()),
    ]
    .boxed()
}

/// List lengths: usually 0..=max, rarely a long list (RFC 4511 sets no bound on the number of controls), biased to
/// the usual capacity boundaries
fn list_len(max: usize) -> BoxedStrategy<usize> {
    prop_oneof![16 => 0..=max, 1 => proptest::sample::select(&[15usize, 16, 17, 31, 32, 33, 34, 63, 64, 65, 100][..]), 1 => 6usize..=80].boxed()
}

pub fn req_controls(max: usize) -> BoxedStrategy<Vec<Ctl>> {
    list_len(max).prop_flat_map(|n| vec((ctl_oid(), any::<bool>(), proptest::option::of(gens::blob(16))).prop_map(|(oid, crit, val)| Ctl { oid, crit, val }), n..=n)).boxed()
}

pub fn resp_controls(max: usize) -> BoxedStrategy<Vec<RCtl>> {
    let cf = prop_oneof![Just(CritForm::Absent), Just(CritForm::False), Just(CritForm::True)];
    list_len(max).prop_flat_map(move |n| vec((ctl_oid(), cf.clone(), proptest::option::of(gens::blob(16))).prop_map(|(oid, crit, val)| RCtl { oid, crit, val }), n..=n)).boxed()
}

/// Compare the library's view of a response control list with the model.
pub fn compare_resp_controls(got: &[controls::Control], sent: &[RCtl]) -> Result<(), Fail> {
    ensure!(got.len() == sent.len(), "c19:env-count", "{} controls delivered, {} sent", got.len(), sent.len());
    for (g, s) in got.iter().zip(sent) {
        let want = s.as_ctl();
        let gc = Ctl { oid: g.1.ctype.clone(), crit: g.1.crit, val: g.1.val.clone() };
        ensure!(gc == want, "c19:env-control", "control delivered as {:?}, server sent {:?}", gc, s);
        let known = KNOWN_TYPES.iter().find(|(o, _)| *o == s.oid).map(|(_, n)| *n);
        ensure!(known_type_name(g.0) == known, "c19:env-known-type", "control {:?} tagged {:?}, expected {:?}", s.oid, known_type_name(g.0), known);
    }
    Ok(())
}

#[derive(Clone, Debug, Serialize, Deserialize)]
pub struct EnvCase {
    id: i32,
    req: Option<Vec<Ctl>>,
    resp: Option<Vec<RCtl>>,
    forms: Vec<u8>,
}

fn env_strat(_: &Ctx) -> BoxedStrategy<EnvCase> {
    (1i32..=i32::MAX, proptest::option::of(req_controls(5)), proptest::option::of(resp_controls(5)), gens::forms()).prop_map(|(id, req, resp, forms)| EnvCase { id, req, resp, forms }).boxed()
}

pub fn check_env(c: &EnvCase, obs: &mut Obs) -> Result<(), Fail> {
    // request direction: library encoder -> harness strict decoder
    let raw: Option<Vec<RawControl>> = c.req.as_ref().map(|v| v.iter().map(|x| RawControl { ctype: x.oid.clone(), crit: x.crit, val: x.val.clone() }).collect());
    let del = lber::structures::Tag::OctetString(lber::structures::OctetString { id: 10, class: lber::common::TagClass::Application, inner: b"cn=x".to_vec() });
    let mut buf = bytes::BytesMut::new();
    match guard(|| ldap3::verif::verif_encode(c.id, del, raw, &mut buf)) {
        Err(p) => fail!(panic_sig(&p), "encoder panicked: {}", p),
        Ok(Err(e)) => fail!("c19:env-encode", "encoder failed: {}", e),
        Ok(Ok(())) => {}
    }
    let t = ber::parse_all(&buf).map_err(|e| Fail::new("c19:env-encode", format!("encoded message unreadable: {}", e)))?;
    let m = model::decode_request(&t).map_err(|e| Fail::new("c19:env-request-not-rfc4511", format!("{} ({})", e, ber::hex(&buf))))?;
    ensure!(m.id == c.id as i64, "c19:env-id", "message id {} encoded as {}", c.id, m.id);
    ensure!(m.ctrls == c.req, "c19:env-request-controls", "control list {:?} travelled as {:?}", c.req, m.ctrls);
    // response direction: harness encoder -> library decoder
    let msg = RespMsg { id: c.id as i64, resp: Resp::result(11, Res::ok("x")), ctrls: c.resp.clone() };
    let bytes = msg.encode_forms(&c.forms);
    let mut b = bytes::BytesMut::from(&bytes[..]);
    let d = match guard(|| ldap3::verif::verif_decode(&mut b)) {
        Err(p) => fail!(panic_sig(&p), "decoder panicked on a well-formed response with controls {:?}: {}", c.resp, p),
        Ok(d) => d,
    };
    match d {
        Ok(Some((id, (tag, ctrls)))) => {
            ensure!(id == c.id, "c19:env-id", "response id {} decoded as {}", c.id, id);
            ensure!(b.is_empty(), "c19:env-decode", "decoder left {} bytes", b.len());
            let empty = vec![];
            compare_resp_controls(&ctrls, c.resp.as_ref().unwrap_or(&empty))?;
            if let lber::structures::Tag::StructureTag(st) = tag {
                ensure!(from_lib(&st) == Some(msg.resp.to_tlv()), "c19:env-decode", "protocolOp altered by the envelope decoder");
            } else {
                fail!("c19:env-decode", "decoder returned a non-structure tag");
            }
        }
        other => fail!("c19:env-decode", "well-formed response not decoded: {:?}", other.map(|o| o.map(|_| "some"))),
    }
    let n = c.req.as_ref().map(|v| v.len()).unwrap_or(0).max(c.resp.as_ref().map(|v| v.len()).unwrap_or(0));
    if n >= 2 {
        obs.nontrivial((format!("{:?}", c.req), format!("{:?}", c.resp)));
    }
    if c.resp.as_ref().map(|v| v.iter().any(|x| x.crit == CritForm::False)).unwrap_or(false) {
        obs.label("explicit-false-criticality");
    }
    Ok(())
}

pub fn property() -> Property {
    Property {
        id: "C19",
        level: "exploration",
        rule: "lanes: request (every listed request control / extended request with generated field values over the RFC range: sizes 0..2^31-1 biased to octet boundaries, cookies of any content, each optional field present/absent, attribute lists, C08-generated filters, .critical() where offered -> OID, criticality and BER value decoded by the harness must equal the RFC model); response (well-formed response values built from a model by the harness writer with generated BER length forms and BOOLEAN encodings: PagedResults, SyncState, SyncDone, SyncInfo x4, Pre/PostRead entry, WhoAmI, PasswordModify, StartTxn -> parsed struct == model); envelope (control lists of 0-5 through the message encoder/decoder in both directions; absent criticality = false, absent value = None, known-OID tagging). Non-trivial: >=2 optional fields in a non-default combination, a value/cookie >= 128 bytes, a list of >=2, a depth>=2 filter, or a non-minimal length form. Distinct = debug rendering of the case.",
        assumptions: &[
            "RFC facts listed in DESIGN.md §3 C19 (2696, 4533, 4527, 4528, 3876, 4370, 5805, 3296, 3062, 4532)",
            "response values are generated inside what the result structs can represent (UTF-8 authzid / txn id / generated password; controls parsed with RawControl::parse always carry a value)",
            "MatchedValues filters are generated without ':dn'; PasswordModify with no field may have an absent value or an empty SEQUENCE",
        ],
        lanes: vec![
            Box::new(PLane { name: "request", cases: |t| t.pick(4_000, 100_000), strat: req_strat, check: check_req }),
            Box::new(PLane { name: "response", cases: |t| t.pick(4_000, 100_000), strat: resp_strat, check: check_resp }),
            Box::new(PLane { name: "envelope", cases: |t| t.pick(3_000, 60_000), strat: env_strat, check: check_env }),
        ],
        workers: (8, 16),
    }
}
