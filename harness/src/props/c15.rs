//! C15 — SearchEntry::construct keeps every attribute value and classifies it correctly.

use crate::ber;
use crate::gens;
use crate::model::Entry;
use crate::runner::{guard, panic_sig, Ctx, Fail, Obs, PLane, Property};
use crate::{ensure, fail};
use ldap3::{ResultEntry, SearchEntry};
use proptest::collection::vec;
use proptest::prelude::*;
use serde::{Deserialize, Serialize};

#[derive(Clone, Debug, Serialize, Deserialize)]
pub struct EntryCase {
    pub entry: Entry,
    pub forms: Vec<u8>,
}

const INVALID_UTF8: &[&[u8]] = &[&[0xff], &[0xc3, 0x28], &[0x80], &[b'a', 0xe2, 0x82], &[0xed, 0xa0, 0x80], &[0xf8, 0x88, 0x80, 0x80, 0x80]];

pub fn value() -> BoxedStrategy<Vec<u8>> {
    prop_oneof![
        4 => gens::text(8).prop_map(|s| s.into_bytes()),
        // valid UTF-8 that looks suspicious: the replacement character itself, a BOM, NUL, noncharacters
        1 => (gens::text(3), proptest::sample::select(&["\u{fffd}", "\u{feff}", "\u{0}", "\u{ffff}", "\u{10ffff}", "a\u{fffd}b"][..]), gens::text(3)).prop_map(|(a, m, b)| format!("{}{}{}", a, m, b).into_bytes()),
        1 => Just(vec![]),
        2 => vec(any::<u8>(), 1..6),
        1 => proptest::sample::select(INVALID_UTF8).prop_map(|b| b.to_vec()),
        1 => (proptest::sample::select(&[127u32, 128, 256][..]), any::<u8>()).prop_map(|(n, b)| vec![b; n as usize]),
        // long VALID text whose multi-byte character sits on / next to a power-of-two block boundary (validity is a
        // property of the whole value, however an implementation may chunk it)
        1 => (proptest::sample::select(&[64usize, 256, 512, 1024, 2048, 4096, 8192, 16384, 65536][..]), 1usize..=3, 0usize..=4, proptest::sample::select(&["\u{e9}", "\u{20ac}", "\u{1f600}", "\u{10ffff}"][..]), gens::text(6))
            .prop_map(|(block, m, back, ch, tail)| {
                let mut v = vec![b'a'; block * m - back.min(block * m)];
                v.extend_from_slice(ch.as_bytes());
                v.extend_from_slice(tail.as_bytes());
                v
            }),
    ]
    .boxed()
}

pub fn entry(max_attrs: usize, max_vals: usize) -> BoxedStrategy<Entry> {
    // attribute descriptions: bare, or with options (;binary in any letter case, language tags, several options)
    let opt = prop_oneof![3 => Just(String::new()), 1 => proptest::sample::select(&[";binary", ";BINARY", ";Binary", ";lang-en", ";lang-en;binary", ";binary;x-1", ";x-binary", ";range=0-1"][..]).prop_map(String::from)];
    let name = prop_oneof![
        3 => (gens::descr(), opt.clone()).prop_map(|(d, o)| format!("{}{}", d, o)),
        1 => (gens::oid(), opt).prop_map(|(d, o)| format!("{}{}", d, o)),
        1 => proptest::sample::select(&["userCertificate;binary", "cACertificate;binary", "jpegPhoto", "objectGUID", "USERCERTIFICATE;BINARY"][..]).prop_map(String::from),
        1 => gens::text(5),
        1 => Just(String::new())
    ];
    (gens::long_text(), vec((name, vec(value(), 0..=max_vals)), 0..=max_attrs))
        .prop_map(|(dn, attrs)| {
            // descriptions must be distinct: disambiguate duplicates with an option suffix
            let mut seen = std::collections::HashSet::new();
            let attrs = attrs
                .into_iter()
                .enumerate()
                .map(|(i, (n, v))| {
                    let n = if seen.contains(&n) { format!("{};x-{}", n, i) } else { n };
                    seen.insert(n.clone());
                    (n, v)
                })
                .collect();
            Entry { dn, attrs }
        })
        .boxed()
}

fn strat(_: &Ctx) -> BoxedStrategy<EntryCase> {
    (entry(8, 6), gens::forms()).prop_map(|(entry, forms)| EntryCase { entry, forms }).boxed()
}

/// The oracle, reusable (C19 read-entry controls).
pub fn judge_maps(e: &Entry, text: &std::collections::HashMap<String, Vec<String>>, bin: &std::collections::HashMap<String, Vec<Vec<u8>>>) -> Result<(usize, usize), Fail> {
    let (mut mixed, mut binary) = (0, 0);
    for (name, vals) in &e.attrs {
        let all_text = vals.iter().all(|v| std::str::from_utf8(v).is_ok());
        let in_text = text.get(name);
        let in_bin = bin.get(name);
        ensure!(in_text.is_some() != in_bin.is_some(), "c15:not-exactly-one-map", "attribute {:?} is in {} maps (text: {}, binary: {})", name, in_text.is_some() as u8 + in_bin.is_some() as u8, in_text.is_some(), in_bin.is_some());
        if all_text {
            let want: Vec<String> = vals.iter().map(|v| String::from_utf8(v.clone()).unwrap()).collect();
            match in_text {
                Some(got) => ensure!(got == &want, "c15:text-values", "text attribute {:?}: got {:?}, server sent {:?}", name, got, want),
                None => fail!("c15:misclassified", "attribute {:?} has only UTF-8 values but is in the binary map", name),
            }
        } else {
            binary += 1;
            if vals.iter().any(|v| std::str::from_utf8(v).is_ok()) {
                mixed += 1;
            }
            match in_bin {
                Some(got) => {
                    let mut g = got.clone();
                    let mut w = vals.clone();
                    g.sort();
                    w.sort();
                    ensure!(g == w, "c15:binary-values", "binary attribute {:?}: got multiset {:?}, server sent {:?}", name, got, vals);
                }
                None => fail!("c15:misclassified", "attribute {:?} has a non-UTF-8 value but is in the text map", name),
            }
        }
    }
    ensure!(text.len() + bin.len() == e.attrs.len(), "c15:extra-attribute", "{} attributes sent, {} + {} returned", e.attrs.len(), text.len(), bin.len());
    Ok((mixed, binary))
}

pub fn check(c: &EntryCase, obs: &mut Obs) -> Result<(), Fail> {
    let bytes = ber::encode_forms(&c.entry.to_tlv(), &c.forms);
    let st = match lber::parse::parse_tag(&bytes) {
        Ok((rest, st)) if rest.is_empty() => st,
        other => fail!("c15:parse", "well-formed entry not parsed: {:?}", format!("{:?}", other).chars().take(200).collect::<String>()),
    };
    let se = match guard(|| SearchEntry::construct(ResultEntry::new(st))) {
        Ok(se) => se,
        Err(p) => fail!(panic_sig(&p), "SearchEntry::construct panicked on a well-formed entry: {}", p),
    };
    ensure!(se.dn == c.entry.dn, "c15:dn", "dn {:?} != {:?}", se.dn, c.entry.dn);
    let (mixed, binary) = judge_maps(&c.entry, &se.attrs, &se.bin_attrs)?;
    if binary > 0 {
        obs.label("has-binary-attr");
    }
    if c.entry.attrs.iter().any(|(_, v)| v.is_empty()) {
        obs.label("has-valueless-attr");
    }
    if mixed > 0 {
        obs.label("mixed-attr");
        // position of the first invalid value
        for (_, vals) in &c.entry.attrs {
            if let Some(p) = vals.iter().position(|v| std::str::from_utf8(v).is_err()) {
                if vals.iter().any(|v| std::str::from_utf8(v).is_ok()) {
                    obs.label(format!("first-invalid-at-{}", p.min(3)));
                }
            }
        }
        obs.nontrivial(&c.entry);
    }
    Ok(())
}

pub fn property() -> Property {
    Property {
        id: "C15",
        level: "exploration",
        rule: "generated entries: any UTF-8 DN (incl. empty, multi-byte, >64 KiB), 0-8 attributes with distinct descriptions (bare descriptors, OIDs, arbitrary text, with options such as ;binary in any letter case, ;lang-en, several options), 0-6 values each drawn from {valid UTF-8, empty, invalid UTF-8 (truncated sequences, surrogates, overlongs, random bytes), long}, harness-encoded with generated BER length forms, parsed by lber and fed to SearchEntry::construct; oracle: dn equal, every attribute in exactly one map, text map iff all values UTF-8 with values in order, else binary map holds exactly the multiset. Non-trivial: >=1 attribute mixing valid and invalid UTF-8 values. Distinct = hash of the entry.",
        assumptions: &["harness BER writer (src/ber.rs) and entry model (src/model.rs)", "attribute descriptions and DN are UTF-8 (LDAPString) as in every well-formed entry"],
        lanes: vec![Box::new(PLane { name: "entries", cases: |t| t.pick(6_000, 150_000), strat, check })],
        workers: (8, 16),
    }
}
