//! C04 — every operation terminates; losing the connection fails all pending work.
//! Fault enumeration: for each generated scenario, a connection failure of every kind is
//! injected at every byte boundary of the response stream / request stream.

use crate::model::{Entry, Req, Res, Resp, RespMsg};
use crate::runner::{panic_sig, Ctx, Fail, Obs, PLane, Property};
use crate::sim::{self, err_kind, quiesce, DriveEnd, ReadEnd, Recv, SimResult};
use crate::simops::{self, Single};
use crate::{ensure, fail};
use ldap3::adapters::EntriesOnly;
use ldap3::Scope;
use proptest::collection::vec;
use proptest::prelude::*;
use serde::{Deserialize, Serialize};
use std::collections::HashMap;
use std::time::Duration;
use tokio::time::Instant;

#[derive(Clone, Debug, PartialEq, Eq, Hash, Serialize, Deserialize)]
pub enum OpS {
    Single(Single),
    /// number of entries, adapted (EntriesOnly), and - for a lagging consumer - the number of items
    /// after which the caller stops reading until the fault has happened
    Stream(u8, bool, Option<u8>),
    /// an Add whose request is large (one attribute value of this many bytes)
    BigAdd(u32),
}

#[derive(Clone, Debug, Serialize, Deserialize)]
pub struct Scenario {
    pub ops: Vec<OpS>,
    pub ranks: Vec<u16>,
    pub one_byte_reads: bool,
    pub write_chunk: u8,
    pub sched: u64,
    /// an unsolicited notification (message id 0) is written directly in front of this response PDU (index into the
    /// merged response stream): whatever follows it in the same read must be handled as if it were not there
    #[serde(default)]
    pub notice_before: Option<u8>,
    /// adapted (EntriesOnly) streams get a SearchResultReference in front of every second entry: the adapter skips it
    /// and fetches the next item inside the same next() call
    #[serde(default)]
    pub refs: bool,
}

#[derive(Clone, Debug, PartialEq, Serialize, Deserialize)]
pub enum Fault {
    None,
    ReadEnd {
        cut: usize,
        reset: bool,
        /// 0 = EOF / reset as per `reset`; k > 0 = the read fails with I/O error kind k-1 of sim::READ_ERROR_KINDS
        #[serde(default)]
        kind: u8,
    },
    /// the transport accepts `at` request bytes and then reports Ok(0) for every write
    WriteZero { at: usize },
    BadFrame { cut: usize, kind: u8 },
    WriteFail { at: usize },
    Unbind { cut: usize },
    DropAll { cut: usize },
    /// the write side fails exactly when an Abandon / Unbind request is written; the read side stays open and silent
    AbandonWriteFail { cut: usize },
    UnbindWriteFail { cut: usize },
}

fn strat(_: &Ctx) -> BoxedStrategy<Scenario> {
    let op = prop_oneof![
        30 => simops::single_strat().prop_map(OpS::Single),
        30 => (0u8..7, any::<bool>(), proptest::option::weighted(0.4, 0u8..3)).prop_map(|(n, a, p)| OpS::Stream(n, a, p)),
        1 => proptest::sample::select(&[16_300u32, 17_000, 33_000, 70_000][..]).prop_map(OpS::BigAdd),
    ];
    (vec(op, 1..=5), vec(any::<u16>(), 32), proptest::bool::weighted(0.3), 0u8..8, any::<u64>(), proptest::option::weighted(0.3, 0u8..12), any::<bool>())
        .prop_map(|(ops, ranks, one_byte_reads, write_chunk, sched, notice_before, refs)| Scenario { ops, ranks, one_byte_reads, write_chunk, sched, notice_before, refs })
        .boxed()
}

fn tok(i: usize, s: usize) -> String {
    format!("k{}-{}", i, s)
}

fn n_pdus(o: &OpS) -> usize {
    match o {
        OpS::Single(_) | OpS::BigAdd(_) => 1,
        OpS::Stream(n, _, _) => *n as usize + 1,
    }
}

#[derive(Debug, Clone, Default)]
pub struct OpOut {
    tokens: Vec<String>,
    /// "ok" | error kind | "hang" | "panic:.."
    end: String,
    finish_rc: Option<u32>,
}

#[derive(Debug, Default)]
pub struct RunOut {
    ops: Vec<OpOut>,
    /// response stream and the end offset of every PDU with its (op, seq)
    r_len: usize,
    pdu_ends: Vec<(usize, usize, usize)>,
    w_len: usize,
    post: Option<(String, u64)>,
    drive: Option<DriveEnd>,
    drive_hang: bool,
    shutdown_called: bool,
    dropped: bool,
    last_request_kind: Option<String>,
    requests_after_unbind: usize,
    server_problems: Vec<String>,
    not_reached: bool,
    spinning: bool,
    ok_although_unwritten: bool,
}

const GARBAGE: &[&[u8]] = &[&[0x04, 0x03, b'a', b'b', b'c'], &[0x10, 0x02, 0x01, 0x01], &[0x02, 0x01, 0x05], &[0x31, 0x03, 0x02, 0x01, 0x01]];

pub fn run(scn: &Scenario, fault: &Fault) -> SimResult<RunOut> {
    let scn = scn.clone();
    let fault = fault.clone();
    sim::run_sim(scn.sched, async move {
        let conn = sim::connect();
        let wire = conn.wire.clone();
        wire.with(|w| {
            if scn.one_byte_reads {
                w.read_chunks = vec![1];
            } else if scn.sched % 3 == 0 {
                // a third of the scenarios: the delivered bytes reach the client in alternating small and large
                // reads (so a response is split and the read that completes it also brings the following ones)
                w.read_chunks = vec![3 + ((scn.sched >> 8) % 60) as usize, 150 + ((scn.sched >> 16) % 2000) as usize];
            }
            if scn.write_chunk > 0 {
                w.write_max = vec![scn.write_chunk as usize];
            }
            if let Fault::WriteFail { at } = fault {
                w.write_fail_at = Some(at);
            }
            if let Fault::WriteZero { at } = fault {
                w.write_zero_at = Some(at);
            }
        });
        let n = scn.ops.len();
        let mut out = RunOut::default();
        // ---- client operations, each on its own handle
        let mut tasks = Vec::new();
        let (resume_tx, resume_rx) = tokio::sync::watch::channel(false);
        for (i, op) in scn.ops.iter().cloned().enumerate() {
            let mut ldap = conn.ldap.clone();
            let mut resume = resume_rx.clone();
            tasks.push(tokio::spawn(async move {
                let mk = simops::marker(i);
                let mut o = OpOut::default();
                let body = async {
                    match op {
                        OpS::BigAdd(size) => {
                            let mut vals = std::collections::HashSet::new();
                            vals.insert(vec![0x62u8; size as usize]);
                            match ldap.add(&mk, vec![("blob".as_bytes().to_vec(), vals)]).await {
                                Ok(r) => {
                                    o.tokens.push(r.text);
                                    o.end = "ok".into();
                                }
                                Err(e) => o.end = err_kind(&e),
                            }
                        }
                        OpS::Single(k) => match simops::exec_single(&mut ldap, k, &mk).await {
                            Ok(r) => {
                                o.tokens.push(r.text);
                                o.end = "ok".into();
                            }
                            Err(e) => o.end = err_kind(&e),
                        },
                        OpS::Stream(_, adapted, pause_after) => {
                            let s = if adapted { ldap.streaming_search_with(EntriesOnly::new(), &mk, Scope::Subtree, "(a=b)", vec!["a"]).await } else { ldap.streaming_search(&mk, Scope::Subtree, "(a=b)", vec!["a"]).await };
                            match s {
                                Ok(mut s) => {
                                    loop {
                                        if pause_after.map(|p| p as usize == o.tokens.len()).unwrap_or(false) {
                                            // lagging consumer: stop reading until the scenario has injected its fault
                                            while !*resume.borrow() {
                                                if resume.changed().await.is_err() {
                                                    break;
                                                }
                                            }
                                        }
                                        match s.next().await {
                                            Ok(Some(re)) => o.tokens.push(simops::item_token(&re).1),
                                            Ok(None) => {
                                                o.end = "ok".into();
                                                break;
                                            }
                                            Err(e) => {
                                                o.end = err_kind(&e);
                                                break;
                                            }
                                        }
                                    }
                                    let f = s.finish().await;
                                    o.finish_rc = Some(f.rc);
                                    if o.end == "ok" {
                                        o.tokens.push(f.text);
                                    }
                                }
                                Err(e) => o.end = format!("start:{}", err_kind(&e)),
                            }
                        }
                    }
                };
                if tokio::time::timeout(Duration::from_secs(3600), body).await.is_err() {
                    o.end = "hang".into();
                }
                o
            }));
        }
        // ---- server: wait for all requests (or for the point where no more can come), then script the response stream
        let mut wire_id: HashMap<usize, i64> = HashMap::new();
        let mut idle_rounds = 0;
        loop {
            quiesce().await;
            let mut got = false;
            while let Some(r) = wire.try_recv() {
                got = true;
                match r {
                    Recv::Msg(Ok(m), _, _) => {
                        if let Some(i) = simops::marker_index(&m) {
                            wire_id.insert(i, m.id);
                        }
                    }
                    Recv::Msg(Err(e), _, _) => out.server_problems.push(e),
                    Recv::Garbage(e) => out.server_problems.push(e),
                    Recv::Closed => {}
                }
            }
            if wire_id.len() == n {
                break;
            }
            if !got {
                idle_rounds += 1;
                if idle_rounds > 2 {
                    break;
                }
            }
        }
        out.w_len = wire.with(|w| w.c2s.len());
        let all_arrived = wire_id.len() == n;
        // build R in a generated merge order
        let mut r_bytes: Vec<u8> = Vec::new();
        if all_arrived {
            let mut next = vec![0usize; n];
            let total: usize = scn.ops.iter().map(n_pdus).sum();
            let mut flat = 0usize;
            for _ in 0..total {
                let cand = (0..n).filter(|&i| next[i] < n_pdus(&scn.ops[i])).min_by_key(|&i| (scn.ranks[(i * 7 + next[i]) % scn.ranks.len()], i)).unwrap();
                let seq = next[cand];
                let last = seq + 1 == n_pdus(&scn.ops[cand]);
                let resp = match (&scn.ops[cand], last) {
                    (OpS::Single(k), _) => Resp::result(k.resp_tag(), Res::ok(&tok(cand, seq))),
                    (OpS::BigAdd(_), _) => Resp::result(9, Res::ok(&tok(cand, seq))),
                    (OpS::Stream(..), true) => Resp::result(5, Res::ok(&tok(cand, seq))),
                    (OpS::Stream(..), false) => Resp::Entry(Entry::simple(&tok(cand, seq))),
                };
                if scn.notice_before.map(|k| k as usize % total == flat).unwrap_or(false) {
                    // (not a PDU of any operation: it lies inside the span of the PDU that follows it)
                    r_bytes.extend_from_slice(&RespMsg::new(0, Resp::Result { app: 24, res: Res::code(52, "notice"), sasl: None, exop_name: Some("1.3.6.1.4.1.1466.20036".into()), exop_val: None }).encode());
                }
                if scn.refs && !last && seq % 2 == 1 && matches!(scn.ops[cand], OpS::Stream(_, true, _)) {
                    r_bytes.extend_from_slice(&RespMsg::new(wire_id[&cand], Resp::Reference(vec![format!("ldap://ref/{}", seq)])).encode());
                }
                r_bytes.extend_from_slice(&RespMsg::new(wire_id[&cand], resp).encode());
                out.pdu_ends.push((r_bytes.len(), cand, seq));
                next[cand] += 1;
                flat += 1;
            }
            let _ = flat;
        }
        out.r_len = r_bytes.len();
        let mut extra_handles: Vec<ldap3::Ldap> = vec![conn.ldap.clone()];
        let mut post_handle = conn.ldap.clone();
        let sim::Conn { ldap, driver, .. } = conn;
        drop(ldap);
        let mut client_closed_after_unbind = false;
        match &fault {
            Fault::None => {
                wire.push(&r_bytes);
            }
            Fault::ReadEnd { cut, reset, kind } => {
                if !all_arrived {
                    out.not_reached = true;
                }
                wire.push(&r_bytes[..(*cut).min(r_bytes.len())]);
                wire.end_read(if *kind > 0 { ReadEnd::Error(*kind - 1) } else if *reset { ReadEnd::Reset } else { ReadEnd::Eof });
            }
            Fault::BadFrame { cut, kind } => {
                if !all_arrived {
                    out.not_reached = true;
                }
                wire.push(&r_bytes[..(*cut).min(r_bytes.len())]);
                wire.push(GARBAGE[*kind as usize % GARBAGE.len()]);
            }
            Fault::WriteFail { .. } | Fault::WriteZero { .. } => {
                // the write side fails by itself; the server stays silent unless everything arrived
                if all_arrived {
                    wire.push(&r_bytes);
                }
            }
            Fault::AbandonWriteFail { cut } | Fault::UnbindWriteFail { cut } => {
                if !all_arrived {
                    out.not_reached = true;
                }
                wire.push(&r_bytes[..(*cut).min(r_bytes.len())]);
                quiesce().await;
                wire.with(|w| w.write_fail_at = Some(w.c2s.len()));
                let mut h = extra_handles.pop().unwrap();
                let r = if let Fault::AbandonWriteFail { .. } = fault {
                    tokio::time::timeout(Duration::from_secs(3600), h.abandon(1)).await.map(|r| r.map_err(|e| err_kind(&e)))
                } else {
                    tokio::time::timeout(Duration::from_secs(3600), h.unbind()).await.map(|r| r.map_err(|e| err_kind(&e)))
                };
                match r {
                    Err(_) => out.server_problems.push("abandon()/unbind() hangs when its own request cannot be written".into()),
                    Ok(Ok(())) => out.ok_although_unwritten = true,
                    Ok(Err(_)) => {}
                }
                extra_handles.push(h);
                quiesce().await;
            }
            Fault::Unbind { cut } | Fault::DropAll { cut } => {
                if !all_arrived {
                    out.not_reached = true;
                }
                wire.push(&r_bytes[..(*cut).min(r_bytes.len())]);
                // client-side events are injected only once the driver has consumed what was delivered
                quiesce().await;
                if let Fault::Unbind { .. } = fault {
                    let mut h = extra_handles.pop().unwrap();
                    let r = tokio::time::timeout(Duration::from_secs(3600), h.unbind()).await;
                    match r {
                        Err(_) => out.server_problems.push("unbind() hangs".into()),
                        Ok(Err(e)) => out.server_problems.push(format!("unbind() failed: {}", err_kind(&e))),
                        Ok(Ok(())) => {}
                    }
                    extra_handles.push(h);
                    quiesce().await;
                    // what the server sees
                    let mut kinds = Vec::new();
                    while let Some(r) = wire.try_recv() {
                        if let Recv::Msg(Ok(m), _, _) = r {
                            kinds.push(m.req.kind().to_string());
                        }
                    }
                    out.last_request_kind = kinds.last().cloned();
                    client_closed_after_unbind = true;
                }
            }
        }
        // ---- an operation started after the fault
        // (not after a failed Abandon/Unbind write: a further request would hit the same write error and
        // end the connection by itself, hiding a driver that survived the first one)
        if !matches!(fault, Fault::None | Fault::DropAll { .. } | Fault::AbandonWriteFail { .. } | Fault::UnbindWriteFail { .. }) {
            quiesce().await;
            let t = Instant::now();
            let r = tokio::time::timeout(Duration::from_secs(3600), post_handle.delete("cn=after")).await;
            let el = t.elapsed().as_millis() as u64;
            out.post = Some(match r {
                Err(_) => ("hang".into(), el),
                Ok(Ok(_)) => ("ok".into(), el),
                Ok(Err(e)) => (err_kind(&e), el),
            });
            if client_closed_after_unbind {
                let before = wire.with(|w| w.c2s_parsed);
                while let Some(r) = wire.try_recv() {
                    if let Recv::Msg(Ok(m), _, _) = r {
                        if !matches!(m.req, Req::Unbind) {
                            out.requests_after_unbind += 1;
                        }
                    }
                }
                let _ = before;
                // like every real server, close the connection in response to the unbind
                out.shutdown_called = wire.with(|w| w.shutdown_called);
                wire.end_read(ReadEnd::Eof);
            }
        }
        // ---- lagging consumers resume now
        quiesce().await;
        let _ = resume_tx.send(true);
        // ---- collect
        for t in tasks {
            match t.await {
                Ok(o) => out.ops.push(o),
                Err(_) => out.ops.push(OpOut { end: format!("panic:{}", crate::runner::take_panics().into_iter().last().unwrap_or_default()), ..Default::default() }),
            }
        }
        drop(post_handle);
        drop(extra_handles);
        match tokio::time::timeout(Duration::from_secs(3600), sim::join_driver(driver)).await {
            Ok(e) => out.drive = Some(e),
            Err(_) => out.drive_hang = true,
        }
        wire.with(|w| {
            out.shutdown_called |= w.shutdown_called;
            out.dropped = w.dropped;
            out.spinning = w.spinning;
        });
        out
    })
}

fn judge(scn: &Scenario, fault: &Fault, base: &RunOut, o: &RunOut) -> Result<bool, Fail> {
    let ctx = || format!("scenario {:?}, fault {:?}", scn.ops, fault);
    if let Some(DriveEnd::Panic(p)) = &o.drive {
        fail!(panic_sig(p), "driver panicked ({}): {}", ctx(), p);
    }
    ensure!(!o.spinning, "c04:driver-spins-on-closed-transport", "the driver kept polling the transport thousands of times after it had reported its end ({})", ctx());
    ensure!(!o.drive_hang, "c04:driver-hangs", "drive() never returned after the fault ({})", ctx());
    for (i, op) in o.ops.iter().enumerate() {
        if let Some(p) = op.end.strip_prefix("panic:") {
            fail!(panic_sig(p), "operation {} panicked ({}): {}", i, ctx(), p);
        }
        ensure!(op.end != "hang", "c04:op-hangs", "operation {} ({:?}) is still waiting an hour (virtual) after the fault ({})", i, scn.ops[i], ctx());
    }
    ensure!(o.server_problems.is_empty(), "c04:client-misbehaved", "{:?} ({})", o.server_problems, ctx());
    let mut pending_at_fault = 0;
    match fault {
        Fault::None => {
            for (i, op) in o.ops.iter().enumerate() {
                let want: Vec<String> = (0..n_pdus(&scn.ops[i])).map(|s| tok(i, s)).collect();
                ensure!(op.end == "ok" && op.tokens == want, "c04:baseline", "without any fault operation {} returned {:?} / {:?}", i, op.end, op.tokens);
            }
            return Ok(false);
        }
        Fault::WriteFail { at } | Fault::WriteZero { at } => {
            // nothing can complete normally unless every request got out before the failure point
            if *at >= base.w_len {
                return Ok(false);
            }
            for (i, op) in o.ops.iter().enumerate() {
                ensure!(op.end != "ok", "c04:ok-after-write-failure", "operation {} returned Ok although the write side failed after {} of {} request bytes ({})", i, at, base.w_len, ctx());
                pending_at_fault += 1;
            }
        }
        Fault::ReadEnd { cut, .. } | Fault::BadFrame { cut, .. } | Fault::Unbind { cut } | Fault::DropAll { cut } | Fault::AbandonWriteFail { cut } | Fault::UnbindWriteFail { cut } => {
            if o.not_reached {
                return Ok(false);
            }
            for (i, op) in o.ops.iter().enumerate() {
                let mine: Vec<&(usize, usize, usize)> = base.pdu_ends.iter().filter(|p| p.1 == i).collect();
                let arrived: Vec<String> = mine.iter().filter(|p| p.0 <= *cut).map(|p| tok(i, p.2)).collect();
                let complete = arrived.len() == mine.len();
                if let Fault::DropAll { .. } = fault {
                    // handles are only dropped by the harness after the operations returned; nothing to judge per op here
                    continue;
                }
                if complete {
                    ensure!(op.end == "ok" && op.tokens == arrived, "c04:delivered-response-lost", "operation {} had received its complete response before the fault but returned {:?} / {:?} ({})", i, op.end, op.tokens, ctx());
                } else {
                    pending_at_fault += 1;
                    ensure!(op.end != "ok", "c04:ok-without-response", "operation {} ({:?}) returned normally although only {} of its {} response PDUs had arrived ({})", i, scn.ops[i], arrived.len(), mine.len(), ctx());
                    ensure!(op.tokens == arrived, "c04:wrong-items-before-error", "operation {} returned items {:?} before failing; fully arrived were {:?} ({})", i, op.tokens, arrived, ctx());
                }
            }
        }
    }
    if matches!(fault, Fault::AbandonWriteFail { .. } | Fault::UnbindWriteFail { .. }) {
        ensure!(!o.ok_although_unwritten || true, "c04:ok-although-unwritten", "unreachable");
        ensure!(!matches!(o.drive, Some(DriveEnd::Ok)) || o.ops.iter().all(|op| op.end == "ok"), "c04:write-failure-ignored", "the request could not be written but drive() ended normally ({})", ctx());
    }
    if let Some((end, ms)) = &o.post {
        ensure!(end != "ok" && end != "hang", "c04:later-op-not-failed", "an operation started after the fault ended with {:?} ({})", end, ctx());
        ensure!(*ms == 0, "c04:later-op-not-immediate", "an operation started after the fault took {} virtual ms to fail ({})", ms, ctx());
    }
    match fault {
        Fault::Unbind { .. } => {
            ensure!(o.last_request_kind.as_deref() == Some("unbind"), "c04:unbind-not-last", "after unbind() the last PDU on the wire is {:?} ({})", o.last_request_kind, ctx());
            ensure!(o.requests_after_unbind == 0, "c04:request-after-unbind", "{} requests were written after the UnbindRequest ({})", o.requests_after_unbind, ctx());
            ensure!(o.shutdown_called, "c04:unbind-no-shutdown", "unbind() did not shut down the transport's write side ({})", ctx());
        }
        Fault::DropAll { .. } => {
            ensure!(o.dropped || o.shutdown_called, "c04:drop-does-not-close", "after the last handle was dropped the transport is neither shut down nor dropped ({})", ctx());
            ensure!(matches!(o.drive, Some(DriveEnd::Ok)) , "c04:drop-drive-error", "after the last handle was dropped drive() ended with {:?} ({})", o.drive, ctx());
        }
        _ => {}
    }
    // non-trivial: something was pending and the cut is inside a PDU or between two PDUs of one op
    let nt = match fault {
        Fault::ReadEnd { cut, .. } | Fault::BadFrame { cut, .. } | Fault::Unbind { cut } | Fault::AbandonWriteFail { cut } | Fault::UnbindWriteFail { cut } => {
            let inside = !base.pdu_ends.iter().any(|p| p.0 == *cut) && *cut != 0;
            let between = (0..scn.ops.len()).any(|i| {
                let mine: Vec<usize> = base.pdu_ends.iter().filter(|p| p.1 == i).map(|p| p.0).collect();
                mine.len() >= 2 && mine.iter().any(|e| e <= cut) && mine.iter().any(|e| e > cut)
            });
            pending_at_fault >= 1 && (inside || between)
        }
        Fault::WriteFail { at } | Fault::WriteZero { at } => pending_at_fault >= 1 && *at > 0,
        _ => false,
    };
    Ok(nt)
}

pub fn check(scn: &Scenario, obs: &mut Obs) -> Result<(), Fail> {
    let base = match run(scn, &Fault::None) {
        SimResult::Done(o) => o,
        SimResult::Hang => fail!("c04:baseline-hang", "fault-free scenario hangs: {:?}", scn.ops),
    };
    judge(scn, &Fault::None, &base, &base)?;
    let mut faults: Vec<Fault> = Vec::new();
    for cut in 0..=base.r_len {
        faults.push(Fault::ReadEnd { cut, reset: false, kind: 0 });
        faults.push(Fault::ReadEnd { cut, reset: true, kind: 0 });
    }
    let mut boundaries: Vec<usize> = vec![0];
    boundaries.extend(base.pdu_ends.iter().map(|p| p.0));
    for (k, b) in boundaries.iter().enumerate() {
        // every other I/O error kind at the PDU boundaries and one byte into the next PDU
        for kind in 1..=sim::READ_ERROR_KINDS.len() as u8 {
            faults.push(Fault::ReadEnd { cut: *b, reset: false, kind });
            if *b + 1 < base.r_len {
                faults.push(Fault::ReadEnd { cut: *b + 1, reset: false, kind });
            }
        }
        faults.push(Fault::BadFrame { cut: *b, kind: k as u8 });
        faults.push(Fault::Unbind { cut: *b });
        // ... and while the server is silent in the MIDDLE of a PDU (the driver sits on a partial frame)
        let next_end = boundaries.get(k + 1).copied().unwrap_or(base.r_len);
        if next_end > *b + 1 {
            faults.push(Fault::Unbind { cut: *b + 1 });
            faults.push(Fault::Unbind { cut: *b + (next_end - *b) / 2 });
            faults.push(Fault::Unbind { cut: next_end - 1 });
        }
        faults.push(Fault::AbandonWriteFail { cut: *b });
        faults.push(Fault::UnbindWriteFail { cut: *b });
    }
    faults.push(Fault::DropAll { cut: base.r_len });
    // write failures after every request byte (large requests: the first 64 bytes, then every 1009th, and the last)
    let positions: Vec<usize> = if base.w_len <= 2000 { (0..base.w_len).collect() } else { (0..64).chain((64..base.w_len).step_by(1009)).chain(std::iter::once(base.w_len - 1)).collect() };
    for at in positions {
        faults.push(Fault::WriteFail { at });
        faults.push(Fault::WriteZero { at });
    }
    let mut nt = 0u64;
    for f in &faults {
        let o = match run(scn, f) {
            SimResult::Done(o) => o,
            SimResult::Hang => fail!("c04:scenario-hangs", "scenario {:?} with fault {:?} never completes", scn.ops, f),
        };
        if judge(scn, f, &base, &o)? {
            nt += 1;
        }
    }
    obs.evals(faults.len() as u64);
    obs.label(format!("faults-per-scenario~{}", (faults.len() / 100) * 100));
    if scn.notice_before.is_some() {
        obs.label("id-0-notice-inside-the-response-stream");
    }
    if scn.refs && scn.ops.iter().any(|o| matches!(o, OpS::Stream(n, true, _) if *n >= 2)) {
        obs.label("references-skipped-by-EntriesOnly");
    }
    if scn.ops.iter().any(|o| matches!(o, OpS::BigAdd(_))) {
        obs.label("request>=16KiB");
    }
    if scn.ops.iter().any(|o| matches!(o, OpS::Stream(n, _, _) if *n > 0)) {
        obs.label("stream-with-items");
    }
    if scn.ops.iter().any(|o| matches!(o, OpS::Stream(n, _, Some(p)) if *n > *p + 2)) {
        obs.label("lagging-consumer-with->2-unread-items");
    }
    if nt > 0 {
        obs.evals(0);
        obs.nontrivial((format!("{:?}", scn.ops), &scn.ranks[..8], scn.one_byte_reads));
        obs.label(format!("nontrivial-faults>={}", (nt / 50) * 50));
    }
    Ok(())
}

// ------------------------------------------------------------------ lane: real transports
//
// "Unbind and dropping the last handle close the transport" for each real transport type (TCP, Unix
// domain socket, TLS): the server waits for end-of-file on its side.

#[derive(Clone, Debug, Serialize, Deserialize)]
pub struct RealCase {
    transport: u8,
    unbind: bool,
    pending: bool,
}

fn real_check(c: &RealCase, obs: &mut Obs) -> Result<(), Fail> {
    use std::sync::{Arc, Mutex};
    use tokio::io::AsyncReadExt;
    let rt = tokio::runtime::Builder::new_multi_thread().worker_threads(2).enable_all().build().map_err(|e| Fail::new("env-runtime", e.to_string()))?;
    let c = c.clone();
    let name = ["tcp", "unix", "tls"][c.transport as usize % 3];
    let res: Result<(bool, String, bool), Fail> = rt.block_on(async move {
        let saw_eof = Arc::new(Mutex::new(false));
        let se = saw_eof.clone();
        // server: read until EOF (5 s guard), never answer, then close
        async fn drain<S: tokio::io::AsyncRead + Unpin>(mut s: S, se: Arc<Mutex<bool>>) {
            let mut tmp = [0u8; 4096];
            let t = tokio::time::Instant::now();
            loop {
                match tokio::time::timeout(Duration::from_secs(25), s.read(&mut tmp)).await {
                    Ok(Ok(0)) => {
                        *se.lock().unwrap() = true;
                        break;
                    }
                    Ok(Ok(_)) => {
                        if t.elapsed() > Duration::from_secs(30) {
                            break;
                        }
                    }
                    other => {
                        if std::env::var("VERIF_C04_DEBUG").is_ok() {
                            eprintln!("drain ended with {:?}", other.map(|r| r.map_err(|e| e.to_string())));
                        }
                        break;
                    }
                }
            }
        }
        let dir = std::env::temp_dir().join(format!("ldap3-verif-c04-{}-{}", std::process::id(), c.transport as usize + 10 * c.unbind as usize + 100 * c.pending as usize));
        let _ = std::fs::remove_dir_all(&dir);
        std::fs::create_dir_all(&dir).map_err(|e| Fail::new("env-tmp", e.to_string()))?;
        let mut settings = ldap3::LdapConnSettings::new().set_conn_timeout(Duration::from_secs(10));
        let url = match c.transport % 3 {
            0 | 2 => {
                let l = tokio::net::TcpListener::bind("127.0.0.1:0").await.map_err(|e| Fail::new("env-bind", e.to_string()))?;
                let port = l.local_addr().map_err(|e| Fail::new("env-bind", e.to_string()))?.port();
                let tls = c.transport % 3 == 2;
                tokio::spawn(async move {
                    if let Ok((s, _)) = l.accept().await {
                        if tls {
                            if let Ok(acc) = crate::netinfra::acceptor(crate::netinfra::Cert::Good) {
                                if let Ok(t) = acc.accept(s).await {
                                    drain(t, se).await;
                                }
                            }
                        } else {
                            drain(s, se).await;
                        }
                    }
                });
                if tls {
                    settings = settings.set_connector(crate::netinfra::ca_connector().map_err(|e| Fail::new("env-tls", e))?);
                    format!("ldaps://localhost:{}", port)
                } else {
                    format!("ldap://127.0.0.1:{}", port)
                }
            }
            _ => {
                let p = dir.join("s");
                let l = tokio::net::UnixListener::bind(&p).map_err(|e| Fail::new("env-bind", e.to_string()))?;
                tokio::spawn(async move {
                    if let Ok((s, _)) = l.accept().await {
                        drain(s, se).await;
                    }
                });
                let enc: String = p.to_string_lossy().bytes().map(|b| if b.is_ascii_alphanumeric() || b == b'.' || b == b'-' { (b as char).to_string() } else { format!("%{:02X}", b) }).collect();
                format!("ldapi://{}/", enc)
            }
        };
        let (conn, mut ldap) = match tokio::time::timeout(Duration::from_secs(15), ldap3::LdapConnAsync::with_settings(settings, &url)).await {
            Ok(Ok(x)) => x,
            Ok(Err(e)) => return Err(Fail::new("env-connect", format!("{}: {}", url, e))),
            Err(_) => return Err(Fail::new("env-timeout", "connect")),
        };
        let drv = tokio::spawn(async move { conn.drive().await.map_err(|e| e.to_string()) });
        let pend = if c.pending {
            let mut l2 = ldap.clone();
            Some(tokio::spawn(async move { l2.compare("cn=x", "a", "b").await.map(|_| ()).map_err(|e| err_kind(&e)) }))
        } else {
            None
        };
        tokio::time::sleep(Duration::from_millis(30)).await;
        if c.unbind {
            let _ = tokio::time::timeout(Duration::from_secs(5), ldap.unbind()).await;
        } else if let Some(p) = &pend {
            // the last handle can only go away when nothing uses one: cancel the pending operation first
            p.abort();
        }
        drop(ldap);
        // the server sees EOF (or gives up after 5 s), then closes; everything on the client must then end
        let pend_out = match pend {
            Some(p) if c.unbind => match tokio::time::timeout(Duration::from_secs(40), p).await {
                Ok(Ok(Ok(()))) => "ok".to_string(),
                Ok(Ok(Err(e))) => e,
                Ok(Err(_)) => "cancelled".to_string(),
                Err(_) => "hang".to_string(),
            },
            _ => "n/a".to_string(),
        };
        let drove = tokio::time::timeout(Duration::from_secs(40), drv).await.is_ok();
        let _ = std::fs::remove_dir_all(&dir);
        // the server task may need a moment to observe the end-of-file
        let t = tokio::time::Instant::now();
        while !*saw_eof.lock().unwrap() && t.elapsed() < Duration::from_secs(26) {
            tokio::time::sleep(Duration::from_millis(2)).await;
        }
        let eof = *saw_eof.lock().unwrap();
        Ok((eof, pend_out, drove))
    });
    rt.shutdown_background();
    let (eof, pend_out, drove) = res?;
    ensure!(eof, "c04:transport-not-closed", "{} over {}: the server never saw end-of-file on its side (25 s): the transport was not closed", if c.unbind { "unbind()" } else { "dropping the last handle" }, name);
    ensure!(pend_out != "hang" && pend_out != "ok", "c04:op-hangs", "over {}: the operation pending at unbind() ended with {:?}", name, pend_out);
    ensure!(drove, "c04:driver-hangs", "over {}: drive() did not return after the transport was closed", name);
    obs.label(format!("transport:{}", name));
    obs.nontrivial((c.transport % 3, c.unbind, c.pending));
    Ok(())
}

fn real_run(ctx: &Ctx, known: &[crate::runner::KnownFinding]) -> crate::runner::LaneReport {
    let mut rep = crate::runner::LaneReport::new("real-transports");
    rep.exhaustive = true;
    let mut k = 0u32;
    for transport in 0..3u8 {
        for unbind in [true, false] {
            for pending in [true, false] {
                k += 1;
                if k % ctx.workers != ctx.worker {
                    continue;
                }
                let c = RealCase { transport, unbind, pending };
                crate::runner::eval_case(&mut rep, known, &c, |obs| real_check(&c, obs));
            }
        }
    }
    rep
}

fn real_replay(v: serde_json::Value) -> Result<(), Fail> {
    let c: RealCase = serde_json::from_value(v).map_err(|e| Fail::new("replay-format", e.to_string()))?;
    real_check(&c, &mut Obs::default())
}


// ---------------------------------------------------------------- lane: paged streams (a search that spans several requests)

#[derive(Clone, Debug, Serialize, Deserialize)]
pub struct PagedScn {
    /// entries per page (the last page ends with an empty cookie)
    pub pages: Vec<u8>,
    pub entries_only_first: bool,
    /// the consumer stops after this many items until the fault has happened
    pub lag: Option<u8>,
    /// another operation pending during the whole search (never answered before the fault)
    pub bystander: bool,
    pub sched: u64,
}

#[derive(Clone, Copy, Debug, PartialEq, Serialize, Deserialize)]
pub enum PKind {
    Eof,
    Reset,
    BadFrame,
}

#[derive(Clone, Debug, Serialize, Deserialize)]
pub struct PagedFault {
    /// number of response PDUs (entries and page results, in order) delivered in full before the fault
    pub cut: usize,
    pub kind: PKind,
    /// the fault follows the last delivered PDU at once (same read burst) instead of after the client had the
    /// chance to react (e.g. to ask for the next page)
    pub immediate: bool,
}

fn paged_strat(_: &Ctx) -> BoxedStrategy<PagedScn> {
    (vec(0u8..4, 1..=4), any::<bool>(), proptest::option::weighted(0.4, 0u8..4), any::<bool>(), any::<u64>())
        .prop_map(|(pages, entries_only_first, lag, bystander, sched)| PagedScn { pages, entries_only_first, lag, bystander, sched })
        .boxed()
}

#[derive(Debug, Default)]
struct PagedOut {
    tokens: Vec<String>,
    end: String,
    finish_rc: Option<u32>,
    finish_text: String,
    bystander_end: Option<String>,
    post: Option<(String, u64)>,
    drive: Option<DriveEnd>,
    drive_hang: bool,
    requests: usize,
    /// response PDUs pushed in full before the fault
    delivered: usize,
    problems: Vec<String>,
}

fn ptok(page: usize, e: usize) -> String {
    format!("p{}e{}", page, e)
}

fn run_paged(scn: &PagedScn, fault: Option<&PagedFault>) -> SimResult<PagedOut> {
    use crate::model::{CritForm, RCtl};
    use crate::props::c16::{paged_value, PAGED_OID};
    use ldap3::adapters::{Adapter, PagedResults};
    let scn = scn.clone();
    let fault = fault.cloned();
    sim::run_sim(scn.sched, async move {
        let conn = sim::connect();
        let wire = conn.wire.clone();
        let mut out = PagedOut::default();
        // (a lagging consumer only makes sense when a fault will wake it up)
        let (resume_tx, resume_rx) = tokio::sync::watch::channel(fault.is_none());
        let mut ldap = conn.ldap.clone();
        let lag = scn.lag;
        let eo_first = scn.entries_only_first;
        let mut resume = resume_rx.clone();
        let consumer = tokio::spawn(async move {
            let mk = simops::marker(0);
            let mut tokens = Vec::new();
            let mut end = String::new();
            let mut fin = (None, String::new());
            let body = async {
                let ad: Vec<Box<dyn Adapter<_, _>>> = if eo_first { vec![Box::new(EntriesOnly::new()), Box::new(PagedResults::new(3))] } else { vec![Box::new(PagedResults::new(3))] };
                match ldap.streaming_search_with(ad, &mk, Scope::Subtree, "(a=b)", vec!["a"]).await {
                    Ok(mut s) => {
                        loop {
                            if lag.map(|p| p as usize == tokens.len()).unwrap_or(false) {
                                while !*resume.borrow() {
                                    if resume.changed().await.is_err() {
                                        break;
                                    }
                                }
                            }
                            match s.next().await {
                                Ok(Some(re)) => tokens.push(simops::item_token(&re).1),
                                Ok(None) => {
                                    end = "ok".into();
                                    break;
                                }
                                Err(e) => {
                                    end = err_kind(&e);
                                    break;
                                }
                            }
                        }
                        let f = s.finish().await;
                        fin = (Some(f.rc), f.text);
                    }
                    Err(e) => end = format!("start:{}", err_kind(&e)),
                }
            };
            if tokio::time::timeout(Duration::from_secs(3600), body).await.is_err() {
                end = "hang".into();
            }
            (tokens, end, fin)
        });
        let bystander = if scn.bystander {
            let mut l2 = conn.ldap.clone();
            Some(tokio::spawn(async move {
                match tokio::time::timeout(Duration::from_secs(3600), l2.compare(&simops::marker(1), "a", "b")).await {
                    Err(_) => "hang".to_string(),
                    Ok(Ok(_)) => "ok".to_string(),
                    Ok(Err(e)) => err_kind(&e),
                }
            }))
        } else {
            None
        };
        // ---- server: one page per request, the fault after `cut` PDUs
        let cut = fault.as_ref().map(|f| f.cut).unwrap_or(usize::MAX);
        let mut sent = 0usize;
        let mut page = 0usize;
        let mut bystander_id: Option<i64> = None;
        let mut faulted = false;
        'srv: while page < scn.pages.len() {
            let m = loop {
                // no request within 10 virtual seconds: the consumer lags; the connection is lost meanwhile
                match tokio::time::timeout(Duration::from_secs(10), wire.recv()).await {
                    Ok(Recv::Msg(Ok(m), _, _)) => match simops::marker_index(&m) {
                        Some(0) => break m,
                        Some(1) => bystander_id = Some(m.id),
                        _ => {}
                    },
                    Ok(Recv::Msg(Err(e), _, _)) | Ok(Recv::Garbage(e)) => out.problems.push(e),
                    Ok(Recv::Closed) | Err(_) => break 'srv,
                }
            };
            out.requests += 1;
            let n = scn.pages[page] as usize;
            let last_page = page + 1 == scn.pages.len();
            let mut burst = Vec::new();
            for e in 0..=n {
                if sent >= cut {
                    break;
                }
                if e < n {
                    burst.extend_from_slice(&RespMsg::new(m.id, Resp::Entry(Entry::simple(&ptok(page, e)))).encode());
                } else {
                    let cookie: Vec<u8> = if last_page { vec![] } else { format!("ck{}", page).into_bytes() };
                    let ctl = RCtl { oid: PAGED_OID.into(), crit: CritForm::Absent, val: Some(paged_value(0, &cookie)) };
                    burst.extend_from_slice(&RespMsg { id: m.id, resp: Resp::result(5, Res::ok(&format!("fin{}", page))), ctrls: Some(vec![ctl]) }.encode());
                }
                sent += 1;
            }
            wire.push(&burst);
            if sent >= cut {
                let f = fault.as_ref().unwrap();
                if !f.immediate {
                    quiesce().await;
                }
                match f.kind {
                    PKind::Eof => wire.end_read(ReadEnd::Eof),
                    PKind::Reset => wire.end_read(ReadEnd::Reset),
                    PKind::BadFrame => wire.push(GARBAGE[f.cut % GARBAGE.len()]),
                }
                faulted = true;
                break;
            }
            page += 1;
        }
        if let (Some(f), false) = (fault.as_ref(), faulted) {
            // the cut lies behind the last PDU: the fault happens after the search has been answered completely
            quiesce().await;
            match f.kind {
                PKind::Eof => wire.end_read(ReadEnd::Eof),
                PKind::Reset => wire.end_read(ReadEnd::Reset),
                PKind::BadFrame => wire.push(GARBAGE[0]),
            }
        }
        if fault.is_none() {
            // fault-free run: the bystander is answered at the end
            quiesce().await;
            if let Some(id) = bystander_id {
                wire.push(&RespMsg::new(id, Resp::result(15, Res::code(6, "cmp"))).encode());
            }
        }
        out.delivered = sent;
        let mut post_handle = conn.ldap.clone();
        let sim::Conn { ldap, driver, .. } = conn;
        drop(ldap);
        if fault.is_some() {
            quiesce().await;
            let t = Instant::now();
            let r = tokio::time::timeout(Duration::from_secs(3600), post_handle.delete("cn=after")).await;
            let el = t.elapsed().as_millis() as u64;
            out.post = Some(match r {
                Err(_) => ("hang".into(), el),
                Ok(Ok(_)) => ("ok".into(), el),
                Ok(Err(e)) => (err_kind(&e), el),
            });
        }
        quiesce().await;
        let _ = resume_tx.send(true);
        match consumer.await {
            Ok((tokens, end, fin)) => {
                out.tokens = tokens;
                out.end = end;
                out.finish_rc = fin.0;
                out.finish_text = fin.1;
            }
            Err(_) => out.end = format!("panic:{}", crate::runner::take_panics().into_iter().last().unwrap_or_default()),
        }
        if let Some(b) = bystander {
            out.bystander_end = Some(b.await.unwrap_or_else(|_| "panic".into()));
        }
        drop(post_handle);
        match tokio::time::timeout(Duration::from_secs(3600), sim::join_driver(driver)).await {
            Ok(e) => out.drive = Some(e),
            Err(_) => out.drive_hang = true,
        }
        out
    })
}

pub fn check_paged(scn: &PagedScn, obs: &mut Obs) -> Result<(), Fail> {
    let total: usize = scn.pages.iter().map(|n| *n as usize + 1).sum();
    // expected token sequence of the whole search
    let mut all: Vec<(String, bool)> = Vec::new(); // (token, is entry)
    for (p, n) in scn.pages.iter().enumerate() {
        for e in 0..*n as usize {
            all.push((ptok(p, e), true));
        }
        all.push((format!("fin{}", p), false));
    }
    let base = match run_paged(scn, None) {
        SimResult::Done(o) => o,
        SimResult::Hang => fail!("c04:baseline-hang", "fault-free paged scenario hangs: {:?}", scn),
    };
    let want_all: Vec<String> = all.iter().filter(|t| t.1).map(|t| t.0.clone()).collect();
    ensure!(base.end == "ok" && base.tokens == want_all && base.finish_rc == Some(0) && base.requests == scn.pages.len(), "c04:baseline", "without any fault the paged search returned {:?} / {:?} / rc {:?} over {} requests", base.end, base.tokens, base.finish_rc, base.requests);
    let mut evals = 1u64;
    for cut in 0..=total {
        for kind in [PKind::Eof, PKind::Reset, PKind::BadFrame] {
            for immediate in [true, false] {
                let f = PagedFault { cut, kind, immediate };
                let o = match run_paged(scn, Some(&f)) {
                    SimResult::Done(o) => o,
                    SimResult::Hang => fail!("c04:hang", "paged scenario {:?} with fault {:?} never terminates (virtual watchdog)", scn, f),
                };
                evals += 1;
                let ctx = || format!("paged scenario {:?}, fault {:?}", scn, f);
                if let Some(DriveEnd::Panic(p)) = &o.drive {
                    fail!(panic_sig(p), "driver panicked ({}): {}", ctx(), p);
                }
                if let Some(p) = o.end.strip_prefix("panic:") {
                    fail!(panic_sig(p), "paged stream panicked ({}): {}", ctx(), p);
                }
                ensure!(o.problems.is_empty(), "c04:client-misbehaved", "{:?} ({})", o.problems, ctx());
                ensure!(!o.drive_hang, "c04:driver-hangs", "drive() never returned after the fault ({})", ctx());
                ensure!(o.end != "hang", "c04:op-hangs", "the paged stream is still waiting an hour (virtual) after the fault ({})", ctx());
                // (with a lagging consumer the follow-up request may never come: fewer PDUs than `cut` were delivered)
                let cut = cut.min(o.delivered);
                let arrived: Vec<String> = all.iter().take(cut).filter(|t| t.1).map(|t| t.0.clone()).collect();
                if cut >= total {
                    ensure!(o.end == "ok" && o.tokens == arrived && o.finish_rc == Some(0), "c04:delivered-response-lost", "the paged search had been answered completely before the fault but returned {:?} / {:?} / rc {:?} ({})", o.end, o.tokens, o.finish_rc, ctx());
                } else {
                    ensure!(o.end != "ok", "c04:ok-without-response", "the paged stream ended normally (finish rc {:?}, text {:?}) although only {} of {} response PDUs had arrived: a truncated search is reported as complete ({})", o.finish_rc, o.finish_text, cut, total, ctx());
                    ensure!(o.tokens == arrived, "c04:wrong-items-before-error", "the paged stream returned items {:?} before failing; fully arrived were {:?} ({})", o.tokens, arrived, ctx());
                    ensure!(o.finish_rc != Some(0), "c04:ok-without-response", "finish() of the failed paged stream reports success (text {:?}) ({})", o.finish_text, ctx());
                }
                if let Some(b) = &o.bystander_end {
                    ensure!(b != "ok" && b != "hang", "c04:bystander", "an operation pending during the fault ended with {:?} ({})", b, ctx());
                }
                if let Some((end, ms)) = &o.post {
                    ensure!(end != "ok" && end != "hang", "c04:later-op-not-failed", "an operation started after the fault ended with {:?} ({})", end, ctx());
                    ensure!(*ms == 0, "c04:later-op-not-immediate", "an operation started after the fault took {} virtual ms to fail ({})", ms, ctx());
                }
                // page boundary = the cut falls right behind a page result that carries a cookie
                let at_boundary = cut > 0 && cut < total && !all[cut - 1].1;
                if at_boundary {
                    obs.label(if immediate { "fault-right-behind-page-result" } else { "fault-after-follow-up-request" });
                    obs.nontrivial((format!("{:?}", scn.pages), scn.entries_only_first, scn.lag, cut, format!("{:?}", kind), immediate));
                }
            }
        }
    }
    obs.evals(evals);
    Ok(())
}

pub fn property() -> Property {
    Property {
        id: "C04",
        level: "fault_enumeration",
        rule: "generated scenario: 1-5 concurrent operations on their own handles (7 single-result kinds; direct and EntriesOnly streams with 0-6 entries, optionally with a lagging consumer that stops reading after k items until the fault has happened), a generated merge order of the response stream, optionally an id-0 notification somewhere inside it and reference messages that EntriesOnly streams skip, optional 1-byte reads and small write sizes, scheduler seed. For each scenario the fault-free run fixes the response stream R and request stream W; then EXHAUSTIVELY: clean EOF and ConnectionReset after every byte offset 0..=|R|; an undecodable frame (4 kinds the decoder rejects), a client unbind(), and a write failure that hits exactly an Abandon / an Unbind request (read side open and silent) at every PDU boundary of R; a write failure after every byte offset 0..|W| (partial write then failure); drop of the last handle. Oracle per run: every operation future, every stream call and drive() complete before a virtual-clock watchdog; an operation whose complete response preceded the fault returns it intact; every other pending operation returns Err - never Ok, a stream returns exactly the fully arrived items in order and then Err; an operation started after the fault fails in zero virtual time; unbind: UnbindRequest is the last PDU, the write side is shut down, drive() returns once the server closes; last-handle drop: transport dropped, drive() returns Ok without server help. Lane real-transports (exhaustive, 12 cells): over real TCP, Unix-domain and TLS connections, unbind() and dropping the last handle must make the server see end-of-file, a pending operation must fail and drive() must return. Non-trivial (counted per scenario): >=1 operation pending at the fault and the cut strictly inside a PDU or between two PDUs of one operation. Distinct = hash of (operations, merge order, read mode). Lane paged-faults: a PagedResults (or [EntriesOnly, PagedResults]) stream over 1-4 pages of 0-3 entries served by a scripted server that answers each page request, optionally with a lagging consumer and a bystander operation; EOF / reset / undecodable frame after every response PDU, either right behind it (same burst, before the client can ask for the next page) or after the client reacted; oracle: never a hang, exactly the fully delivered entries are returned, the stream ends normally (finish rc 0) only if the last page's result had arrived - a truncated search is never reported as complete -, the bystander and later operations fail.",
        assumptions: &["client-side events (unbind, drop) are injected only when the driver has quiesced, so that legitimate select! races are not reported", "the scripted transport fails writes after shutdown like a socket", "evaluations counts every injected fault run; distinct_nontrivial counts scenarios containing at least one non-trivial fault"],
        lanes: vec![
            Box::new(PLane { name: "faults", cases: |t| t.pick(60, 600), strat, check }),
            Box::new(PLane { name: "paged-faults", cases: |t| t.pick(25, 300), strat: paged_strat, check: check_paged }),
            Box::new(crate::runner::FnLane { name: "real-transports", run: real_run, replay: real_replay }),
        ],
        workers: (8, 16),
    }
}
