//! C18 — connection setup honours the URL and fails cleanly on bad input (real loopback).

use crate::model::{self, Req, Res, Resp, RespMsg};
use crate::netinfra::{self, Cert};
use crate::runner::{guard, panic_sig, Ctx, Fail, Obs, PLane, Property};
use crate::{ensure, fail};
use ldap3::{LdapConn, LdapConnAsync, LdapConnSettings, StdStream};
use proptest::prelude::*;
use serde::{Deserialize, Serialize};
use std::sync::atomic::{AtomicUsize, Ordering};
use std::sync::{Arc, Mutex, OnceLock};
use std::time::{Duration, Instant};
use tokio::io::{AsyncReadExt, AsyncWriteExt};

#[derive(Clone, Copy, Debug, PartialEq, Eq, Hash, Serialize, Deserialize)]
pub enum Scheme {
    Ldap,
    UpperLdap,
    Ldaps,
    Ldapi,
    Ldapx,
    Http,
}

#[derive(Clone, Copy, Debug, PartialEq, Eq, Hash, Serialize, Deserialize)]
pub enum Host {
    V4,
    Localhost,
    V6,
    Absent,
    SockExisting,
    SockMissing,
    SockWithColon,
    /// a socket whose file name contains a literal '%' followed by two hex digits ("pct%41.sock", written %2541 in the URL)
    SockWithPercent,
    /// a host name that does not resolve; only generated together with a pre-opened TCP stream (which must be used)
    Unresolvable,
}

#[derive(Clone, Copy, Debug, PartialEq, Eq, Hash, Serialize, Deserialize)]
pub enum Port {
    Absent,
    Listening,
    Closed,
    Zero,
    NonNumeric,
}

#[derive(Clone, Copy, Debug, PartialEq, Eq, Hash, Serialize, Deserialize)]
pub enum Stream {
    None,
    Tcp,
    Unix,
    Invalid,
}

#[derive(Clone, Copy, Debug, PartialEq, Eq, Hash, Serialize, Deserialize)]
pub enum Timeout {
    None,
    Short(u16),
    Long,
    /// practically infinite: Duration::MAX, u64::MAX s, ~136 000 years, 1000 years
    Huge(u8),
}

#[derive(Clone, Debug, Serialize, Deserialize)]
pub struct Case {
    pub scheme: Scheme,
    pub host: Host,
    pub port: Port,
    pub noise: u8,
    pub starttls: bool,
    pub stream: Stream,
    pub timeout: Timeout,
    /// the server accepts TCP and then never answers (only with StartTLS and a short timeout)
    pub silent_server: bool,
    pub sync_api: bool,
    pub raw_url: Option<String>,
}

fn strat(_: &Ctx) -> BoxedStrategy<Case> {
    let scheme = prop_oneof![5 => Just(Scheme::Ldap), 1 => Just(Scheme::UpperLdap), 3 => Just(Scheme::Ldaps), 4 => Just(Scheme::Ldapi), 1 => Just(Scheme::Ldapx), 1 => Just(Scheme::Http)];
    let host = prop_oneof![3 => Just(Host::V4), 3 => Just(Host::Localhost), 1 => Just(Host::V6), 2 => Just(Host::Absent), 2 => Just(Host::SockExisting), 1 => Just(Host::SockMissing), 1 => Just(Host::SockWithColon), 1 => Just(Host::SockWithPercent), 1 => Just(Host::Unresolvable)];
    let port = prop_oneof![3 => Just(Port::Absent), 5 => Just(Port::Listening), 2 => Just(Port::Closed), 1 => Just(Port::Zero), 1 => Just(Port::NonNumeric)];
    let stream = prop_oneof![6 => Just(Stream::None), 2 => Just(Stream::Tcp), 2 => Just(Stream::Unix), 1 => Just(Stream::Invalid)];
    let timeout = prop_oneof![3 => Just(Timeout::None), 2 => (100u16..300).prop_map(Timeout::Short), 2 => Just(Timeout::Long), 1 => (0u8..4).prop_map(Timeout::Huge)];
    let raw = proptest::option::weighted(
        0.06,
        proptest::sample::select(&["", "ldap", "ldap:", "://localhost", "ldap://:389/", "ldap://127.0.0.1:99999/", "ldap://[::1/", "ldap://exa mple/", "ldap:x", "ldaps:x", "ldapi:x", "ldap://", "ldaps://", "ldapi://", "ldap:/x", "\u{0}", "ldap://%/", "ldapi://%2F:1:2/"][..]).prop_map(String::from),
    );
    (scheme, host, port, 0u8..5, any::<bool>(), stream, timeout, proptest::bool::weighted(0.15), any::<bool>(), raw)
        .prop_map(|(scheme, host, port, noise, starttls, stream, timeout, silent, sync_api, raw_url)| {
            let is_sock = matches!(host, Host::SockExisting | Host::SockMissing | Host::SockWithColon | Host::SockWithPercent);
            // keep host kinds with the scheme family they make sense for (cross combinations are still URLs the library must not panic on)
            let host = match (scheme, is_sock) {
                (Scheme::Ldapi, false) if host != Host::Absent => Host::SockExisting,
                (Scheme::Ldap | Scheme::UpperLdap | Scheme::Ldaps, true) => Host::V4,
                _ => host,
            };
            // a name that does not resolve is only meaningful where the pre-opened TCP stream must be used instead (no TLS:
            // the certificate would not match the name)
            let host = if host == Host::Unresolvable && !(stream == Stream::Tcp && matches!(scheme, Scheme::Ldap | Scheme::UpperLdap) && !starttls) { Host::V4 } else { host };
            // a server that accepts and then never answers: during StartTLS on a dialled connection, or during StartTLS /
            // the TLS handshake on a pre-opened TCP stream (the connection timeout bounds the whole establishment)
            let silent_server = silent
                && matches!(host, Host::V4 | Host::Localhost)
                && ((stream == Stream::None && port == Port::Listening && starttls && matches!(scheme, Scheme::Ldap | Scheme::UpperLdap)) || (stream == Stream::Tcp && ((starttls && matches!(scheme, Scheme::Ldap | Scheme::UpperLdap)) || scheme == Scheme::Ldaps)));
            let timeout = if silent_server { Timeout::Short(match timeout { Timeout::Short(t) => t, _ => 150 }) } else { timeout };
            Case { scheme, host, port, noise, starttls, stream, timeout, silent_server, sync_api, raw_url }
        })
        .boxed()
}

// ------------------------------------------------------------------ servers

#[derive(Clone, Copy, Debug, PartialEq)]
enum Mode {
    Plain,
    StartTls,
    Tls,
    Silent,
}

async fn serve_conn<S: tokio::io::AsyncRead + tokio::io::AsyncWrite + Unpin>(mut s: S, mode: Mode) {
    match mode {
        Mode::Silent => {
            tokio::time::sleep(Duration::from_secs(40)).await;
        }
        Mode::Plain => {
            let mut tmp = [0u8; 1024];
            while let Ok(Ok(n)) = tokio::time::timeout(Duration::from_secs(5), s.read(&mut tmp)).await {
                if n == 0 {
                    break;
                }
            }
        }
        Mode::Tls => {
            if let Ok(acc) = netinfra::acceptor(Cert::Good) {
                if let Ok(Ok(mut t)) = tokio::time::timeout(Duration::from_secs(5), acc.accept(s)).await {
                    let mut tmp = [0u8; 1024];
                    while let Ok(Ok(n)) = tokio::time::timeout(Duration::from_secs(5), t.read(&mut tmp)).await {
                        if n == 0 {
                            break;
                        }
                    }
                }
            }
        }
        Mode::StartTls => {
            let mut buf = Vec::new();
            let mut tmp = [0u8; 1024];
            let msg = loop {
                match crate::ber::parse(&buf) {
                    crate::ber::Parsed::Complete(t, _) => break Some(t),
                    crate::ber::Parsed::Invalid(_) => break None,
                    crate::ber::Parsed::Incomplete => {}
                }
                match tokio::time::timeout(Duration::from_secs(5), s.read(&mut tmp)).await {
                    Ok(Ok(n)) if n > 0 => buf.extend_from_slice(&tmp[..n]),
                    _ => break None,
                }
            };
            if let Some(Ok(m)) = msg.map(|t| model::decode_request(&t)) {
                if matches!(m.req, Req::Extended { .. }) {
                    let _ = s.write_all(&RespMsg::new(m.id, Resp::Result { app: 24, res: Res::ok(""), sasl: None, exop_name: None, exop_val: None }).encode()).await;
                    let _ = s.flush().await;
                    if let Ok(acc) = netinfra::acceptor(Cert::Good) {
                        if let Ok(Ok(mut t)) = tokio::time::timeout(Duration::from_secs(5), acc.accept(s)).await {
                            while let Ok(Ok(n)) = tokio::time::timeout(Duration::from_secs(5), t.read(&mut tmp)).await {
                                if n == 0 {
                                    break;
                                }
                            }
                        }
                    }
                }
            }
        }
    }
}

struct TcpSrv {
    port: u16,
    accepted: Arc<AtomicUsize>,
    v6: bool,
}

fn spawn_tcp(rt: &tokio::runtime::Runtime, port: u16, mode: Arc<Mutex<Mode>>) -> Result<TcpSrv, String> {
    let accepted = Arc::new(AtomicUsize::new(0));
    let l4 = std::net::TcpListener::bind(("127.0.0.1", port)).map_err(|e| format!("bind 127.0.0.1:{}: {}", port, e))?;
    let port = l4.local_addr().map_err(|e| e.to_string())?.port();
    let l6 = std::net::TcpListener::bind(("::1", port)).ok();
    let v6 = l6.is_some();
    for l in [Some(l4), l6].into_iter().flatten() {
        l.set_nonblocking(true).map_err(|e| e.to_string())?;
        let acc = accepted.clone();
        let mode = mode.clone();
        rt.spawn(async move {
            let Ok(l) = tokio::net::TcpListener::from_std(l) else { return };
            loop {
                let Ok((s, _)) = l.accept().await else { break };
                acc.fetch_add(1, Ordering::SeqCst);
                let m = *mode.lock().unwrap();
                tokio::spawn(serve_conn(s, m));
            }
        });
    }
    Ok(TcpSrv { port, accepted, v6 })
}

struct Defaults {
    _rt: tokio::runtime::Runtime,
    p389: Option<TcpSrv>,
    p636: Option<TcpSrv>,
    mode389: Arc<Mutex<Mode>>,
    lock: Mutex<()>,
}

fn defaults() -> &'static Defaults {
    static D: OnceLock<Defaults> = OnceLock::new();
    D.get_or_init(|| {
        let rt = tokio::runtime::Builder::new_multi_thread().worker_threads(2).enable_all().build().expect("default-port runtime");
        let mode389 = Arc::new(Mutex::new(Mode::Plain));
        let p389 = spawn_tcp(&rt, 389, mode389.clone()).ok();
        let p636 = spawn_tcp(&rt, 636, Arc::new(Mutex::new(Mode::Tls))).ok();
        Defaults { _rt: rt, p389, p636, mode389, lock: Mutex::new(()) }
    })
}

// ------------------------------------------------------------------ model (DESIGN.md Appendix C)

#[derive(Debug, Clone, PartialEq)]
enum Target {
    L1,
    Default,
    UnixPath,
    PreTcp,
    PreUnix,
}

#[derive(Debug, Clone, PartialEq)]
enum Exp {
    Ok(Target),
    Err,
    ErrTimeout,
    /// the documentation does not define the URL: anything but a panic
    Any,
    /// default ports are not bindable here
    Skip,
}

fn is_tcp_scheme(s: Scheme) -> bool {
    matches!(s, Scheme::Ldap | Scheme::UpperLdap | Scheme::Ldaps)
}

fn expect(c: &Case, have_389: bool, have_636: bool, l1_v6: bool) -> Exp {
    if c.raw_url.is_some() {
        return Exp::Any;
    }
    match c.scheme {
        Scheme::Ldapx | Scheme::Http => {
            if c.port == Port::NonNumeric {
                return Exp::Err;
            }
            Exp::Err
        }
        Scheme::Ldapi => {
            if c.port == Port::NonNumeric {
                return Exp::Err;
            }
            if c.host == Host::Absent && c.port != Port::Absent {
                // "ldapi://:389/" is not a URL
                return Exp::Err;
            }
            match c.stream {
                // the documentation says the path is not used with a pre-opened stream; whether a
                // port-bearing URL is then still refused is not defined
                Stream::Unix if c.port != Port::Absent => return Exp::Any,
                Stream::Unix => return Exp::Ok(Target::PreUnix),
                Stream::Tcp | Stream::Invalid => return Exp::Err,
                Stream::None => {}
            }
            if c.host == Host::Absent {
                return Exp::Err;
            }
            if c.port != Port::Absent {
                // a port-bearing ldapi URL is to be rejected
                return Exp::Err;
            }
            match c.host {
                Host::SockExisting | Host::SockWithColon | Host::SockWithPercent => Exp::Ok(Target::UnixPath),
                _ => Exp::Err,
            }
        }
        _ => {
            if c.port == Port::NonNumeric {
                return Exp::Err;
            }
            if c.host == Host::Absent && c.port != Port::Absent {
                // "ldap://:389/" is not a URL (empty host)
                return Exp::Err;
            }
            if c.host == Host::V6 && (c.scheme == Scheme::Ldaps || c.starttls) {
                // certificate-name matching for bracketed IPv6 literals is outside the statement
                return Exp::Any;
            }
            match c.stream {
                Stream::Unix | Stream::Invalid => return Exp::Err,
                Stream::Tcp if c.silent_server => return Exp::ErrTimeout,
                Stream::Tcp => return Exp::Ok(Target::PreTcp),
                Stream::None => {}
            }
            if c.silent_server {
                return Exp::ErrTimeout;
            }
            match c.port {
                Port::Closed | Port::Zero => Exp::Err,
                Port::Listening => {
                    if c.host == Host::V6 && !l1_v6 {
                        Exp::Skip
                    } else {
                        Exp::Ok(Target::L1)
                    }
                }
                Port::Absent => {
                    let have = if c.scheme == Scheme::Ldaps { have_636 } else { have_389 };
                    if have {
                        Exp::Ok(Target::Default)
                    } else {
                        Exp::Skip
                    }
                }
                Port::NonNumeric => Exp::Err,
            }
        }
    }
}

fn url_of(c: &Case, l1_port: u16, closed_port: u16, sock_dir: &std::path::Path) -> String {
    if let Some(r) = &c.raw_url {
        return r.clone();
    }
    let scheme = match c.scheme {
        Scheme::Ldap => "ldap",
        Scheme::UpperLdap => "LDAP",
        Scheme::Ldaps => "ldaps",
        Scheme::Ldapi => "ldapi",
        Scheme::Ldapx => "ldapx",
        Scheme::Http => "http",
    };
    // RFC 3986: the hex digits of a percent-escape are case-insensitive (%2F = %2f); every second noise value writes them in lower case
    let lower_hex = c.noise % 2 == 1;
    let enc = |p: &std::path::Path| -> String { p.to_string_lossy().bytes().map(|b| if b.is_ascii_alphanumeric() || b == b'.' || b == b'-' || b == b'_' { (b as char).to_string() } else if lower_hex { format!("%{:02x}", b) } else { format!("%{:02X}", b) }).collect() };
    let host = match c.host {
        Host::V4 => "127.0.0.1".to_string(),
        Host::Localhost => "localhost".to_string(),
        Host::V6 => "[::1]".to_string(),
        Host::Absent => String::new(),
        Host::SockExisting => enc(&sock_dir.join("ldapi.sock")),
        Host::SockMissing => enc(&sock_dir.join("missing.sock")),
        Host::SockWithColon => enc(&sock_dir.join("with:colon.sock")),
        Host::SockWithPercent => enc(&sock_dir.join("pct%41.sock")),
        Host::Unresolvable => "directory.nonexistent.invalid".to_string(),
    };
    let port = match (c.port, c.scheme) {
        (Port::Absent, _) => String::new(),
        (Port::Listening, _) => format!(":{}", l1_port),
        (Port::Closed, _) => format!(":{}", closed_port),
        (Port::Zero, _) => ":0".to_string(),
        (Port::NonNumeric, _) => ":abc".to_string(),
    };
    let noise = match c.noise {
        0 | 3 => "",
        1 => "/",
        _ => "/dc=example,dc=org??sub?(cn=*)",
    };
    // userinfo in front of the host (TCP schemes only): to be ignored, host and port stay what they are
    let userinfo = if c.noise >= 3 && !matches!(c.scheme, Scheme::Ldapi) && c.host != Host::Absent { "user:pw@" } else { "" };
    format!("{}://{}{}{}{}", scheme, userinfo, host, port, noise)
}

pub fn check(c: &Case, obs: &mut Obs) -> Result<(), Fail> {
    let t_case = Instant::now();
    let d = defaults();
    let uses_default = c.port == Port::Absent && is_tcp_scheme(c.scheme) && c.raw_url.is_none();
    let _g = if uses_default || c.raw_url.is_some() || c.host == Host::Absent { Some(d.lock.lock().unwrap_or_else(|e| e.into_inner())) } else { None };
    let rt = tokio::runtime::Builder::new_multi_thread().worker_threads(1).enable_all().build().map_err(|e| Fail::new("env-runtime", e.to_string()))?;
    // per-case listeners
    let l1_mode = Arc::new(Mutex::new(if c.silent_server {
        Mode::Silent
    } else if c.scheme == Scheme::Ldaps {
        Mode::Tls
    } else if c.starttls {
        Mode::StartTls
    } else {
        Mode::Plain
    }));
    let l1 = spawn_tcp(&rt, 0, l1_mode.clone()).map_err(|e| Fail::new("env-bind", e))?;
    let l2 = spawn_tcp(&rt, 0, l1_mode.clone()).map_err(|e| Fail::new("env-bind", e))?;
    // a port nobody listens on: taken from below the ephemeral range (other workers only ever bind
    // ephemeral ports, 389 and 636), and probed first
    let closed_port = {
        static NEXT: AtomicUsize = AtomicUsize::new(0);
        let mut found = None;
        for _ in 0..50 {
            let p = 10_000 + (NEXT.fetch_add(7, Ordering::SeqCst) % 20_000) as u16;
            if std::net::TcpStream::connect(("127.0.0.1", p)).is_err() && std::net::TcpStream::connect(("::1", p)).is_err() {
                found = Some(p);
                break;
            }
        }
        found.ok_or_else(|| Fail::new("env-bind", "no closed port found"))?
    };
    if _g.is_some() {
        *d.mode389.lock().unwrap() = if c.starttls { Mode::StartTls } else { Mode::Plain };
    }
    static DIRSEQ: AtomicUsize = AtomicUsize::new(0);
    let sock_dir = std::env::temp_dir().join(format!("ldap3-verif-c18-{}-{}", std::process::id(), DIRSEQ.fetch_add(1, Ordering::SeqCst)));
    std::fs::create_dir_all(&sock_dir).map_err(|e| Fail::new("env-tmp", e.to_string()))?;
    let unix_accepted = Arc::new(AtomicUsize::new(0));
    for name in ["ldapi.sock", "with:colon.sock", "pct%41.sock"] {
        let ua = unix_accepted.clone();
        let p = sock_dir.join(name);
        let _e = rt.enter();
        if let Ok(l) = tokio::net::UnixListener::bind(&p) {
            rt.spawn(async move {
                loop {
                    let Ok((s, _)) = l.accept().await else { break };
                    ua.fetch_add(1, Ordering::SeqCst);
                    tokio::spawn(serve_conn(s, Mode::Plain));
                }
            });
        }
    }
    let cleanup = |r: Result<(), Fail>| {
        let _ = std::fs::remove_dir_all(&sock_dir);
        r
    };
    let url = url_of(c, l1.port, closed_port, &sock_dir);
    let exp = expect(c, d.p389.is_some(), d.p636.is_some(), l1.v6);
    if exp == Exp::Skip {
        obs.label("skipped:default-port-or-ipv6-unavailable");
        return cleanup(Ok(()));
    }
    if _g.is_some() {
        // let accepts that belong to the previous holder of the default ports settle
        let snap = || (d.p389.as_ref().map(|s| s.accepted.load(Ordering::SeqCst)).unwrap_or(0), d.p636.as_ref().map(|s| s.accepted.load(Ordering::SeqCst)).unwrap_or(0));
        let mut last = snap();
        for _ in 0..50 {
            std::thread::sleep(Duration::from_millis(4));
            let now = snap();
            if now == last {
                break;
            }
            last = now;
        }
    }
    let before_default = (d.p389.as_ref().map(|s| s.accepted.load(Ordering::SeqCst)).unwrap_or(0), d.p636.as_ref().map(|s| s.accepted.load(Ordering::SeqCst)).unwrap_or(0));
    // settings
    let mut unix_peer = None;
    let build_settings = |unix_peer: &mut Option<std::os::unix::net::UnixStream>| -> Result<LdapConnSettings, Fail> {
        let mut s = LdapConnSettings::new();
        if c.starttls {
            s = s.set_starttls(true);
        }
        if c.scheme == Scheme::Ldaps || c.starttls {
            s = s.set_connector(netinfra::ca_connector().map_err(|e| Fail::new("env-tls", e))?);
        }
        match c.timeout {
            Timeout::None => {}
            Timeout::Short(ms) => s = s.set_conn_timeout(Duration::from_millis(ms as u64)),
            Timeout::Long => s = s.set_conn_timeout(Duration::from_secs(10)),
            Timeout::Huge(k) => {
                s = s.set_conn_timeout(match k {
                    0 => Duration::MAX,
                    1 => Duration::from_secs(u64::MAX),
                    2 => Duration::from_secs(u32::MAX as u64 * 1000),
                    _ => Duration::from_secs(86_400 * 365 * 1000),
                })
            }
        }
        match c.stream {
            Stream::None => {}
            Stream::Tcp => {
                let t = std::net::TcpStream::connect(("127.0.0.1", l2.port)).map_err(|e| Fail::new("env-connect", e.to_string()))?;
                s = s.set_std_stream(StdStream::Tcp(t));
            }
            Stream::Unix => {
                let (a, b) = std::os::unix::net::UnixStream::pair().map_err(|e| Fail::new("env-unix", e.to_string()))?;
                *unix_peer = Some(b);
                s = s.set_std_stream(StdStream::Unix(a));
            }
            Stream::Invalid => s = s.set_std_stream(StdStream::Invalid),
        }
        Ok(s)
    };
    let settings = match build_settings(&mut unix_peer) {
        Ok(s) => s,
        Err(f) => return cleanup(Err(f)),
    };
    let l2_before = l2.accepted.load(Ordering::SeqCst);
    // run the client under catch_unwind, with a generous wall guard on a helper thread
    let t0 = Instant::now();
    let sync_api = c.sync_api;
    let url2 = url.clone();
    let (tx, rx) = std::sync::mpsc::channel();
    let th = std::thread::spawn(move || {
        let r = guard(move || -> Result<(), String> {
            if sync_api {
                match LdapConn::with_settings(settings, &url2) {
                    Ok(conn) => {
                        drop(conn);
                        Ok(())
                    }
                    Err(e) => Err(crate::sim::err_kind(&e)),
                }
            } else {
                let crt = tokio::runtime::Builder::new_current_thread().enable_all().build().map_err(|e| e.to_string())?;
                crt.block_on(async move {
                    match LdapConnAsync::with_settings(settings, &url2).await {
                        Ok((conn, ldap)) => {
                            drop(ldap);
                            drop(conn);
                            Ok(())
                        }
                        Err(e) => Err(crate::sim::err_kind(&e)),
                    }
                })
            }
        });
        let _ = tx.send(r);
    });
    let deadline = match c.timeout {
        Timeout::Short(ms) => Duration::from_millis(ms as u64 * 100),
        _ => Duration::from_secs(40),
    };
    let r = match rx.recv_timeout(deadline) {
        Ok(r) => {
            let _ = th.join();
            r
        }
        Err(_) => {
            // the client thread is leaked; the run ends here
            if c.silent_server {
                return cleanup(Err(Fail::new("c18:timeout-does-not-bound-establishment", format!("conn_timeout of {:?} set, server silent during StartTLS: the client is still blocked after {:?} (100x the deadline) (url {:?})", c.timeout, deadline, url))));
            }
            return cleanup(Err(Fail::new("env-timeout", format!("connection setup for {:?} did not return within {:?}", url, deadline))));
        }
    };
    let elapsed = t0.elapsed();
    let outcome: Result<(), String> = match r {
        Err(p) => return cleanup(Err(Fail::new(panic_sig(&p), format!("connection setup panicked for url {:?} (case {:?}): {}", url, c, p)))),
        Ok(o) => o,
    };
    // which endpoint received the connection
    let wait_count = |a: &Arc<AtomicUsize>, base: usize| -> usize {
        let t = Instant::now();
        while a.load(Ordering::SeqCst) == base && t.elapsed() < Duration::from_secs(2) {
            std::thread::sleep(Duration::from_millis(2));
        }
        a.load(Ordering::SeqCst) - base
    };
    let res = (|| -> Result<(), Fail> {
        match (&exp, &outcome) {
            (Exp::Any, _) => {}
            (Exp::Err, Ok(())) => fail!(if c.scheme == Scheme::Ldapi && c.port != Port::Absent { "c18:ldapi-port-accepted" } else { "c18:bad-setup-accepted" }, "connection setup for {:?} (case {:?}) must fail but returned a connection", url, c),
            (Exp::Err, Err(_)) => {}
            (Exp::ErrTimeout, Err(k)) => ensure!(k == "Timeout", "c18:timeout-kind", "silent server with conn_timeout: expected Timeout, got {}", k),
            (Exp::ErrTimeout, Ok(())) => fail!("c18:bad-setup-accepted", "a connection was returned although the server never answered the StartTLS request"),
            (Exp::Ok(_), Err(e)) if e == "Timeout" && matches!(c.timeout, Timeout::Short(_)) => {
                // a 100-300 ms deadline can legitimately expire on a loaded machine: no verdict
            }
            (Exp::Ok(t), Err(e)) => fail!("c18:valid-setup-failed", "connection setup for {:?} (expected to reach {:?}) failed with {} (case {:?})", url, t, e, c),
            (Exp::Ok(t), Ok(())) => {
                let l1n = l1.accepted.load(Ordering::SeqCst);
                match t {
                    Target::L1 => ensure!(wait_count(&l1.accepted, 0) == 1, "c18:wrong-endpoint", "url {:?}: the listener on the URL's port saw {} connections", url, l1.accepted.load(Ordering::SeqCst)),
                    Target::Default => {
                        let (srv, base) = if c.scheme == Scheme::Ldaps { (d.p636.as_ref().unwrap(), before_default.1) } else { (d.p389.as_ref().unwrap(), before_default.0) };
                        ensure!(wait_count(&srv.accepted, base) >= 1, "c18:wrong-default-port", "url {:?}: the default-port listener ({}) saw no connection", url, srv.port);
                        ensure!(l1n == 0, "c18:wrong-endpoint", "url {:?}: an unrelated listener was contacted", url);
                    }
                    Target::UnixPath => ensure!(wait_count(&unix_accepted, 0) == 1, "c18:wrong-endpoint", "url {:?}: the Unix socket listener saw no connection", url),
                    Target::PreTcp => {
                        ensure!(l1n == 0, "c18:preopened-stream-ignored", "url {:?}: a pre-opened TCP stream was supplied but the URL's endpoint was contacted", url);
                        let _ = l2_before;
                        ensure!(wait_count(&l2.accepted, 0) == 1, "harness-c18", "pre-opened stream bookkeeping: {} accepts", l2.accepted.load(Ordering::SeqCst));
                    }
                    Target::PreUnix => ensure!(unix_accepted.load(Ordering::SeqCst) == 0 && l1n == 0, "c18:preopened-stream-ignored", "url {:?}: a pre-opened Unix stream was supplied but another endpoint was contacted", url),
                }
            }
            (Exp::Skip, _) => {}
        }
        if let (Timeout::Short(ms), Err(k)) = (c.timeout, &outcome) {
            if k == "Timeout" {
                ensure!(elapsed >= Duration::from_millis(ms as u64 - 1), "c18:timeout-early", "Timeout after {:?} with a {} ms deadline", elapsed, ms);
            }
        }
        Ok(())
    })();
    drop(unix_peer);
    rt.shutdown_background();
    if std::env::var("VERIF_C18_TIMING").is_ok() {
        eprintln!("{:6.0} ms client={:6.0} ms {:?} -> {:?} / {:?}", t_case.elapsed().as_secs_f64() * 1000.0, elapsed.as_secs_f64() * 1000.0, c, exp, outcome);
    }
    obs.label(format!("{:?}", c.scheme));
    obs.label(format!("exp:{}", match &exp { Exp::Ok(t) => format!("Ok({:?})", t), e => format!("{:?}", e) }));
    obs.label(if c.sync_api { "sync" } else { "async" });
    let plain = c.scheme == Scheme::Ldap && matches!(c.host, Host::V4 | Host::Localhost) && c.port == Port::Listening && !c.starttls && c.stream == Stream::None && c.timeout == Timeout::None && c.raw_url.is_none();
    if !plain {
        obs.nontrivial(format!("{:?}", c));
    }
    cleanup(res)
}

pub fn property() -> Property {
    Property {
        id: "C18",
        level: "exploration",
        rule: "generated URL x settings combinations through both LdapConnAsync::with_settings and LdapConn::with_settings against real loopback endpoints: scheme {ldap, LDAP, ldaps, ldapi, ldapx, http} x host {127.0.0.1, localhost, [::1], absent, percent-encoded socket path (escapes with upper- or lower-case hex digits) existing / missing / containing %3A / containing a literal %41 (written %2541), a name that does not resolve (with a pre-opened TCP stream, which must be used)} x port {absent (default 389/636 listeners bound by the harness), a listening port, a closed port, 0, non-numeric} x path/query noise x StartTLS flag x pre-opened stream {none, connected TCP, Unix pair, Invalid} x conn_timeout {none, 100-300 ms, 10 s, practically infinite incl. Duration::MAX} x server {cooperative, silent during StartTLS / the TLS handshake - on a dialled connection or on a pre-opened TCP stream}, optional userinfo in the URL, plus syntactically broken URLs. Oracle: a reference model of the documented dispatch (DESIGN.md Appendix C) predicts Ok and WHICH endpoint must receive the connection (per-case listeners count accepts), or Err (Timeout for the silent-server case); a panic is always a violation; the silent-server case is a violation only if the client is still blocked after 100x the deadline. Non-trivial: any combination other than plain ldap://host:port with defaults. Distinct = debug rendering of the case.",
        assumptions: &[
            "ports 389/636 on 127.0.0.1 and ::1 are bound by the harness; if they cannot be bound those sub-cases are skipped (labelled), never reported",
            "for URLs the documentation does not define (raw broken/authority-less URLs) only a panic is a violation",
            "real sockets and wall time: environment failures (env-*) are inconclusive (exit 2)",
        ],
        lanes: vec![Box::new(PLane { name: "setup", cases: |t| t.pick(150, 6_000), strat, check })],
        workers: (6, 12),
    }
}
