//! C01 — responses are routed to the operation whose message ID they carry.

use crate::model::{Entry, Res, Resp, RespMsg};
use crate::runner::{panic_sig, Ctx, Fail, Obs, PLane, Property};
use crate::sim::{self, err_kind, quiesce, DriveEnd, Recv, SimResult};
use crate::simops::{self, Single};
use crate::{ensure, fail};
use ldap3::adapters::EntriesOnly;
use ldap3::{Ldap, Scope};
use proptest::collection::vec;
use proptest::prelude::*;
use serde::{Deserialize, Serialize};
use std::collections::{BTreeMap, HashMap};

#[derive(Clone, Copy, Debug, PartialEq, Eq, Hash, Serialize, Deserialize)]
pub enum Item {
    Entry,
    Reference,
    Intermediate,
}

#[derive(Clone, Debug, PartialEq, Eq, Hash, Serialize, Deserialize)]
pub enum OpKind {
    Single(Single),
    SearchDirect(Vec<Item>),
    SearchEntriesOnly(Vec<Item>),
    /// a direct stream that the caller drops (without finish()) after reading this many items; whatever
    /// the server still sends for it is "late" traffic that must not disturb anybody
    SearchDropped(Vec<Item>, u8),
}

#[derive(Clone, Debug, Serialize, Deserialize)]
pub struct OpSpec {
    pub kind: OpKind,
    pub handle: u8,
    pub yields: u8,
    /// a search whose consumer does not read anything until every other operation of the case has completed:
    /// its items pile up at the client meanwhile and must not hold up anybody else
    #[serde(default)]
    pub lag: bool,
}

/// opens when every non-lagging operation has completed
pub struct Gate {
    left: std::sync::atomic::AtomicUsize,
    notify: tokio::sync::Notify,
}

#[derive(Clone, Copy, Debug, PartialEq, Eq, Hash, Serialize, Deserialize)]
pub enum UnsolKind {
    /// message id 0 (unsolicited notification)
    Zero,
    /// an id that was never issued, with a result / entry / done payload
    NeverResult,
    NeverEntry,
    NeverDone,
    /// one more result for an operation that has already completed
    LateResult,
    /// an entry for a search whose done has already been sent
    LateEntry,
}

#[derive(Clone, Debug, Serialize, Deserialize)]
pub struct Unsol {
    pub before: u16,
    pub kind: UnsolKind,
}

#[derive(Clone, Debug, Serialize, Deserialize)]
pub struct Case {
    pub ops: Vec<OpSpec>,
    /// send priority of every PDU, flattened in op order (lower goes first among sendable PDUs)
    pub ranks: Vec<u16>,
    /// PDU k is pushed in the same read-ready batch as the next one
    pub glue: Vec<bool>,
    pub unsol: Vec<Unsol>,
    pub chunks: Vec<usize>,
    pub yields: Vec<bool>,
    pub sched: u64,
    /// the id counter is positioned here before the first operation (ids with 1-4 content octets)
    #[serde(default)]
    pub start_id: i32,
    /// before operation i is issued the id counter is moved back by rewinds[i] (as after a wrap-around),
    /// so that ids of completed operations are handed out again while others are outstanding
    #[serde(default)]
    pub rewinds: Vec<u8>,
    /// padding (bytes of an extra attribute value) of entry PDUs, cycled over (op, seq); empty = none.
    /// Large entries make the driver's read buffer grow and be re-used / re-allocated.
    #[serde(default)]
    pub pads: Vec<u32>,
    /// (after how many PDUs, for how many PDUs) the client's socket cannot be written to: requests issued
    /// meanwhile are stuck in the driver while responses for other operations keep arriving
    #[serde(default)]
    pub stall: Option<(u16, u8)>,
}

pub fn start_id() -> BoxedStrategy<i32> {
    prop_oneof![4 => Just(0i32), 2 => proptest::sample::select(&[120i32, 126, 127, 250, 254, 255, 32760, 32766, 32767, 65530, 65535, 8388600, 8388607, 16777215, 2147483630][..]), 1 => 0i32..70000].boxed()
}

fn items() -> BoxedStrategy<Vec<Item>> {
    vec(prop_oneof![3 => Just(Item::Entry), 1 => Just(Item::Reference), 1 => Just(Item::Intermediate)], 0..=6).boxed()
}

pub fn chunk_plan() -> BoxedStrategy<(Vec<usize>, Vec<bool>)> {
    prop_oneof![
        2 => Just((vec![], vec![])),
        2 => Just((vec![1], vec![false])),
        1 => Just((vec![1], vec![true])),
        3 => (vec(prop_oneof![1usize..8, 1usize..40, Just(0usize)], 1..8), vec(any::<bool>(), 1..5)),
        1 => (vec(1usize..4, 1..4), Just(vec![true])),
    ]
    .boxed()
}

fn strat(_: &Ctx) -> BoxedStrategy<Case> {
    let kind = prop_oneof![
        4 => simops::single_strat().prop_map(OpKind::Single),
        3 => items().prop_map(OpKind::SearchDirect),
        3 => items().prop_map(OpKind::SearchEntriesOnly),
        2 => (items(), 0u8..4).prop_map(|(i, k)| OpKind::SearchDropped(i, k)),
    ];
    // rarely: a dropped stream with a long tail of late entries (130-400 responses nobody waits for, in a row)
    let kind = prop_oneof![150 => kind, 1 => (130usize..400, 0u8..3).prop_map(|(n, k)| OpKind::SearchDropped(vec![Item::Entry; n], k))];
    let op = (kind, 0u8..4, 0u8..4).prop_map(|(kind, handle, yields)| OpSpec { kind, handle, yields, lag: false });
    // rarely: one more search with 1100-2500 entries and a lagging consumer, on a handle of its own
    let lagging = proptest::option::weighted(0.006, (1100usize..2500, any::<bool>())).prop_map(|o| o.map(|(n, direct)| OpSpec { kind: if direct { OpKind::SearchDirect(vec![Item::Entry; n]) } else { OpKind::SearchEntriesOnly(vec![Item::Entry; n]) }, handle: 200, yields: 0, lag: true }));
    let unsol = vec(
        (any::<u16>(), prop_oneof![Just(UnsolKind::Zero), Just(UnsolKind::NeverResult), Just(UnsolKind::NeverEntry), Just(UnsolKind::NeverDone), Just(UnsolKind::LateResult), Just(UnsolKind::LateEntry)])
            .prop_map(|(before, kind)| Unsol { before, kind }),
        0..=4,
    );
    ((vec(op, 1..=12), lagging).prop_map(|(mut ops, l)| {
        if let Some(l) = l {
            let at = ops.len() / 2;
            ops.insert(at, l);
        }
        ops
    }), vec(any::<u16>(), 100), vec(any::<bool>(), 1..6), unsol, chunk_plan(), any::<u64>(), start_id(), prop_oneof![2 => Just(vec![]), 1 => vec(prop_oneof![2 => Just(0u8), 1 => 1u8..8], 12)], prop_oneof![5 => Just(vec![]), 1 => vec(prop_oneof![2 => Just(0u32), 1 => proptest::sample::select(&[9_000u32, 20_000, 41_000, 70_000, 100_000, 150_000, 300_000][..])], 1..5)], proptest::option::weighted(0.2, (0u16..12, 1u8..8)))
        .prop_map(|(ops, ranks, glue, unsol, (chunks, yields), sched, start_id, rewinds, pads, stall)| {
            // a stream dropped without finish() releases its id while the server may still send items under
            // it; re-using that id is then ambiguous by protocol, so such cases keep the counter monotonic
            // (the same holds for a server that sends one more PDU under the id of a completed operation)
            let ambiguous = ops.iter().any(|o: &OpSpec| matches!(o.kind, OpKind::SearchDropped(..))) || unsol.iter().any(|u: &Unsol| matches!(u.kind, UnsolKind::LateResult | UnsolKind::LateEntry));
            let rewinds = if ambiguous { vec![] } else { rewinds };
            // big entries with byte-sized reads would cost seconds per case: scale the read plan up
            let chunks = if pads.iter().any(|p| *p > 0) || ops.iter().any(|o: &OpSpec| o.lag) { chunks.iter().map(|c: &usize| c.saturating_mul(3001)).collect() } else { chunks };
            Case { ops, ranks, glue, unsol, chunks, yields, sched, start_id, rewinds, pads, stall }
        })
        .boxed()
}

#[derive(Clone, Debug, Default)]
pub struct OpObs {
    pub last_id: i32,
    pub tokens: Vec<String>,
    pub error: Option<String>,
    pub panicked: Option<String>,
}

fn op_pdus(kind: &OpKind) -> Vec<Option<Item>> {
    // None = the final result PDU
    match kind {
        OpKind::Single(_) => vec![None],
        OpKind::SearchDirect(it) | OpKind::SearchEntriesOnly(it) | OpKind::SearchDropped(it, _) => it.iter().map(|i| Some(*i)).chain(std::iter::once(None)).collect(),
    }
}

fn token(op: usize, seq: usize) -> String {
    format!("tok-{}-{}", op, seq)
}

fn pdu_msg(id: i64, kind: &OpKind, item: Option<Item>, tok: &str, pad: u32) -> RespMsg {
    let resp = match item {
        Some(Item::Entry) if pad > 0 => Resp::Entry(Entry { dn: tok.to_string(), attrs: vec![("cn".into(), vec![b"v".to_vec()]), ("pad".into(), vec![vec![0x70; pad as usize]])] }),
        Some(Item::Entry) => Resp::Entry(Entry { dn: tok.to_string(), attrs: vec![("cn".into(), vec![b"v".to_vec()])] }),
        Some(Item::Reference) => Resp::Reference(vec![tok.to_string()]),
        Some(Item::Intermediate) => Resp::Intermediate { name: Some("1.2.3".into()), val: Some(tok.as_bytes().to_vec()) },
        None => {
            let app = match kind {
                OpKind::Single(s) => s.resp_tag(),
                _ => 5,
            };
            Resp::result(app, Res::ok(tok))
        }
    };
    RespMsg::new(id, resp)
}

async fn client_op(ldap: &mut Ldap, idx: usize, spec: &OpSpec, gate: &Gate) -> OpObs {
    let mk = simops::marker(idx);
    let mut obs = OpObs::default();
    for _ in 0..spec.yields {
        tokio::task::yield_now().await;
    }
    match &spec.kind {
        OpKind::Single(k) => {
            let r = simops::exec_single(ldap, *k, &mk).await;
            obs.last_id = ldap.last_id();
            match r {
                Ok(res) => obs.tokens.push(res.text),
                Err(e) => obs.error = Some(err_kind(&e)),
            }
        }
        OpKind::SearchDropped(_, keep) => {
            match ldap.streaming_search(&mk, Scope::Subtree, "(objectClass=*)", vec!["*"]).await {
                Ok(mut stream) => {
                    obs.last_id = stream.ldap_handle().last_id();
                    for _ in 0..*keep {
                        match stream.next().await {
                            Ok(Some(re)) => obs.tokens.push(simops::item_token(&re).1),
                            Ok(None) => break,
                            Err(e) => {
                                obs.error = Some(err_kind(&e));
                                break;
                            }
                        }
                    }
                    drop(stream);
                }
                Err(e) => obs.error = Some(err_kind(&e)),
            }
        }
        OpKind::SearchDirect(_) | OpKind::SearchEntriesOnly(_) => {
            let direct = matches!(spec.kind, OpKind::SearchDirect(_));
            let stream = if direct {
                ldap.streaming_search(&mk, Scope::Subtree, "(objectClass=*)", vec!["*"]).await
            } else {
                ldap.streaming_search_with(EntriesOnly::new(), &mk, Scope::Subtree, "(objectClass=*)", vec!["*"]).await
            };
            let mut stream = match stream {
                Ok(s) => s,
                Err(e) => {
                    obs.error = Some(err_kind(&e));
                    return obs;
                }
            };
            obs.last_id = stream.ldap_handle().last_id();
            if spec.lag {
                loop {
                    let n = gate.notify.notified();
                    if gate.left.load(std::sync::atomic::Ordering::SeqCst) == 0 {
                        break;
                    }
                    n.await;
                }
            }
            loop {
                match stream.next().await {
                    Ok(Some(re)) => obs.tokens.push(simops::item_token(&re).1),
                    Ok(None) => break,
                    Err(e) => {
                        obs.error = Some(err_kind(&e));
                        break;
                    }
                }
            }
            let res = stream.finish().await;
            obs.tokens.push(res.text.clone());
            for r in res.refs {
                obs.tokens.push(format!("ref:{}", r));
            }
        }
    }
    obs
}

struct ServerLog {
    wire_id: HashMap<usize, i64>,
    arrival: Vec<usize>,
    /// (op index or usize::MAX for unsolicited, seq)
    sent: Vec<(usize, usize)>,
    outstanding_max: usize,
    unsol_sent: Vec<UnsolKind>,
    unsol_mid_op: bool,
    problems: Vec<String>,
}

async fn server(wire: sim::Wire, case: Case) -> ServerLog {
    let n = case.ops.len();
    let pdus: Vec<Vec<Option<Item>>> = case.ops.iter().map(|o| op_pdus(&o.kind)).collect();
    let total: usize = pdus.iter().map(|p| p.len()).sum();
    // flattened rank lookup
    let mut base = vec![0usize; n];
    let mut acc = 0;
    for i in 0..n {
        base[i] = acc;
        acc += pdus[i].len();
    }
    let rank = |op: usize, seq: usize| -> (u16, usize) { (case.ranks[(base[op] + seq) % case.ranks.len()], base[op] + seq) };
    let mut next = vec![0usize; n];
    let mut log = ServerLog { wire_id: HashMap::new(), arrival: vec![], sent: vec![], outstanding_max: 0, unsol_sent: vec![], unsol_mid_op: false, problems: vec![] };
    let mut sent_count = 0usize;
    let mut stalls = 0;
    let mut unsol: Vec<(usize, UnsolKind)> = case.unsol.iter().map(|u| (crate::runner::pick_idx(u.before, total + 1), u.kind)).collect();
    unsol.sort_by_key(|u| u.0);
    let mut never = 1_000_000i64;
    let mut blocked = false;
    let mut stall_over = false;
    loop {
        if let (Some((at, len)), false) = (case.stall, stall_over) {
            let (at, len) = (at as usize, len as usize);
            if !blocked && sent_count >= at && sent_count < at + len {
                wire.block_writes(true);
                blocked = true;
            } else if blocked && sent_count >= at + len {
                wire.block_writes(false);
                blocked = false;
                stall_over = true;
            }
        }
        quiesce().await;
        while let Some(r) = wire.try_recv() {
            match r {
                Recv::Msg(Ok(m), _, _) => match simops::marker_index(&m) {
                    Some(i) if i < n && !log.wire_id.contains_key(&i) => {
                        log.wire_id.insert(i, m.id);
                        log.arrival.push(i);
                    }
                    _ => log.problems.push(format!("unexpected request {:?}", m)),
                },
                Recv::Msg(Err(e), _, raw) => log.problems.push(format!("undecodable request {}: {}", crate::ber::hex(&raw), e)),
                Recv::Garbage(e) => log.problems.push(format!("garbage from client: {}", e)),
                Recv::Closed => {}
            }
        }
        if sent_count == total {
            break;
        }
        let mut batch: Vec<u8> = Vec::new();
        let mut progressed = false;
        loop {
            // unsolicited PDUs scheduled before this position
            while let Some(&(pos, kind)) = unsol.first() {
                if pos > sent_count {
                    break;
                }
                unsol.remove(0);
                let completed_single: Option<usize> = (0..n).find(|&i| matches!(case.ops[i].kind, OpKind::Single(_)) && next[i] == pdus[i].len() && log.wire_id.contains_key(&i));
                let completed_search: Option<usize> = (0..n).find(|&i| !matches!(case.ops[i].kind, OpKind::Single(_)) && next[i] == pdus[i].len() && log.wire_id.contains_key(&i));
                let tok = format!("unsol-{}", log.unsol_sent.len());
                never += 1;
                let msg = match kind {
                    UnsolKind::Zero => RespMsg::new(0, Resp::Result { app: 24, res: Res::code(52, &tok), sasl: None, exop_name: Some("1.3.6.1.4.1.1466.20036".into()), exop_val: None }),
                    UnsolKind::NeverResult => RespMsg::new(never, Resp::result(11, Res::ok(&tok))),
                    UnsolKind::NeverEntry => RespMsg::new(never, Resp::Entry(Entry::simple(&tok))),
                    UnsolKind::NeverDone => RespMsg::new(never, Resp::result(5, Res::ok(&tok))),
                    UnsolKind::LateResult => match completed_single.or(completed_search) {
                        Some(i) => RespMsg::new(log.wire_id[&i], Resp::result(if matches!(case.ops[i].kind, OpKind::Single(_)) { 11 } else { 5 }, Res::ok(&tok))),
                        None => RespMsg::new(never, Resp::result(11, Res::ok(&tok))),
                    },
                    UnsolKind::LateEntry => match completed_search {
                        Some(i) => RespMsg::new(log.wire_id[&i], Resp::Entry(Entry::simple(&tok))),
                        None => RespMsg::new(never, Resp::Entry(Entry::simple(&tok))),
                    },
                };
                batch.extend_from_slice(&msg.encode());
                log.unsol_sent.push(kind);
                log.sent.push((usize::MAX, 0));
                if (0..n).any(|i| next[i] > 0 && next[i] < pdus[i].len()) {
                    log.unsol_mid_op = true;
                }
                progressed = true;
            }
            // next sendable PDU with the lowest rank
            let cand = (0..n).filter(|&i| log.wire_id.contains_key(&i) && next[i] < pdus[i].len()).min_by_key(|&i| rank(i, next[i]));
            let Some(op) = cand else { break };
            let outstanding = (0..n).filter(|&i| log.wire_id.contains_key(&i) && next[i] < pdus[i].len()).count();
            log.outstanding_max = log.outstanding_max.max(outstanding);
            let seq = next[op];
            let pad = if case.pads.is_empty() { 0 } else { case.pads[(op * 7 + seq) % case.pads.len()] };
            let msg = pdu_msg(log.wire_id[&op], &case.ops[op].kind, pdus[op][seq], &token(op, seq), pad);
            batch.extend_from_slice(&msg.encode());
            log.sent.push((op, seq));
            next[op] += 1;
            sent_count += 1;
            progressed = true;
            let g = case.glue[(sent_count - 1) % case.glue.len()];
            if !g || sent_count == total {
                break;
            }
        }
        if !batch.is_empty() {
            wire.push(&batch);
        }
        if progressed {
            stalls = 0;
        } else if blocked {
            // nothing more can be sent until the stuck requests get through
            wire.block_writes(false);
            blocked = false;
            stall_over = true;
            stalls = 0;
        } else {
            stalls += 1;
            if stalls > 3 {
                log.problems.push(format!("server stalled: {} of {} PDUs sent, requests of ops {:?} never arrived", sent_count, total, (0..n).filter(|i| !log.wire_id.contains_key(i)).collect::<Vec<_>>()));
                break;
            }
        }
    }
    // trailing unsolicited PDUs
    quiesce().await;
    log
}

pub fn check(case: &Case, obs: &mut Obs) -> Result<(), Fail> {
    let c = case.clone();
    let out = sim::run_sim(case.sched, async move {
        let conn = sim::connect();
        conn.msgmap.lock().unwrap().0 = c.start_id;
        conn.wire.with(|w| {
            w.read_chunks = c.chunks.clone();
            w.yield_after_chunk = c.yields.clone();
        });
        let srv = tokio::spawn(server(conn.wire.clone(), c.clone()));
        // group ops by handle
        let mut by_handle: BTreeMap<u8, Vec<usize>> = BTreeMap::new();
        for (i, o) in c.ops.iter().enumerate() {
            by_handle.entry(o.handle).or_default().push(i);
        }
        let mut tasks = Vec::new();
        let gate = std::sync::Arc::new(Gate { left: std::sync::atomic::AtomicUsize::new(c.ops.iter().filter(|o| !o.lag).count()), notify: tokio::sync::Notify::new() });
        for (_, idxs) in by_handle {
            let mut ldap = conn.ldap.clone();
            let ops = c.ops.clone();
            let rewinds = c.rewinds.clone();
            let mm = conn.msgmap.clone();
            let gate = gate.clone();
            tasks.push(tokio::spawn(async move {
                let mut res = Vec::new();
                for i in idxs {
                    let g2 = gate.clone();
                    let lagging = ops[i].lag;
                    if let Some(k) = rewinds.get(i).copied().filter(|k| *k > 0) {
                        let mut m = mm.lock().unwrap();
                        m.0 = (m.0 - k as i32).max(0);
                    }
                    let h = {
                        let mut l2 = ldap.clone();
                        let spec = ops[i].clone();
                        // each op runs in its own task so that a panic is attributed to it
                        let jh = tokio::spawn(async move {
                            let o = client_op(&mut l2, i, &spec, &g2).await;
                            (o, l2)
                        });
                        jh.await
                    };
                    if !lagging {
                        gate.left.fetch_sub(1, std::sync::atomic::Ordering::SeqCst);
                        gate.notify.notify_waiters();
                    }
                    match h {
                        Ok((o, l2)) => {
                            ldap = l2;
                            res.push((i, o));
                        }
                        Err(_) => {
                            let p = crate::runner::take_panics();
                            res.push((i, OpObs { panicked: Some(p.into_iter().last().unwrap_or_default()), ..Default::default() }));
                        }
                    }
                }
                res
            }));
        }
        let mut observed: Vec<(usize, OpObs)> = Vec::new();
        for t in tasks {
            if let Ok(v) = t.await {
                observed.extend(v);
            }
        }
        let log = srv.await.expect("server task");
        let sim::Conn { ldap, driver, .. } = conn;
        drop(ldap);
        let end = sim::join_driver(driver).await;
        (observed, log, end)
    });
    let (observed, log, end) = match out {
        SimResult::Done(v) => v,
        SimResult::Hang => fail!("c01:hang", "scenario never completed (virtual watchdog): some operation or the driver is stuck"),
    };
    ensure!(log.problems.is_empty(), "c01:server-problem", "{:?}", log.problems);
    match &end {
        DriveEnd::Ok => {}
        DriveEnd::Panic(p) => fail!(panic_sig(p), "driver panicked: {}", p),
        DriveEnd::Err(e) => fail!("c01:driver-error", "driver ended with an error although the server behaved: {}", e),
    }
    let pdus: Vec<Vec<Option<Item>>> = case.ops.iter().map(|o| op_pdus(&o.kind)).collect();
    for (i, o) in &observed {
        let spec = &case.ops[*i];
        if let Some(p) = &o.panicked {
            fail!(panic_sig(p), "operation {} ({:?}) panicked: {}", i, spec.kind, p);
        }
        ensure!(o.error.is_none(), "c01:op-error", "operation {} ({:?}) failed with {:?} although all its responses were sent", i, spec.kind, o.error);
        let wid = log.wire_id.get(i).copied().unwrap_or(-1);
        ensure!(o.last_id as i64 == wid, "c01:last-id", "operation {} reports message id {} but its request travelled under id {}", i, o.last_id, wid);
        // expected tokens
        let mut want: Vec<String> = Vec::new();
        let mut refs: Vec<String> = Vec::new();
        for (seq, it) in pdus[*i].iter().enumerate() {
            if let OpKind::SearchDropped(_, keep) = &spec.kind {
                // the caller read at most `keep` items (fewer if the search ended first) and never asked for the result
                if seq < *keep as usize && it.is_some() {
                    want.push(token(*i, seq));
                }
                continue;
            }
            match (&spec.kind, it) {
                (OpKind::SearchEntriesOnly(_), Some(Item::Reference)) => refs.push(format!("ref:{}", token(*i, seq))),
                (OpKind::SearchEntriesOnly(_), Some(Item::Intermediate)) => {}
                _ => want.push(token(*i, seq)),
            }
        }
        want.extend(refs);
        ensure!(o.tokens == want, "c01:misrouted", "operation {} ({:?}, wire id {}) observed {:?}; the server sent under its id {:?}", i, spec.kind, wid, o.tokens, want);
    }
    ensure!(observed.len() == case.ops.len(), "c01:lost-op", "{} of {} operations reported back", observed.len(), case.ops.len());

    // classification
    let concurrent = log.outstanding_max >= 2;
    // inversion: request order vs. completion order
    let mut completion: Vec<usize> = Vec::new();
    for (op, seq) in &log.sent {
        if *op != usize::MAX && *seq + 1 == pdus[*op].len() {
            completion.push(*op);
        }
    }
    let pos = |v: &Vec<usize>, x: usize| v.iter().position(|y| *y == x).unwrap_or(usize::MAX);
    let inversion = log.arrival.iter().any(|&a| log.arrival.iter().any(|&b| pos(&log.arrival, a) < pos(&log.arrival, b) && pos(&completion, b) < pos(&completion, a)));
    let searches: Vec<usize> = log.sent.iter().filter(|(op, _)| *op != usize::MAX && !matches!(case.ops[*op].kind, OpKind::Single(_)) && pdus[*op].len() > 1).map(|(op, _)| *op).collect();
    let interleaved = searches.windows(3).any(|w| w[0] == w[2] && w[0] != w[1]) || {
        // A..B..A pattern with gaps
        let mut seen: Vec<usize> = Vec::new();
        let mut hit = false;
        for s in &searches {
            if let Some(p) = seen.iter().position(|x| x == s) {
                if p + 1 != seen.len() {
                    hit = true;
                }
                seen.remove(p);
            }
            seen.push(*s);
        }
        hit
    };
    if concurrent {
        obs.label("concurrent>=2");
    }
    if inversion {
        obs.label("inversion");
    }
    if interleaved {
        obs.label("interleaved-searches");
    }
    if log.unsol_mid_op {
        obs.label("unsolicited-mid-op");
    }
    for k in &log.unsol_sent {
        obs.label(format!("unsol:{:?}", k));
    }
    if case.chunks == vec![1] {
        obs.label("1-byte-reads");
    }
    if case.stall.is_some() {
        obs.label("write-stall-window");
    }
    if case.ops.iter().any(|o| matches!(&o.kind, OpKind::SearchDropped(i, _) if i.len() >= 130)) {
        obs.label("late-tail>=130");
    }
    if case.pads.iter().any(|p| *p > 16_384) {
        obs.label("entries>16KiB");
    }
    if case.ops.iter().any(|o| o.lag) {
        obs.label("lagging-consumer>1000-items");
    }
    if case.rewinds.iter().take(case.ops.len()).any(|k| *k > 0) {
        obs.label("id-counter-rewound");
    }
    if case.start_id >= 127 {
        obs.label("multi-octet-message-ids");
    }
    if concurrent && (inversion || interleaved || log.unsol_mid_op) {
        obs.nontrivial((format!("{:?}", case.ops.iter().map(|o| (&o.kind, o.handle)).collect::<Vec<_>>()), &log.sent, &case.chunks));
    }
    Ok(())
}

// ------------------------------------------------------------------ lane: sign-alias ids
//
// A message id whose INTEGER content octets, read as unsigned, equal the id of a live operation
// (e.g. `02 01 85` = -123 vs. live id 133) is NOT that operation's id. Whatever the client does with
// such a message (it may end the connection), it must never hand it to the live operation.

#[derive(Clone, Debug, Serialize, Deserialize)]
pub struct AliasCase {
    pub start: i32,
    pub kinds: Vec<Single>,
    pub target: u8,
    pub alias_first: bool,
    pub sched: u64,
}

fn alias_strat(_: &Ctx) -> BoxedStrategy<AliasCase> {
    let start = prop_oneof![3 => 127i32..250, 2 => 32767i32..33000, 1 => 8388607i32..8388700, 1 => 200i32..255, 1 => 65000i32..65530];
    (start, vec(simops::single_strat(), 1..=3), 0u8..3, any::<bool>(), any::<u64>()).prop_map(|(start, kinds, target, alias_first, sched)| AliasCase { start, kinds, target, alias_first, sched }).boxed()
}

fn check_alias(c: &AliasCase, obs: &mut Obs) -> Result<(), Fail> {
    let cc = c.clone();
    let out = sim::run_sim(c.sched, async move {
        let conn = sim::connect();
        conn.msgmap.lock().unwrap().0 = cc.start;
        let wire = conn.wire.clone();
        let n = cc.kinds.len();
        let kinds = cc.kinds.clone();
        let c2 = cc.clone();
        let srv = tokio::spawn(async move {
            let mut ids: Vec<Option<i64>> = vec![None; n];
            for _ in 0..4 {
                quiesce().await;
                while let Some(r) = wire.try_recv() {
                    if let Recv::Msg(Ok(m), _, _) = r {
                        if let Some(i) = simops::marker_index(&m) {
                            if i < n {
                                ids[i] = Some(m.id);
                            }
                        }
                    }
                }
                if ids.iter().all(|i| i.is_some()) {
                    break;
                }
            }
            let t = c2.target as usize % n;
            let Some(tid) = ids[t] else { return None };
            // unsigned big-endian octets of the live id without a sign octet: a negative INTEGER
            let b = (tid as u32).to_be_bytes();
            let skip = b.iter().take_while(|x| **x == 0).count();
            let content = b[skip..].to_vec();
            let is_alias = content.first().map(|x| x & 0x80 != 0).unwrap_or(false);
            let alias = crate::ber::encode(&crate::ber::Tlv::seq(vec![crate::ber::Tlv::prim(0, 2, content), Resp::result(kinds[t].resp_tag(), Res::ok("ALIAS")).to_tlv()]));
            let genuine: Vec<u8> = (0..n).flat_map(|i| RespMsg::new(ids[i].unwrap_or(0), Resp::result(kinds[i].resp_tag(), Res::ok(&token(i, 0)))).encode()).collect();
            if !is_alias {
                // the content octets are the id's own valid encoding: nothing adversarial to send
                wire.push(&genuine);
            } else if c2.alias_first {
                wire.push(&alias);
                quiesce().await;
                wire.push(&genuine);
            } else {
                let mut b = alias.clone();
                b.extend_from_slice(&genuine);
                wire.push(&b);
            }
            quiesce().await;
            wire.end_read(sim::ReadEnd::Eof);
            Some((tid, is_alias))
        });
        let mut tasks = Vec::new();
        for (i, k) in cc.kinds.iter().copied().enumerate() {
            let mut l = conn.ldap.clone();
            tasks.push(tokio::spawn(async move {
                match simops::exec_single(&mut l, k, &simops::marker(i)).await {
                    Ok(r) => Ok(r.text),
                    Err(e) => Err(err_kind(&e)),
                }
            }));
        }
        let mut res = Vec::new();
        for t in tasks {
            res.push(t.await.unwrap_or_else(|_| Err("panic".into())));
        }
        let info = srv.await.ok().flatten();
        (res, info)
    });
    let (res, info) = match out {
        SimResult::Done(v) => v,
        SimResult::Hang => fail!("c01:hang", "operations never completed after a message with a sign-aliased id"),
    };
    let Some((tid, is_alias)) = info else { fail!("c01:server-problem", "requests did not arrive") };
    for (i, r) in res.iter().enumerate() {
        if let Ok(text) = r {
            ensure!(text != "ALIAS", "c01:sign-alias-misrouted", "operation {} (message id {}) was handed a response sent under the NEGATIVE message id whose content octets read unsigned equal {} - an id that matches no outstanding operation", i, tid, tid);
            ensure!(text == &token(i, 0), "c01:misrouted", "operation {} observed {:?}", i, text);
        }
    }
    if is_alias {
        obs.label("negative-alias-of-live-id");
        obs.nontrivial((c.start, format!("{:?}", c.kinds), c.target, c.alias_first));
    }
    Ok(())
}


// ------------------------------------------------------------------ lane: premature ids
//
// A response under an id that no operation has been given YET (the one the allocator hands out next, or one of the
// following ones) is a response under an unknown id: it is discarded, and it must not disturb the operation that is
// given that id afterwards. The client is idle when the stray arrives and the driver has read it before the next
// operation is issued, so there is no doubt that it belongs to nobody.

#[derive(Clone, Debug, Serialize, Deserialize)]
pub struct PrematureCase {
    pub start: i32,
    pub pre: Vec<Single>,
    /// (offset from the next id, entry instead of result, how many copies)
    pub strays: Vec<(u8, bool, u8)>,
    pub post: Vec<Single>,
    pub sched: u64,
}

fn premature_strat(_: &Ctx) -> BoxedStrategy<PrematureCase> {
    let start = prop_oneof![3 => 0i32..20, 1 => 120i32..130, 1 => 32760i32..32770, 1 => (i32::MAX - 12)..=(i32::MAX - 1)];
    (start, vec(simops::single_strat(), 0..=3), vec((0u8..4, any::<bool>(), 1u8..=3), 1..=3), vec(simops::single_strat(), 1..=5), any::<u64>())
        .prop_map(|(start, pre, strays, post, sched)| PrematureCase { start, pre, strays, post, sched })
        .boxed()
}

fn check_premature(c: &PrematureCase, obs: &mut Obs) -> Result<(), Fail> {
    let cc = c.clone();
    let out = sim::run_sim(c.sched, async move {
        let conn = sim::connect();
        conn.msgmap.lock().unwrap().0 = cc.start;
        let wire = conn.wire.clone();
        let all: Vec<Single> = cc.pre.iter().chain(cc.post.iter()).copied().collect();
        let kinds = all.clone();
        // the server answers every request at once with the operation's own token
        let srv = tokio::spawn(async move {
            let mut ids: Vec<(usize, i64)> = Vec::new();
            loop {
                match wire.recv().await {
                    Recv::Msg(Ok(m), _, _) => {
                        if let Some(i) = simops::marker_index(&m) {
                            if i < kinds.len() {
                                ids.push((i, m.id));
                                wire.push(&RespMsg::new(m.id, Resp::result(kinds[i].resp_tag(), Res::ok(&token(i, 0)))).encode());
                            }
                        }
                    }
                    Recv::Closed => break,
                    _ => {}
                }
            }
            ids
        });
        let mut ldap = conn.ldap.clone();
        let mut res: Vec<Result<String, String>> = Vec::new();
        let mut stray_ids: Vec<i64> = Vec::new();
        for (i, k) in all.iter().copied().enumerate() {
            if i == cc.pre.len() {
                quiesce().await;
                let next = conn.msgmap.lock().unwrap().0 as i64 + 1;
                let mut b = Vec::new();
                for (n, (off, entry, copies)) in cc.strays.iter().enumerate() {
                    let id = next + *off as i64;
                    if id >= i32::MAX as i64 {
                        continue;
                    }
                    for _ in 0..*copies {
                        let tok = format!("STRAY-{}", n);
                        b.extend_from_slice(&if *entry { RespMsg::new(id, Resp::Entry(Entry::simple(&tok))) } else { RespMsg::new(id, Resp::result(all.get(i + *off as usize).map(|k| k.resp_tag()).unwrap_or(11), Res::ok(&tok))) }.encode());
                    }
                    stray_ids.push(id);
                }
                conn.wire.push(&b);
                // the driver reads and discards them while no operation is outstanding
                quiesce().await;
            }
            let r = match tokio::time::timeout(std::time::Duration::from_secs(3600), simops::exec_single(&mut ldap, k, &simops::marker(i))).await {
                Ok(Ok(r)) => Ok(r.text),
                Ok(Err(e)) => Err(err_kind(&e)),
                Err(_) => Err("never-answered".into()),
            };
            let stop = r.is_err();
            res.push(r);
            if stop {
                break;
            }
        }
        let _ = ldap.unbind().await;
        let ids = tokio::time::timeout(std::time::Duration::from_secs(60), srv).await.ok().and_then(|r| r.ok()).unwrap_or_default();
        (res, ids, stray_ids)
    });
    let (res, ids, stray_ids) = match out {
        SimResult::Done(v) => v,
        SimResult::Hang => fail!("c01:hang", "operations never completed after responses under not-yet-issued ids"),
    };
    for (i, r) in res.iter().enumerate() {
        let wid = ids.iter().find(|x| x.0 == i).map(|x| x.1).unwrap_or(-1);
        match r {
            Ok(text) => ensure!(text == &token(i, 0), "c01:misrouted", "operation {} (message id {}) observed {:?} instead of its own response", i, wid, text),
            Err(e) => fail!("c01:premature-id-disturbs", "operation {} (message id {}) ended with {} although the server answered it; responses under the then unissued ids {:?} had arrived (and belonged to nobody) before it was issued", i, wid, e, stray_ids),
        }
    }
    ensure!(res.len() == c.pre.len() + c.post.len(), "c01:server-problem", "not every operation ran");
    let hit = ids.iter().filter(|(i, id)| *i >= c.pre.len() && stray_ids.contains(id)).count();
    if hit > 0 {
        obs.label("operation-got-an-id-that-a-stray-had-used");
        obs.nontrivial((c.start, format!("{:?}{:?}", c.pre, c.post), format!("{:?}", c.strays)));
    }
    if hit >= 2 {
        obs.label(">=2-operations-on-stray-ids");
    }
    Ok(())
}

pub fn property() -> Property {
    Property {
        id: "C01",
        level: "exploration",
        rule: "generated histories on the simulated connection: 1-12 operations (7 single-result kinds, direct and EntriesOnly streaming searches with 0-6 items from entry/reference/intermediate, and streams the caller drops without finish() after k items so that the rest of their traffic arrives late; in 20% of the cases a window of 1-7 PDUs during which the client's socket cannot be written to (requests pile up in the driver while responses arrive); rarely a dropped stream with a tail of 130-400 late entries; in 0.6% of the cases one more search with 1100-2500 entries whose consumer reads nothing until every other operation has completed) on 1-4 cloned handles with start delays; a generated global merge order of all response PDUs (any interleaving preserving per-operation order; PDUs optionally glued into one read), 0-4 unsolicited PDUs (id 0, never-issued ids with result/entry/done payloads, extra results/entries for completed ids) at generated positions, a read plan (1-byte, random chunk sizes, forced yields between chunks) and a scheduler seed for select! branch order. Oracle: every operation's observed token sequence equals what the server sent under that operation's own wire id (last_id), nobody sees an unsolicited token, driver ends cleanly. The id counter is positioned at generated starts so that message ids need 1-4 content octets. Lane alias: a response whose negative message id has the same content octets as a live operation's id (read unsigned) must never reach that operation. Lane premature: 0-3 operations, then - the client idle - 1-3 responses (result or entry, 1-3 copies) under ids that have not been issued yet (the allocator's next id + 0..3, also just below 2^31-1), read by the driver before 1-5 further operations are issued one after the other and answered by the server: each must get its own response. Non-trivial: >=2 operations outstanding at once AND (an inversion between request and completion order, or entries of >=2 searches interleaved, or an unsolicited PDU between two PDUs of a live operation). Distinct = hash of (op kinds+handles, send order, chunk plan).",
        assumptions: &["tokio paused clock + RngSeed (tokio_unstable) make the history a function of the case", "late PDUs for completed ids are only scripted while ids cannot have been re-issued (no wrap-around within 12 operations)"],
        lanes: vec![
            Box::new(PLane { name: "routing", cases: |t| t.pick(2_500, 40_000), strat, check }),
            Box::new(PLane { name: "alias", cases: |t| t.pick(400, 5_000), strat: alias_strat, check: check_alias }),
            Box::new(PLane { name: "premature", cases: |t| t.pick(1_200, 15_000), strat: premature_strat, check: check_premature }),
        ],
        workers: (8, 16),
    }
}
