//! C02 — each request on the wire is exactly the RFC 4511 PDU the caller asked for.

use crate::filter::Filter;
use crate::gens;
use crate::model::{Auth, Ctl, Entry, Req, ReqMsg, Res, Resp, RespMsg, MAX_ID};
use crate::props::{c08, c19};
use crate::runner::{panic_sig, Ctx, Fail, Obs, PLane, Property};
use crate::sim::{self, err_kind, Recv, SimResult};
use crate::{ensure, fail};
use ldap3::adapters::EntriesOnly;
use ldap3::controls::RawControl;
use ldap3::exop::Exop;
use ldap3::{DerefAliases, Ldap, Mod, Scope, SearchOptions};
use proptest::collection::vec;
use proptest::prelude::*;
use serde::{Deserialize, Serialize};
use std::collections::HashSet;
use std::time::Duration;

#[derive(Clone, Debug, Serialize, Deserialize)]
pub struct SOpts {
    deref: u8,
    typesonly: bool,
    timelimit: i32,
    sizelimit: i32,
}

#[derive(Clone, Debug, Default, Serialize, Deserialize)]
pub struct Mods {
    controls: Option<Vec<Ctl>>,
    timeout_ms: Option<u32>,
    search_opts: Option<SOpts>,
}

#[derive(Clone, Copy, Debug, PartialEq, Serialize, Deserialize)]
pub enum How {
    Conv,
    Stream,
    StreamWith,
}

#[derive(Clone, Debug, Serialize, Deserialize)]
pub enum Call {
    SimpleBind { dn: String, pw: String },
    SaslExternal,
    Search { base: String, scope: u8, f: Filter, fs: String, attrs: Vec<String>, how: How },
    BadFilterSearch { fs: String },
    Add { dn: String, attrs: Vec<(Vec<u8>, Vec<Vec<u8>>)> },
    Compare { dn: String, attr: String, val: Vec<u8> },
    Delete { dn: String },
    Modify { dn: String, mods: Vec<(u8, Vec<u8>, Vec<Vec<u8>>)> },
    ModDn { dn: String, rdn: String, delete_old: bool, new_sup: Option<String> },
    Extended { name: String, val: Option<Vec<u8>> },
    Abandon { id: i32 },
    Unbind,
}

#[derive(Clone, Debug, Serialize, Deserialize)]
pub struct Step {
    handle: u8,
    mods: Mods,
    call: Call,
    /// the server answers this request only after one virtual hour (only meaningful without own timeout)
    slow: bool,
    /// the server never answers this request (only with an own timeout): the operation times out
    #[serde(default)]
    silent: bool,
    /// this operation (which has no modifiers of its own) runs on a CLONE of the handle, taken after the
    /// modifiers of the NEXT step have been set on the handle: the clone must not carry them, and they must
    /// still be there for the next step's operation
    #[serde(default)]
    on_clone: bool,
}

#[derive(Clone, Debug, Serialize, Deserialize)]
pub struct Case {
    steps: Vec<Step>,
    unbind_last: bool,
    sched: u64,
}

fn distinct(v: Vec<Vec<u8>>) -> Vec<Vec<u8>> {
    let mut seen = HashSet::new();
    v.into_iter().filter(|x| seen.insert(x.clone())).collect()
}

fn values() -> BoxedStrategy<Vec<Vec<u8>>> {
    prop_oneof![
        1 => Just(vec![]),
        8 => vec(gens::blob(10), 1..5),
        1 => vec(gens::blob(4), 20..50),
    ]
    .prop_map(distinct)
    .boxed()
}

fn attr_name() -> BoxedStrategy<Vec<u8>> {
    prop_oneof![4 => gens::descr().prop_map(|s| s.into_bytes()), 1 => gens::blob(8), 1 => Just(vec![])].boxed()
}

fn attr_list() -> BoxedStrategy<Vec<(Vec<u8>, Vec<Vec<u8>>)>> {
    prop_oneof![1 => Just(vec![]), 10 => vec((attr_name(), values()), 1..5), 1 => vec((attr_name(), vec(gens::blob(3), 1..3).prop_map(distinct)), 100..300)].boxed()
}

fn limit() -> BoxedStrategy<i32> {
    prop_oneof![3 => Just(0i32), 3 => 0i32..1000, 2 => proptest::sample::select(&[127, 128, 255, 256, 32767, 32768, 65535, 65536, i32::MAX - 1, i32::MAX][..]), 1 => 0i32..=i32::MAX].boxed()
}

fn mods() -> BoxedStrategy<Mods> {
    let so = (0u8..4, any::<bool>(), limit(), limit()).prop_map(|(deref, typesonly, timelimit, sizelimit)| SOpts { deref, typesonly, timelimit, sizelimit });
    (proptest::option::weighted(0.4, c19::req_controls(3)), proptest::option::weighted(0.25, 1u32..100_000), proptest::option::weighted(0.35, so))
        .prop_map(|(controls, timeout_ms, search_opts)| Mods { controls, timeout_ms, search_opts })
        .boxed()
}

fn call() -> BoxedStrategy<Call> {
    let dn = gens::long_text;
    let search = (dn(), 0u8..3, c08::valid_filter_string(3, 3), vec(prop_oneof![gens::descr(), Just("*".to_string()), Just("+".to_string()), gens::text(5)], 0..6), prop_oneof![Just(How::Conv), Just(How::Stream), Just(How::StreamWith)])
        .prop_map(|(base, scope, (f, fs), attrs, how)| Call::Search { base, scope, f, fs: String::from_utf8(fs).expect("utf8 filter"), attrs, how });
    let modify = (dn(), vec((0u8..4, attr_name(), values()), 0..5)).prop_map(|(dn, mods)| {
        let mods = mods
            .into_iter()
            .map(|(k, a, mut v)| {
                if k == 3 {
                    v.truncate(1);
                    if v.is_empty() {
                        v.push(b"1".to_vec());
                    }
                }
                (k, a, v)
            })
            .collect();
        Call::Modify { dn, mods }
    });
    prop_oneof![
        2 => (dn(), gens::text(10)).prop_map(|(dn, pw)| Call::SimpleBind { dn, pw }),
        1 => Just(Call::SaslExternal),
        5 => search,
        1 => proptest::sample::select(&["(a=b", "a=b)", "(a=\\zz)", "", "(=x)", "(a=b)(c=d)"][..]).prop_map(|s| Call::BadFilterSearch { fs: s.to_string() }),
        3 => (dn(), attr_list()).prop_map(|(dn, attrs)| Call::Add { dn, attrs }),
        2 => (dn(), gens::text(8), gens::blob(12)).prop_map(|(dn, attr, val)| Call::Compare { dn, attr, val }),
        2 => dn().prop_map(|dn| Call::Delete { dn }),
        3 => modify,
        2 => (dn(), gens::text(10), any::<bool>(), proptest::option::of(gens::text(12))).prop_map(|(dn, rdn, delete_old, new_sup)| Call::ModDn { dn, rdn, delete_old, new_sup }),
        2 => (prop_oneof![gens::oid(), gens::text(8)], proptest::option::of(gens::blob(20))).prop_map(|(name, val)| Call::Extended { name, val }),
        1 => prop_oneof![0i32..20, 0i32..=i32::MAX, Just(i32::MAX), Just(0i32)].prop_map(|id| Call::Abandon { id }),
    ]
    .boxed()
}

fn strat(_: &Ctx) -> BoxedStrategy<Case> {
    let step = (0u8..2, mods(), call(), proptest::bool::weighted(0.3), proptest::bool::weighted(0.5), proptest::bool::weighted(0.15)).prop_map(|(handle, mods, call, slow, silent, on_clone)| {
        if on_clone {
            return Step { handle, mods: Mods::default(), call, slow: false, silent: false, on_clone: true };
        }
        let slow = slow && mods.timeout_ms.is_none();
        let silent = silent && mods.timeout_ms.is_some() && !matches!(call, Call::Abandon { .. } | Call::Unbind);
        Step { handle, mods, call, slow, silent, on_clone: false }
    });
    (vec(step, 1..=10), any::<bool>(), any::<u64>()).prop_map(|(steps, unbind_last, sched)| Case { steps, unbind_last, sched }).boxed()
}

fn to_raw(c: &[Ctl]) -> Vec<RawControl> {
    c.iter().map(|x| RawControl { ctype: x.oid.clone(), crit: x.crit, val: x.val.clone() }).collect()
}

fn sopts(o: &SOpts) -> SearchOptions {
    SearchOptions::new()
        .deref(match o.deref {
            0 => DerefAliases::Never,
            1 => DerefAliases::Searching,
            2 => DerefAliases::Finding,
            _ => DerefAliases::Always,
        })
        .typesonly(o.typesonly)
        .timelimit(o.timelimit)
        .sizelimit(o.sizelimit)
}

fn scope(s: u8) -> Scope {
    match s {
        0 => Scope::Base,
        1 => Scope::OneLevel,
        _ => Scope::Subtree,
    }
}

/// What the step must put on the wire (None: fails locally, nothing is sent).
fn expected(step: &Step) -> Option<Req> {
    let b = |s: &str| s.as_bytes().to_vec();
    Some(match &step.call {
        Call::SimpleBind { dn, pw } => Req::Bind { version: 3, name: b(dn), auth: Auth::Simple(b(pw)) },
        Call::SaslExternal => Req::Bind { version: 3, name: vec![], auth: Auth::Sasl { mech: b("EXTERNAL"), creds: Some(vec![]) } },
        Call::Search { base, scope, f, attrs, .. } => {
            let o = step.mods.search_opts.clone().unwrap_or(SOpts { deref: 0, typesonly: false, timelimit: 0, sizelimit: 0 });
            Req::Search { base: b(base), scope: *scope as i64, deref: o.deref as i64, size: o.sizelimit as i64, time: o.timelimit as i64, types_only: o.typesonly, filter: f.clone(), attrs: attrs.iter().map(|a| b(a)).collect() }
        }
        Call::BadFilterSearch { .. } => return None,
        Call::Add { dn, attrs } => {
            if attrs.iter().any(|(_, v)| v.is_empty()) {
                return None;
            }
            Req::Add { dn: b(dn), attrs: attrs.clone() }
        }
        Call::Compare { dn, attr, val } => Req::Compare { dn: b(dn), attr: b(attr), val: val.clone() },
        Call::Delete { dn } => Req::Del(b(dn)),
        Call::Modify { dn, mods } => {
            if mods.iter().any(|(k, _, v)| *k == 0 && v.is_empty()) {
                return None;
            }
            Req::Modify { dn: b(dn), changes: mods.iter().map(|(k, a, v)| (*k as i64, a.clone(), v.clone())).collect() }
        }
        Call::ModDn { dn, rdn, delete_old, new_sup } => Req::ModDn { dn: b(dn), rdn: b(rdn), delete_old: *delete_old, new_sup: new_sup.as_ref().map(|s| b(s)) },
        Call::Extended { name, val } => Req::Extended { name: b(name), val: val.clone() },
        Call::Abandon { id } => Req::Abandon(*id as i64),
        Call::Unbind => Req::Unbind,
    })
}

#[derive(Debug, Default, Clone)]
struct StepObs {
    reported_id: Option<i32>,
    outcome: String,
    entries_seen: usize,
}

fn apply_mods(ldap: &mut Ldap, mods: &Mods) {
    if let Some(c) = &mods.controls {
        ldap.with_controls(to_raw(c));
    }
    if let Some(t) = mods.timeout_ms {
        ldap.with_timeout(Duration::from_millis(t as u64));
    }
    if let Some(so) = &mods.search_opts {
        ldap.with_search_options(sopts(so));
    }
}

async fn run_step(ldap: &mut Ldap, step: &Step) -> StepObs {
    let mut o = StepObs::default();
    apply_mods(ldap, &step.mods);
    let out: Result<(), ldap3::LdapError> = match &step.call {
        Call::SimpleBind { dn, pw } => ldap.simple_bind(dn, pw).await.map(|_| ()),
        Call::SaslExternal => ldap.sasl_external_bind().await.map(|_| ()),
        Call::Search { base, scope: sc, fs, attrs, how, .. } => match how {
            How::Conv => ldap.search(base, scope(*sc), fs, attrs.clone()).await.map(|r| {
                o.entries_seen = r.0.len();
            }),
            How::Stream | How::StreamWith => {
                let s = if *how == How::Stream { ldap.streaming_search(base, scope(*sc), fs, attrs.clone()).await } else { ldap.streaming_search_with(EntriesOnly::new(), base, scope(*sc), fs, attrs.clone()).await };
                match s {
                    Ok(mut s) => {
                        o.reported_id = Some(s.ldap_handle().last_id());
                        let mut r = Ok(());
                        loop {
                            match s.next().await {
                                Ok(Some(_)) => o.entries_seen += 1,
                                Ok(None) => break,
                                Err(e) => {
                                    r = Err(e);
                                    break;
                                }
                            }
                        }
                        let _ = s.finish().await;
                        r
                    }
                    Err(e) => Err(e),
                }
            }
        },
        Call::BadFilterSearch { fs } => ldap.search("dc=x", Scope::Base, fs, vec!["a"]).await.map(|_| ()),
        Call::Add { dn, attrs } => ldap.add(dn, attrs.iter().map(|(a, v)| (a.clone(), v.iter().cloned().collect::<HashSet<_>>())).collect()).await.map(|_| ()),
        Call::Compare { dn, attr, val } => ldap.compare(dn, attr, val).await.map(|_| ()),
        Call::Delete { dn } => ldap.delete(dn).await.map(|_| ()),
        Call::Modify { dn, mods } => {
            let m: Vec<Mod<Vec<u8>>> = mods
                .iter()
                .map(|(k, a, v)| {
                    let set: HashSet<Vec<u8>> = v.iter().cloned().collect();
                    match k {
                        0 => Mod::Add(a.clone(), set),
                        1 => Mod::Delete(a.clone(), set),
                        2 => Mod::Replace(a.clone(), set),
                        _ => Mod::Increment(a.clone(), v[0].clone()),
                    }
                })
                .collect();
            ldap.modify(dn, m).await.map(|_| ())
        }
        Call::ModDn { dn, rdn, delete_old, new_sup } => ldap.modifydn(dn, rdn, *delete_old, new_sup.as_deref()).await.map(|_| ()),
        Call::Extended { name, val } => ldap.extended(Exop { name: Some(name.clone()), val: val.clone() }).await.map(|_| ()),
        Call::Abandon { id } => ldap.abandon(*id).await,
        Call::Unbind => ldap.unbind().await,
    };
    if o.reported_id.is_none() && !matches!(&step.call, Call::Search { how: How::Conv, .. } | Call::BadFilterSearch { .. }) {
        o.reported_id = Some(ldap.last_id());
    }
    o.outcome = match out {
        Ok(()) => "ok".into(),
        Err(e) => err_kind(&e),
    };
    o
}

pub fn check(case: &Case, obs: &mut Obs) -> Result<(), Fail> {
    let mut steps = case.steps.clone();
    if case.unbind_last {
        steps.push(Step { handle: 0, mods: Mods::default(), call: Call::Unbind, slow: false, silent: false, on_clone: false });
    }
    let on_wire: Vec<(usize, Req)> = steps.iter().enumerate().filter_map(|(i, s)| expected(s).map(|r| (i, r))).collect();
    let slow: Vec<bool> = on_wire.iter().map(|(i, _)| steps[*i].slow).collect();
    let silent: Vec<bool> = on_wire.iter().map(|(i, _)| steps[*i].silent).collect();
    let st = steps.clone();
    let out = sim::run_sim(case.sched, async move {
        let conn = sim::connect();
        let wire = conn.wire.clone();
        let srv = tokio::spawn(async move {
            let mut log: Vec<(Result<ReqMsg, String>, Vec<u8>)> = Vec::new();
            loop {
                match wire.recv().await {
                    Recv::Msg(m, _, raw) => {
                        let idx = log.len();
                        if let Ok(m) = &m {
                            if silent.get(idx).copied().unwrap_or(false) {
                                log.push((Ok(m.clone()), raw));
                                continue;
                            }
                            if let Some(tag) = m.req.response_tag() {
                                if slow.get(idx).copied().unwrap_or(false) {
                                    tokio::time::sleep(Duration::from_secs(3600)).await;
                                }
                                let mut bytes = Vec::new();
                                if tag == 5 {
                                    bytes.extend_from_slice(&RespMsg::new(m.id, Resp::Entry(Entry::simple("cn=e"))).encode());
                                }
                                bytes.extend_from_slice(&RespMsg::new(m.id, Resp::result(tag, Res::ok(""))).encode());
                                wire.push(&bytes);
                            }
                        }
                        log.push((m, raw));
                    }
                    Recv::Garbage(e) => {
                        log.push((Err(format!("not BER: {}", e)), vec![]));
                        break;
                    }
                    Recv::Closed => break,
                }
            }
            wire.end_read(sim::ReadEnd::Eof);
            log
        });
        let mut handles = [conn.ldap.clone(), conn.ldap.clone()];
        let mut obs = Vec::new();
        for (si, s) in st.iter().enumerate() {
            let h = &mut handles[s.handle as usize % 2];
            let mut l = h.clone();
            // keep modifier state of the generated handle: clones start clean, so operate on the handle itself
            std::mem::swap(&mut l, h);
            let step = s.clone();
            // modifiers the NEXT step will set on this handle (applied early when this step runs on a clone)
            let next_mods = st.get(si + 1).filter(|n| n.handle % 2 == s.handle % 2 && s.on_clone).map(|n| n.mods.clone());
            let jh = tokio::spawn(async move {
                if step.on_clone {
                    if let Some(m) = &next_mods {
                        apply_mods(&mut l, m);
                    }
                    let mut c = l.clone();
                    let o = run_step(&mut c, &step).await;
                    return (o, l);
                }
                let o = run_step(&mut l, &step).await;
                (o, l)
            });
            match jh.await {
                Ok((o, l)) => {
                    *h = l;
                    obs.push(o);
                }
                Err(_) => {
                    let p = crate::runner::take_panics();
                    obs.push(StepObs { outcome: format!("panic:{}", p.into_iter().last().unwrap_or_default()), ..Default::default() });
                    break;
                }
            }
        }
        drop(handles);
        let sim::Conn { ldap, driver, .. } = conn;
        drop(ldap);
        let end = sim::join_driver(driver).await;
        let log = srv.await.expect("server");
        (obs, log, end)
    });
    let (sobs, log, end) = match out {
        SimResult::Done(v) => v,
        SimResult::Hang => fail!("c02:hang", "history never completed"),
    };
    if let sim::DriveEnd::Panic(p) = &end {
        fail!(panic_sig(p), "driver panicked: {}", p);
    }
    for (i, o) in sobs.iter().enumerate() {
        if let Some(p) = o.outcome.strip_prefix("panic:") {
            fail!(panic_sig(p), "step {} ({:?}) panicked: {}", i, steps[i].call, p);
        }
    }
    // 1. one well-formed LDAPMessage per issued operation, nothing else
    for (k, (m, raw)) in log.iter().enumerate() {
        if let Err(e) = m {
            fail!("c02:not-rfc4511", "wire message {} is not a well-formed RFC 4511 request: {} ({})", k, e, crate::ber::hex(&raw[..raw.len().min(64)]));
        }
    }
    let got: Vec<&ReqMsg> = log.iter().map(|(m, _)| m.as_ref().unwrap()).collect();
    if got.len() != on_wire.len() {
        fail!("c02:message-count", "{} operations must reach the wire, {} messages were written: expected kinds {:?}, got {:?}", on_wire.len(), got.len(), on_wire.iter().map(|(_, r)| r.kind()).collect::<Vec<_>>(), got.iter().map(|m| m.req.kind()).collect::<Vec<_>>());
    }
    let mut ids = HashSet::new();
    for ((i, want), m) in on_wire.iter().zip(&got) {
        let step = &steps[*i];
        if let (Req::Search { deref: d1, size: s1, time: t1, types_only: o1, .. }, Req::Search { deref: d2, size: s2, time: t2, types_only: o2, .. }) = (&m.req, want) {
            if (d1, s1, t1, o1) != (d2, s2, t2, o2) && step.mods.search_opts.is_none() {
                let mut probe = m.req.clone();
                if let Req::Search { deref, size, time, types_only, .. } = &mut probe {
                    *deref = *d2;
                    *size = *s2;
                    *time = *t2;
                    *types_only = *o2;
                }
                if probe.normalized() == want.normalized() {
                    fail!("c02:search-opts-leak", "step {}: a Search without options of its own carries deref={} size={} time={} typesOnly={}: options set before an earlier operation leaked", i, d1, s1, t1, o1);
                }
            }
        }
        ensure!(m.req.normalized() == want.normalized(), "c02:wrong-request", "step {}: asked for {}, wire carries {}", i, short(&format!("{:?}", want)), short(&format!("{:?}", m.req)));
        ensure!((1..=MAX_ID).contains(&m.id), "c02:id-range", "step {}: message id {}", i, m.id);
        ensure!(ids.insert(m.id), "c02:id-reused", "step {}: message id {} used twice in one sequential history without wrap", i, m.id);
        if let Some(rid) = sobs.get(*i).and_then(|o| o.reported_id) {
            ensure!(rid as i64 == m.id, "c02:id-mismatch", "step {}: API reports message id {}, wire carries {}", i, rid, m.id);
        }
        // 2. modifiers: exactly those set immediately before this operation
        let want_ctrls = step.mods.controls.clone();
        if m.ctrls != want_ctrls {
            let leaked = want_ctrls.is_none();
            fail!(if leaked { "c02:controls-leak" } else { "c02:wrong-controls" }, "step {} ({}): controls on the wire {:?}, set before the call {:?}", i, want.kind(), m.ctrls, want_ctrls);
        }
    }
    // search options leak shows up as wrong-request above; classify it for a stable signature
    // 3. outcomes
    for (i, s) in steps.iter().enumerate() {
        let Some(o) = sobs.get(i) else { break };
        let want_ok = expected(s).is_some();
        if want_ok {
            let timed = s.mods.timeout_ms.is_some();
            if o.outcome == "Timeout" && !timed {
                fail!("c02:timeout-leak", "step {} ({:?}) has no timeout of its own but timed out: an earlier with_timeout leaked", i, short(&format!("{:?}", s.call)));
            }
            if s.silent {
                ensure!(o.outcome == "Timeout", "c02:silent-no-timeout", "step {} has a timeout and the server stays silent, but it ended with {}", i, o.outcome);
                continue;
            }
            ensure!(o.outcome == "ok", "c02:op-failed", "step {} ({}) failed with {} against a server that answers success", i, short(&format!("{:?}", s.call)), o.outcome);
            if let Call::Search { .. } = &s.call {
                ensure!(o.entries_seen == 1, "c02:search-entries", "step {}: {} entries seen, 1 sent", i, o.entries_seen);
            }
        } else {
            let want_err = match &s.call {
                Call::BadFilterSearch { .. } => "FilterParsing",
                _ => "AddNoValues",
            };
            ensure!(o.outcome == want_err, "c02:local-failure", "step {} must fail locally with {}, got {}", i, want_err, o.outcome);
        }
    }
    // classification
    let mut nt = false;
    for (i, s) in steps.iter().enumerate() {
        let m = &s.mods;
        if m.controls.as_ref().map(|c| !c.is_empty()).unwrap_or(false) {
            obs.label("op-with-controls");
            nt = true;
        }
        if m.search_opts.is_some() && !matches!(s.call, Call::Search { .. }) {
            obs.label("search-opts-before-non-search");
            nt = true;
        }
        if expected(s).is_none() && (m.controls.is_some() || m.timeout_ms.is_some() || m.search_opts.is_some()) {
            obs.label("modifier-before-locally-failing-op");
            nt = true;
        }
        if s.slow && i > 0 {
            obs.label("slow-after-op");
        }
        if s.silent {
            obs.label("op-times-out");
            if i + 1 < steps.len() {
                nt = true;
            }
        }
        match &s.call {
            Call::Add { attrs, .. } if attrs.len() >= 2 => nt = true,
            Call::Modify { mods, .. } if mods.len() >= 2 => nt = true,
            Call::Search { attrs, .. } if attrs.len() >= 2 => nt = true,
            _ => {}
        }
        obs.label(format!("call:{}", format!("{:?}", s.call).split(|c: char| !c.is_alphanumeric()).next().unwrap_or("")));
    }
    if nt {
        obs.nontrivial(format!("{:?}", steps));
    }
    Ok(())
}

fn short(s: &str) -> String {
    if s.len() > 400 {
        format!("{}...", s.chars().take(400).collect::<String>())
    } else {
        s.to_string()
    }
}

pub fn property() -> Property {
    Property {
        id: "C02",
        level: "exploration",
        rule: "generated histories of 1-10 operations on 2 handles over the whole Ldap surface (simple bind, SASL EXTERNAL, search/streaming_search/streaming_search_with, add, compare, delete, modify with all four Mod kinds, modifyDN +-newSuperior, extended with arbitrary OID/value, abandon of any id, unbind last), arguments: arbitrary Unicode DNs and strings (empty, NUL, >127 and >65535 bytes), byte values incl. invalid UTF-8, attribute lists of 0-300 elements, value sets of 0-50, limits over 0..2^31-1, valid filters from the C08 generator; before each op independently with_controls (0-3 raw controls), with_timeout, with_search_options - also in front of non-search ops and ops that fail locally (empty Add value set, bad filter); 15% of the operations run on a CLONE taken after the next operation's modifiers were already set on the handle (a clone must not carry pending modifiers, and they must still be there for the handle's own next operation); the server answers success (some answers delayed one virtual hour to expose a leaked timeout; some timed operations are never answered so that they time out and the following operation shows whether their modifiers were consumed). Oracle: the client->server byte log, framed and decoded by the harness's strict RFC 4511 decoder, is exactly one message per issued op, field-for-field equal to the request model built from the arguments (SET OF as multiset), id in 1..2^31-1 and equal to last_id()/stream handle's last_id(), controls exactly those set immediately before that op. Non-trivial: an op with >=1 control, a list argument with >=2 elements, a modifier before a different kind of op or before a locally failing op. Distinct = debug rendering of the history.",
        assumptions: &["harness strict request decoder (src/model.rs)", "limits and ids stay in the RFC's 0..maxInt range (negative integers are C07's business)", "search() does not expose its message id; id equality is checked for every other call"],
        lanes: vec![Box::new(PLane { name: "histories", cases: |t| t.pick(2_000, 25_000), strat, check })],
        workers: (8, 16),
    }
}
