use crate::runner::Property;

pub mod c07;

pub fn all_ids() -> Vec<&'static str> {
    vec!["C07"]
}

pub fn get(id: &str) -> Option<Property> {
    match id {
        "C07" => Some(c07::property()),
        _ => None,
    }
}
