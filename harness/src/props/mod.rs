use crate::runner::Property;

pub mod c01;
pub mod c02;
pub mod c03;
pub mod c04;
pub mod c05;
pub mod c06;
pub mod c07;
pub mod c08;
pub mod c09;
pub mod c10;
pub mod c11;
pub mod c12;
pub mod c13;
pub mod c14;
pub mod c15;
pub mod c16;
pub mod c17;
pub mod c18;
pub mod c19;
pub mod c20;

pub fn all_ids() -> Vec<&'static str> {
    vec!["C01", "C02", "C03", "C04", "C05", "C06", "C07", "C08", "C09", "C10", "C11", "C12", "C13", "C14", "C15", "C16", "C17", "C18", "C19", "C20"]
}

pub fn get(id: &str) -> Option<Property> {
    match id {
        "C01" => Some(c01::property()),
        "C02" => Some(c02::property()),
        "C03" => Some(c03::property()),
        "C04" => Some(c04::property()),
        "C05" => Some(c05::property()),
        "C06" => Some(c06::property()),
        "C07" => Some(c07::property()),
        "C08" => Some(c08::property()),
        "C09" => Some(c09::property()),
        "C10" => Some(c10::property()),
        "C11" => Some(c11::property()),
        "C12" => Some(c12::property()),
        "C13" => Some(c13::property()),
        "C14" => Some(c14::property()),
        "C15" => Some(c15::property()),
        "C16" => Some(c16::property()),
        "C17" => Some(c17::property()),
        "C18" => Some(c18::property()),
        "C19" => Some(c19::property()),
        "C20" => Some(c20::property()),
        _ => None,
    }
}
