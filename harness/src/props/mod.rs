use crate::runner::Property;

pub mod c07;
pub mod c08;
pub mod c09;

pub fn all_ids() -> Vec<&'static str> {
    vec!["C07", "C08", "C09"]
}

pub fn get(id: &str) -> Option<Property> {
    match id {
        "C07" => Some(c07::property()),
        "C08" => Some(c08::property()),
        "C09" => Some(c09::property()),
        _ => None,
    }
}
