//! C03 — results returned to the caller are exactly what the server sent.

use crate::gens;
use crate::model::{RCtl, Res, Resp, RespMsg};
use crate::props::c19::compare_resp_controls;
use crate::respgen;
use crate::runner::{guard, panic_sig, Ctx, Fail, Obs, PLane, Property};
use crate::sim::{self, err_kind, quiesce, Recv, SimResult};
use crate::{ensure, fail};
use ldap3::exop::Exop;
use ldap3::result::{CompareResult, ExopResult, LdapError, LdapResult, SearchResult};
use ldap3::{Mod, Scope};
use proptest::prelude::*;
use serde::{Deserialize, Serialize};
use std::collections::HashSet;

#[derive(Clone, Debug, Serialize, Deserialize)]
pub struct Case {
    pub resp: Resp,
    pub ctrls: Option<Vec<RCtl>>,
    pub forms: Vec<u8>,
    pub id: i32,
    /// searchDone only (e2e lane): go through search() and let the server send these reference messages first
    #[serde(default)]
    pub conv_refs: Option<Vec<Vec<String>>>,
}

fn strat(_: &Ctx) -> BoxedStrategy<Case> {
    (respgen::any_result_resp(false), respgen::opt_controls(4), gens::forms(), 1i32..=i32::MAX).prop_map(|(resp, ctrls, forms, id)| Case { resp, ctrls, forms, id, conv_refs: None }).boxed()
}

fn small_strat(_: &Ctx) -> BoxedStrategy<Case> {
    (respgen::any_result_resp(true), respgen::opt_controls(3), gens::forms(), Just(1i32), proptest::option::weighted(0.5, proptest::collection::vec(proptest::collection::vec(respgen::uri(), 1..3), 0..3)))
        .prop_map(|(resp, ctrls, forms, id, conv_refs)| {
            let conv_refs = if matches!(resp, Resp::Result { app: 5, .. }) { conv_refs } else { None };
            Case { resp, ctrls, forms, id, conv_refs }
        })
        .boxed()
}

pub fn compare_res(got: &LdapResult, want: &Res) -> Result<(), Fail> {
    ensure!(got.rc == want.rc, "c03:rc", "result code {} delivered, server sent {}", got.rc, want.rc);
    ensure!(got.matched == want.matched, "c03:matched", "matched DN {:?} delivered, server sent {:?}", trunc(&got.matched), trunc(&want.matched));
    ensure!(got.text == want.text, "c03:text", "diagnostic {:?} delivered, server sent {:?}", trunc(&got.text), trunc(&want.text));
    let wr = want.refs.clone().unwrap_or_default();
    ensure!(got.refs == wr, "c03:refs", "referrals {:?} delivered, server sent {:?}", got.refs, wr);
    Ok(())
}

fn trunc(s: &str) -> String {
    s.chars().take(60).collect()
}

fn nontrivial(c: &Case) -> bool {
    let Resp::Result { res, .. } = &c.resp else { return false };
    c.forms.iter().any(|f| *f != 0) || c.ctrls.as_ref().map(|v| !v.is_empty()).unwrap_or(false) || res.refs.is_some() || !res.matched.is_ascii() || !res.text.is_ascii()
}

fn labels(c: &Case, obs: &mut Obs) {
    if let Resp::Result { app, res, .. } = &c.resp {
        obs.label(format!("app{}", app));
        if res.refs.is_some() {
            obs.label("referral");
        }
        if c.forms.iter().any(|f| *f != 0) {
            obs.label("nonminimal-length");
        }
        if c.ctrls.as_ref().map(|v| !v.is_empty()).unwrap_or(false) {
            obs.label("controls");
        }
    }
}

/// helper table of the property statement
pub fn check_helpers(base: &LdapResult) -> Result<(), Fail> {
    // the helpers are judged on the result as decoded (its own referral list, strings), not on a fixed shape
    let rc = base.rc;
    let mk = || LdapResult { rc, matched: base.matched.clone(), text: base.text.clone(), refs: base.refs.clone(), ctrls: vec![] };
    let same = |r: &LdapResult| r.rc == rc && r.matched == base.matched && r.text == base.text && r.refs == base.refs;
    let err_same = |e: &LdapError| matches!(e, LdapError::LdapResult { result } if same(result));
    match mk().success() {
        Ok(r) => ensure!(rc == 0 && same(&r), "c03:helper-success", "success() accepted rc {}", rc),
        Err(e) => ensure!(rc != 0 && err_same(&e), "c03:helper-success", "success() rejected rc {} or altered it", rc),
    }
    match mk().non_error() {
        Ok(r) => ensure!((rc == 0 || rc == 10) && same(&r), "c03:helper-non-error", "non_error() accepted rc {}", rc),
        Err(e) => ensure!(rc != 0 && rc != 10 && err_same(&e), "c03:helper-non-error", "non_error() rejected rc {} or altered it", rc),
    }
    match CompareResult(mk()).equal() {
        Ok(b) => ensure!((rc == 5 && !b) || (rc == 6 && b), "c03:helper-equal", "equal() gave Ok({}) for rc {}", b, rc),
        Err(e) => ensure!(rc != 5 && rc != 6 && err_same(&e), "c03:helper-equal", "equal() rejected rc {} or altered it", rc),
    }
    match CompareResult(mk()).non_error() {
        Ok(r) => ensure!((rc == 5 || rc == 6 || rc == 10) && same(&r), "c03:helper-compare-non-error", "CompareResult::non_error() accepted rc {}", rc),
        Err(e) => ensure!(!(rc == 5 || rc == 6 || rc == 10) && err_same(&e), "c03:helper-compare-non-error", "CompareResult::non_error() rejected rc {}", rc),
    }
    match SearchResult(vec![], mk()).success() {
        Ok((_, r)) => ensure!(rc == 0 && same(&r), "c03:helper-search-success", "SearchResult::success() accepted rc {}", rc),
        Err(e) => ensure!(rc != 0 && err_same(&e), "c03:helper-search-success", "SearchResult::success() rejected rc {}", rc),
    }
    match SearchResult(vec![], mk()).non_error() {
        Ok((_, r)) => ensure!((rc == 0 || rc == 10) && same(&r), "c03:helper-search-non-error", "SearchResult::non_error() accepted rc {}", rc),
        Err(e) => ensure!(rc != 0 && rc != 10 && err_same(&e), "c03:helper-search-non-error", "SearchResult::non_error() rejected rc {}", rc),
    }
    let ex = || Exop { name: Some("n".into()), val: Some(vec![1]) };
    match ExopResult(ex(), mk()).success() {
        Ok((e, r)) => ensure!(rc == 0 && same(&r) && e.name.as_deref() == Some("n") && e.val == Some(vec![1]), "c03:helper-exop-success", "ExopResult::success() accepted rc {}", rc),
        Err(e) => ensure!(rc != 0 && err_same(&e), "c03:helper-exop-success", "ExopResult::success() rejected rc {}", rc),
    }
    match ExopResult(ex(), mk()).non_error() {
        Ok((_, r)) => ensure!((rc == 0 || rc == 10) && same(&r), "c03:helper-exop-non-error", "ExopResult::non_error() accepted rc {}", rc),
        Err(e) => ensure!(rc != 0 && rc != 10 && err_same(&e), "c03:helper-exop-non-error", "ExopResult::non_error() rejected rc {}", rc),
    }
    Ok(())
}

// ---------------------------------------------------------------- direct lane

pub fn check_direct(c: &Case, obs: &mut Obs) -> Result<(), Fail> {
    let Resp::Result { res, .. } = &c.resp else { fail!("harness-c03", "not a result") };
    let msg = RespMsg { id: c.id as i64, resp: c.resp.clone(), ctrls: c.ctrls.clone() };
    let bytes = msg.encode_forms(&c.forms);
    let mut buf = bytes::BytesMut::from(&bytes[..]);
    let d = match guard(|| ldap3::verif::verif_decode(&mut buf)) {
        Ok(d) => d,
        Err(p) => fail!(panic_sig(&p), "decoder panicked on a well-formed response: {}", p),
    };
    let (id, tag, ctrls) = match d {
        Ok(Some((id, (tag, ctrls)))) => (id, tag, ctrls),
        other => fail!("c03:not-decoded", "well-formed response not decoded: {:?}", other.map(|o| o.is_some())),
    };
    ensure!(id == c.id, "c03:id", "message id {} decoded as {}", c.id, id);
    let got = match guard(move || LdapResult::from(tag)) {
        Ok(g) => g,
        Err(p) => fail!(panic_sig(&p), "LdapResult::from panicked on a well-formed result: {}", p),
    };
    compare_res(&got, res)?;
    let empty = vec![];
    compare_resp_controls(&ctrls, c.ctrls.as_ref().unwrap_or(&empty)).map_err(|f| Fail::new(format!("c03:ctrls/{}", f.sig), f.msg))?;
    check_helpers(&got)?;
    labels(c, obs);
    if nontrivial(c) {
        obs.nontrivial(format!("{:?}", c));
    }
    Ok(())
}

// ---------------------------------------------------------------- e2e lane

#[derive(Debug)]
enum Got {
    Plain(LdapResult),
    Exop(Exop, LdapResult),
    Failed(String),
}

pub fn check_e2e(c: &Case, obs: &mut Obs) -> Result<(), Fail> {
    let Resp::Result { app, res, sasl: _, exop_name, exop_val } = &c.resp else { fail!("harness-c03", "not a result") };
    let app = *app;
    let cc = c.clone();
    let c_conv = c.conv_refs.is_some();
    let out = sim::run_sim(c.id as u64, async move {
        let conn = sim::connect();
        let wire = conn.wire.clone();
        let srv = tokio::spawn(async move {
            loop {
                match wire.recv().await {
                    Recv::Msg(Ok(m), _, _) => {
                        if m.req.response_tag().is_some() {
                            let msg = RespMsg { id: m.id, resp: cc.resp.clone(), ctrls: cc.ctrls.clone() };
                            quiesce().await;
                            let mut bytes = Vec::new();
                            for uris in cc.conv_refs.iter().flatten() {
                                bytes.extend_from_slice(&RespMsg::new(m.id, Resp::Reference(uris.clone())).encode_forms(&cc.forms));
                            }
                            bytes.extend_from_slice(&msg.encode_forms(&cc.forms));
                            wire.push(&bytes);
                        }
                    }
                    Recv::Closed => break,
                    _ => break,
                }
            }
        });
        let mut ldap = conn.ldap.clone();
        let c2_conv = c_conv;
        let got = match app {
            1 => ldap.simple_bind("cn=x", "pw").await.map(Got::Plain),
            5 if c2_conv => ldap.search("dc=x", Scope::Base, "(a=b)", vec!["a"]).await.map(|r| Got::Plain(r.1)),
            5 => match ldap.streaming_search("dc=x", Scope::Base, "(a=b)", vec!["a"]).await {
                Ok(mut s) => match s.next().await {
                    Ok(None) => Ok(Got::Plain(s.finish().await)),
                    Ok(Some(_)) => Ok(Got::Failed("unexpected item".into())),
                    Err(e) => Err(e),
                },
                Err(e) => Err(e),
            },
            7 => ldap.modify("cn=x", vec![Mod::Add("a", HashSet::from(["b"]))]).await.map(Got::Plain),
            9 => ldap.add("cn=x", vec![("a", HashSet::from(["b"]))]).await.map(Got::Plain),
            11 => ldap.delete("cn=x").await.map(Got::Plain),
            13 => ldap.modifydn("cn=x", "cn=y", false, Some("dc=z")).await.map(Got::Plain),
            15 => ldap.compare("cn=x", "a", "b").await.map(|c| Got::Plain(c.0)),
            _ => ldap.extended(Exop { name: Some("1.2".into()), val: None }).await.map(|e| Got::Exop(e.0, e.1)),
        };
        let got = got.unwrap_or_else(|e| Got::Failed(err_kind(&e)));
        drop(ldap);
        let sim::Conn { ldap, driver, .. } = conn;
        drop(ldap);
        let end = sim::join_driver(driver).await;
        let _ = srv.await;
        (got, end)
    });
    let (got, end) = match out {
        SimResult::Done(v) => v,
        SimResult::Hang => fail!("c03:hang", "operation never completed"),
    };
    if let sim::DriveEnd::Panic(p) = &end {
        fail!(panic_sig(p), "driver panicked on a well-formed response: {}", p);
    }
    let (lr, ex) = match got {
        Got::Plain(r) => (r, None),
        Got::Exop(e, r) => (r, Some(e)),
        Got::Failed(e) => fail!("c03:e2e-failed", "operation failed with {} on a well-formed response {:?}", e, c.resp),
    };
    if let Some(rm) = &c.conv_refs {
        // search(): the referral list handed to the caller is the result's own list plus the URIs of the
        // reference messages (as a multiset); every other field is the server's
        let mut want = res.clone();
        let mut all: Vec<String> = res.refs.clone().unwrap_or_default();
        all.extend(rm.iter().flatten().cloned());
        let mut got_refs = lr.refs.clone();
        got_refs.sort();
        all.sort();
        ensure!(got_refs == all, "c03:refs", "search() referral list {:?}; the server encoded {:?} in the result and {:?} in reference messages", lr.refs, res.refs, rm);
        want.refs = Some(lr.refs.clone());
        compare_res(&lr, &want)?;
        obs.label("search()-with-reference-messages");
    } else {
        compare_res(&lr, res)?;
    }
    let empty = vec![];
    compare_resp_controls(&lr.ctrls, c.ctrls.as_ref().unwrap_or(&empty)).map_err(|f| Fail::new(format!("c03:ctrls/{}", f.sig), f.msg))?;
    if let Some(e) = ex {
        ensure!(&e.name == exop_name, "c03:exop-name", "extended response name {:?} delivered, server sent {:?}", e.name, exop_name);
        ensure!(&e.val == exop_val, "c03:exop-val", "extended response value {:?} delivered, server sent {:?}", e.val, exop_val);
        if exop_name.is_some() || exop_val.is_some() {
            obs.label("exop-name-or-value");
        }
    }
    labels(c, obs);
    if nontrivial(c) {
        obs.nontrivial(format!("{:?}", c));
    }
    Ok(())
}

pub fn property() -> Property {
    Property {
        id: "C03",
        level: "exploration",
        rule: "generated well-formed result responses of all 8 types (bind, searchDone, modify, add, delete, modDN, compare, extended): result code over 0..2^31-1 biased to the RFC 4511 table and the helper codes, matched DN / diagnostic any UTF-8 (empty, multi-byte, >64 KiB), 0-4 referral URIs, 0-4 controls (known and unknown OIDs; criticality absent/explicit FALSE/TRUE; value absent/empty/binary), extended name/value and bind serverSaslCreds each present or absent, encoded by the harness writer with a generated BER length form for every TLV. direct lane: verif_decode + LdapResult::from; e2e lane: the real operation future on the simulated connection. Oracle: every field equals the model; helper table success()/non_error()/equal() on the generated code. Non-trivial: >=1 non-minimal length, or >=1 control, or a referral, or a non-ASCII string. Distinct = debug rendering of the case.",
        assumptions: &["only legal BER is generated (INTEGER contents minimal); strings are valid UTF-8 as the property states", "harness BER writer and response model"],
        lanes: vec![
            Box::new(PLane { name: "direct", cases: |t| t.pick(5_000, 120_000), strat, check: check_direct }),
            Box::new(PLane { name: "e2e", cases: |t| t.pick(600, 8_000), strat: small_strat, check: check_e2e }),
        ],
        workers: (8, 16),
    }
}
