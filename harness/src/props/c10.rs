//! C10 — search streams deliver the server's items in order and obey the state machine.

use crate::ber::Tlv;
use crate::conv::from_lib;
use crate::model::{RCtl, Res, Resp, RespMsg};
use crate::props::c19::resp_controls;
use crate::respgen;
use crate::runner::{panic_sig, Ctx, Fail, Obs, PLane, Property};
use crate::sim::{self, err_kind, quiesce, ReadEnd, Recv, SimResult};
use crate::{ensure, fail};
use async_trait::async_trait;
use ldap3::adapters::{Adapter, EntriesOnly, SoloMarker};
use ldap3::result::{LdapResult, Result as LResult};
use ldap3::{ResultEntry, Scope, SearchStream, StreamState};
use proptest::collection::vec;
use proptest::prelude::*;
use serde::{Deserialize, Serialize};

/// A user-written pass-through adapter.
#[derive(Clone, Debug)]
pub struct Pass;
impl SoloMarker for Pass {}

#[async_trait]
impl<'a, S, A> Adapter<'a, S, A> for Pass
where
    S: AsRef<str> + Send + Sync + 'a,
    A: AsRef<[S]> + Send + Sync + 'a,
{
    async fn start(&mut self, stream: &mut SearchStream<'a, S, A>, base: &str, scope: Scope, filter: &str, attrs: A) -> LResult<()> {
        stream.start(base, scope, filter, attrs).await
    }
    async fn next(&mut self, stream: &mut SearchStream<'a, S, A>) -> LResult<Option<ResultEntry>> {
        stream.next().await
    }
    async fn finish(&mut self, stream: &mut SearchStream<'a, S, A>) -> LdapResult {
        stream.finish().await
    }
}

/// A user adapter that fails when it sees a reference message.
#[derive(Clone, Debug)]
pub struct FailOnRef;
impl SoloMarker for FailOnRef {}

#[async_trait]
impl<'a, S, A> Adapter<'a, S, A> for FailOnRef
where
    S: AsRef<str> + Send + Sync + 'a,
    A: AsRef<[S]> + Send + Sync + 'a,
{
    async fn start(&mut self, stream: &mut SearchStream<'a, S, A>, base: &str, scope: Scope, filter: &str, attrs: A) -> LResult<()> {
        stream.start(base, scope, filter, attrs).await
    }
    async fn next(&mut self, stream: &mut SearchStream<'a, S, A>) -> LResult<Option<ResultEntry>> {
        match stream.next().await {
            Ok(Some(re)) if re.is_ref() => Err(ldap3::LdapError::AdapterInit("reference refused".into())),
            other => other,
        }
    }
    async fn finish(&mut self, stream: &mut SearchStream<'a, S, A>) -> LdapResult {
        stream.finish().await
    }
}

/// A user adapter that, when the search it belongs to has ended, runs a second search on the same connection
/// configured with `adapter_chain_tail()` (clones of the adapters behind it - the documented use of that method)
/// and records the referral list the second search's finish() reports.
#[derive(Clone, Debug)]
pub struct Respawn {
    done: bool,
    slot: std::sync::Arc<std::sync::Mutex<Option<Vec<String>>>>,
}
impl SoloMarker for Respawn {}

#[async_trait]
impl<'a> Adapter<'a, &'a str, Vec<&'a str>> for Respawn {
    async fn start(&mut self, stream: &mut SearchStream<'a, &'a str, Vec<&'a str>>, base: &str, scope: Scope, filter: &str, attrs: Vec<&'a str>) -> LResult<()> {
        stream.start(base, scope, filter, attrs).await
    }
    async fn next(&mut self, stream: &mut SearchStream<'a, &'a str, Vec<&'a str>>) -> LResult<Option<ResultEntry>> {
        let r = stream.next().await;
        if let (Ok(None), false) = (&r, self.done) {
            self.done = true;
            let tail = stream.adapter_chain_tail().await;
            let mut ldap = stream.ldap_handle().clone();
            let refs = match ldap.streaming_search_with(tail, "cn=second", Scope::Base, "(objectClass=*)", vec!["*"]).await {
                Ok(mut s2) => {
                    let mut err = None;
                    loop {
                        match s2.next().await {
                            Ok(Some(_)) => continue,
                            Ok(None) => break,
                            Err(e) => {
                                err = Some(err_kind(&e));
                                break;
                            }
                        }
                    }
                    let res = s2.finish().await;
                    match err {
                        Some(e) => vec![format!("error:{}", e)],
                        None => res.refs,
                    }
                }
                Err(e) => vec![format!("start-error:{}", err_kind(&e))],
            };
            *self.slot.lock().unwrap() = Some(refs);
        }
        r
    }
    async fn finish(&mut self, stream: &mut SearchStream<'a, &'a str, Vec<&'a str>>) -> LdapResult {
        stream.finish().await
    }
}

#[derive(Clone, Copy, Debug, PartialEq, Eq, Hash, Serialize, Deserialize)]
pub enum Variant {
    Direct,
    EntriesOnly,
    Pass,
    PassEntriesOnly,
    EntriesOnlyPass,
    /// the `search()` convenience call
    Conv,
    /// PagedResults adapter; the server splits the item sequence into pages
    Paged,
    EntriesOnlyPaged,
    /// chain [PagedResults, EntriesOnly]: the inner adapter ends once per page
    PagedEntriesOnly,
    /// a user adapter that returns an error of its own when a reference arrives
    FailOnRef,
    /// chain [Respawn, EntriesOnly]: after the end of the search a second one is run with clones of the chain tail
    ChainTail,
}

#[derive(Clone, Copy, Debug, PartialEq, Eq, Hash, Serialize, Deserialize)]
pub enum CallKind {
    Next,
    Finish,
    State,
    /// start() on a stream that has already been started: documented to do nothing and return Ok(())
    StartAgain,
}

#[derive(Clone, Debug, Serialize, Deserialize)]
pub struct ItemSpec {
    pub resp: Resp,
    pub ctrls: Option<Vec<RCtl>>,
}

#[derive(Clone, Debug, Serialize, Deserialize)]
pub struct Case {
    pub items: Vec<ItemSpec>,
    pub fin: Res,
    pub fin_ctrls: Option<Vec<RCtl>>,
    pub variant: Variant,
    pub script: Vec<CallKind>,
    /// the server closes the connection after this many PDUs (None: sends everything)
    pub cut_after: Option<u8>,
    /// page boundaries (item indices) for the paged variants
    #[serde(default)]
    pub page_cuts: Vec<u8>,
    pub sched: u64,
}

fn strat(_: &Ctx) -> BoxedStrategy<Case> {
    let item = (prop_oneof![4 => respgen::entry_resp(), 2 => respgen::reference_resp(), 2 => respgen::intermediate_resp()], proptest::option::weighted(0.4, resp_controls(2))).prop_map(|(resp, ctrls)| ItemSpec { resp, ctrls });
    let variant = prop_oneof![3 => Just(Variant::Direct), 3 => Just(Variant::EntriesOnly), 1 => Just(Variant::Pass), 1 => Just(Variant::PassEntriesOnly), 1 => Just(Variant::EntriesOnlyPass), 2 => Just(Variant::Conv), 2 => Just(Variant::Paged), 2 => Just(Variant::EntriesOnlyPaged), 2 => Just(Variant::PagedEntriesOnly), 2 => Just(Variant::FailOnRef), 2 => Just(Variant::ChainTail)];
    let call = prop_oneof![10 => Just(CallKind::Next), 4 => Just(CallKind::Finish), 4 => Just(CallKind::State), 1 => Just(CallKind::StartAgain)];
    let script = prop_oneof![
        3 => vec(call, 1..=14),
        // happy path with extra calls at the end
        2 => (0usize..4, vec(prop_oneof![Just(CallKind::Next), Just(CallKind::Finish), Just(CallKind::State)], 0..5)).prop_map(|(_, tail)| {
            let mut v = vec![CallKind::Next; 10];
            v.push(CallKind::State);
            v.extend(tail);
            v.truncate(14);
            v
        }),
    ];
    (vec(item, 0..=8), respgen::small_res(), proptest::option::weighted(0.5, resp_controls(2)), variant, script, proptest::option::weighted(0.15, 0u8..9), vec(0u8..9, 0..4), any::<u64>())
        .prop_map(|(items, fin, fin_ctrls, variant, script, cut_after, page_cuts, sched)| {
            let paged = matches!(variant, Variant::Paged | Variant::EntriesOnlyPaged | Variant::PagedEntriesOnly);
            // the final result of a paged search must not carry a second paging control of its own
            let fin_ctrls = if paged { fin_ctrls.map(|v: Vec<RCtl>| v.into_iter().filter(|c| c.oid != crate::props::c16::PAGED_OID).collect()) } else { fin_ctrls };
            // the second search of the ChainTail variant needs a live connection
            let cut_after = if variant == Variant::ChainTail { None } else { cut_after };
            Case { items, fin, fin_ctrls, variant, script, cut_after, page_cuts, sched }
        })
        .boxed()
}

#[derive(Debug, Clone, PartialEq)]
enum Ret {
    Item(Tlv, Vec<crate::model::Ctl>),
    None,
    Err(String),
    Fin { rc: u32, matched: String, text: String, refs: Vec<String>, ctrls: Vec<crate::model::Ctl> },
    State(&'static str),
    Panic(String),
    /// model only: a synthetic result with this code (88 cancelled / 80 already finalized)
    Synth(u32),
}

fn state_name(s: StreamState) -> &'static str {
    match s {
        StreamState::Fresh => "Fresh",
        StreamState::Active => "Active",
        StreamState::Done => "Done",
        StreamState::Closed => "Closed",
        StreamState::Error => "Error",
    }
}

fn ctl_vec(c: &[ldap3::controls::Control]) -> Vec<crate::model::Ctl> {
    c.iter().map(|c| crate::model::Ctl { oid: c.1.ctype.clone(), crit: c.1.crit, val: c.1.val.clone() }).collect()
}

fn want_ctls(c: &Option<Vec<RCtl>>) -> Vec<crate::model::Ctl> {
    c.as_ref().map(|v| v.iter().map(|x| x.as_ctl()).collect()).unwrap_or_default()
}

fn ref_uris(r: &Resp) -> Vec<String> {
    match r {
        Resp::Reference(u) => u.clone(),
        _ => vec![],
    }
}

/// end offsets (in items) of the pages the server serves for the paged variants
fn page_ends(c: &Case) -> Vec<usize> {
    let mut cuts: Vec<usize> = c.page_cuts.iter().map(|x| (*x as usize).min(c.items.len())).collect();
    cuts.push(c.items.len());
    cuts.sort();
    cuts
}

/// Reference state machine (DESIGN.md Appendix B).
fn model(c: &Case) -> Vec<Ret> {
    let entries_only = matches!(c.variant, Variant::EntriesOnly | Variant::PassEntriesOnly | Variant::EntriesOnlyPass | Variant::EntriesOnlyPaged | Variant::PagedEntriesOnly | Variant::ChainTail);
    let paged = matches!(c.variant, Variant::Paged | Variant::EntriesOnlyPaged | Variant::PagedEntriesOnly);
    let avail = if paged {
        // the server closes after serving page k (if that is not the last page): items of pages 0..=k are available
        match (c.cut_after, page_ends(c)) {
            (Some(k), ends) if (k as usize) + 1 < ends.len() => ends[k as usize],
            _ => usize::MAX,
        }
    } else {
        c.cut_after.map(|k| k as usize).unwrap_or(usize::MAX)
    };
    let mut pos = 0usize; // index into items, items.len() = the final result
    let mut state = "Active";
    let mut stored = false;
    let mut collected: Vec<String> = Vec::new();
    let mut out = Vec::new();
    for call in &c.script {
        match call {
            CallKind::State => out.push(Ret::State(state)),
            // no effect whatever the state; reported as the state so that the comparison stays simple
            CallKind::StartAgain => out.push(Ret::State("start-again:ok")),
            CallKind::Next => {
                if state != "Active" {
                    out.push(Ret::None);
                    continue;
                }
                loop {
                    if pos >= avail {
                        out.push(Ret::Err("EndOfStream".into()));
                        state = "Error";
                        break;
                    }
                    if pos == c.items.len() {
                        out.push(Ret::None);
                        stored = true;
                        state = "Done";
                        pos += 1;
                        break;
                    }
                    let it = &c.items[pos];
                    pos += 1;
                    if c.variant == Variant::FailOnRef && matches!(it.resp, Resp::Reference(_)) {
                        out.push(Ret::Err("AdapterInit".into()));
                        state = "Error";
                        break;
                    }
                    if entries_only && !matches!(it.resp, Resp::Entry(_)) {
                        collected.extend(ref_uris(&it.resp));
                        continue;
                    }
                    out.push(Ret::Item(it.resp.to_tlv(), want_ctls(&it.ctrls)));
                    break;
                }
            }
            CallKind::Finish => {
                if state == "Closed" {
                    out.push(Ret::Synth(80));
                    continue;
                }
                if state == "Done" && stored {
                    let mut refs = c.fin.refs.clone().unwrap_or_default();
                    if entries_only {
                        refs.extend(collected.clone());
                    }
                    out.push(Ret::Fin { rc: c.fin.rc, matched: c.fin.matched.clone(), text: c.fin.text.clone(), refs, ctrls: want_ctls(&c.fin_ctrls) });
                } else {
                    out.push(Ret::Synth(88));
                }
                state = "Closed";
            }
        }
    }
    out
}

fn fin_ret(r: LdapResult) -> Ret {
    Ret::Fin { rc: r.rc, matched: r.matched, text: r.text, refs: r.refs, ctrls: ctl_vec(&r.ctrls) }
}

async fn drive_script<'a>(mut s: SearchStream<'a, &'a str, Vec<&'a str>>, script: Vec<CallKind>) -> Vec<Ret> {
    let mut out = Vec::new();
    for call in script {
        match call {
            CallKind::State => out.push(Ret::State(state_name(s.state()))),
            CallKind::StartAgain => out.push(match s.start("dc=other", Scope::Base, "(cn=again)", vec!["cn"]).await {
                Ok(()) => Ret::State("start-again:ok"),
                Err(e) => Ret::Err(format!("start-again:{}", err_kind(&e))),
            }),
            CallKind::Next => match s.next().await {
                Ok(Some(re)) => out.push(Ret::Item(from_lib(&re.0).unwrap_or(Tlv::prim(0, 0, vec![])), ctl_vec(&re.1))),
                Ok(None) => out.push(Ret::None),
                Err(e) => out.push(Ret::Err(err_kind(&e))),
            },
            CallKind::Finish => out.push(fin_ret(s.finish().await)),
        }
    }
    out
}

fn same_multiset(a: &[String], b: &[String]) -> bool {
    let (mut a, mut b) = (a.to_vec(), b.to_vec());
    a.sort();
    b.sort();
    a == b
}

pub fn check(case: &Case, obs: &mut Obs) -> Result<(), Fail> {
    let c = case.clone();
    let out = sim::run_sim(case.sched, async move {
        let conn = sim::connect();
        let wire = conn.wire.clone();
        let c2 = c.clone();
        let srv = tokio::spawn(async move {
            if matches!(c2.variant, Variant::Paged | Variant::EntriesOnlyPaged | Variant::PagedEntriesOnly) {
                // split the item sequence at the generated cut points and serve it page by page
                let cuts = page_ends(&c2);
                let mut start = 0usize;
                let npages = cuts.len();
                for (pi, end) in cuts.into_iter().enumerate() {
                    let m = loop {
                        match wire.recv().await {
                            Recv::Msg(Ok(m), _, _) if matches!(m.req, crate::model::Req::Search { .. }) => break Some(m),
                            Recv::Msg(..) => continue,
                            _ => break None,
                        }
                    };
                    let Some(m) = m else { return };
                    quiesce().await;
                    let mut bytes = Vec::new();
                    for it in &c2.items[start..end] {
                        bytes.extend_from_slice(&RespMsg { id: m.id, resp: it.resp.clone(), ctrls: it.ctrls.clone() }.encode());
                    }
                    start = end;
                    let last = pi + 1 == npages;
                    let cookie: Vec<u8> = if last { vec![] } else { format!("ck{}", pi).into_bytes() };
                    let pc = RCtl { oid: crate::props::c16::PAGED_OID.into(), crit: crate::model::CritForm::Absent, val: Some(crate::props::c16::paged_value(0, &cookie)) };
                    let (res, mut ctrls) = if last { (c2.fin.clone(), c2.fin_ctrls.clone().unwrap_or_default()) } else { (Res::ok("page"), vec![]) };
                    ctrls.push(pc);
                    bytes.extend_from_slice(&RespMsg { id: m.id, resp: Resp::result(5, res), ctrls: Some(ctrls) }.encode());
                    wire.push(&bytes);
                    if !last && c2.cut_after == Some(pi as u8) {
                        // connection lost at a page boundary: either after the consumer had the chance to ask for the
                        // next page (its request is then on the wire), or right behind the page's result, before the
                        // consumer gets there (the follow-up request can then not even be started)
                        if c2.sched % 2 == 0 {
                            quiesce().await;
                        }
                        wire.end_read(ReadEnd::Eof);
                        return;
                    }
                }
                return;
            }
            if let Recv::Msg(Ok(m), _, _) = wire.recv().await {
                quiesce().await;
                let mut bytes = Vec::new();
                let limit = c2.cut_after.map(|k| k as usize).unwrap_or(usize::MAX);
                let mut n = 0;
                for it in &c2.items {
                    if n >= limit {
                        break;
                    }
                    bytes.extend_from_slice(&RespMsg { id: m.id, resp: it.resp.clone(), ctrls: it.ctrls.clone() }.encode());
                    n += 1;
                }
                if n < limit {
                    bytes.extend_from_slice(&RespMsg { id: m.id, resp: Resp::result(5, c2.fin.clone()), ctrls: c2.fin_ctrls.clone() }.encode());
                }
                wire.push(&bytes);
                if c2.cut_after.is_some() {
                    wire.end_read(ReadEnd::Eof);
                }
                if c2.variant == Variant::ChainTail {
                    // the second search (started by the Respawn adapter): one reference of its own, then success
                    loop {
                        match wire.recv().await {
                            Recv::Msg(Ok(m2), _, _) => {
                                if let crate::model::Req::Search { .. } = m2.req {
                                    let mut b = RespMsg::new(m2.id, Resp::Reference(vec!["ldap://second/only".into()])).encode();
                                    b.extend_from_slice(&RespMsg::new(m2.id, Resp::result(5, Res::ok("second"))).encode());
                                    wire.push(&b);
                                }
                            }
                            Recv::Closed | Recv::Garbage(_) => break,
                            _ => {}
                        }
                    }
                }
            }
        });
        let mut ldap = conn.ldap.clone();
        // a quarter of the cases ask for a small size limit (1-4) which the server - as servers may - does not honour:
        // what the caller gets is still exactly what the server sent (limits are the server's business, C02 checks
        // that they are transmitted)
        if c.sched % 4 == 0 {
            ldap.with_search_options(ldap3::SearchOptions::new().sizelimit(1 + ((c.sched >> 8) % 4) as i32));
        }
        let script = c.script.clone();
        let variant = c.variant;
        let slot: std::sync::Arc<std::sync::Mutex<Option<Vec<String>>>> = Default::default();
        let slot2 = slot.clone();
        let jh = tokio::spawn(async move {
            let (base, filter, attrs) = ("dc=x", "(objectClass=*)", vec!["*"]);
            match variant {
                Variant::Conv => match ldap.search(base, Scope::Subtree, filter, attrs).await {
                    Ok(r) => {
                        let mut v: Vec<Ret> = r.0.iter().map(|re| Ret::Item(from_lib(&re.0).unwrap_or(Tlv::prim(0, 0, vec![])), ctl_vec(&re.1))).collect();
                        v.push(fin_ret(r.1));
                        v
                    }
                    Err(e) => vec![Ret::Err(err_kind(&e))],
                },
                _ => {
                    let s = match variant {
                        Variant::Direct => ldap.streaming_search(base, Scope::Subtree, filter, attrs).await,
                        Variant::EntriesOnly => ldap.streaming_search_with(EntriesOnly::new(), base, Scope::Subtree, filter, attrs).await,
                        Variant::Pass => ldap.streaming_search_with(Pass, base, Scope::Subtree, filter, attrs).await,
                        Variant::FailOnRef => ldap.streaming_search_with(FailOnRef, base, Scope::Subtree, filter, attrs).await,
                        Variant::Paged => ldap.streaming_search_with(ldap3::adapters::PagedResults::new(3), base, Scope::Subtree, filter, attrs).await,
                        Variant::EntriesOnlyPaged => {
                            let ad: Vec<Box<dyn Adapter<_, _>>> = vec![Box::new(EntriesOnly::new()), Box::new(ldap3::adapters::PagedResults::new(3))];
                            ldap.streaming_search_with(ad, base, Scope::Subtree, filter, attrs).await
                        }
                        Variant::PagedEntriesOnly => {
                            let ad: Vec<Box<dyn Adapter<_, _>>> = vec![Box::new(ldap3::adapters::PagedResults::new(3)), Box::new(EntriesOnly::new())];
                            ldap.streaming_search_with(ad, base, Scope::Subtree, filter, attrs).await
                        }
                        Variant::ChainTail => {
                            let ad: Vec<Box<dyn Adapter<_, _>>> = vec![Box::new(Respawn { done: false, slot: slot2 }), Box::new(EntriesOnly::new())];
                            ldap.streaming_search_with(ad, base, Scope::Subtree, filter, attrs).await
                        }
                        Variant::PassEntriesOnly => {
                            let ad: Vec<Box<dyn Adapter<_, _>>> = vec![Box::new(Pass), Box::new(EntriesOnly::new())];
                            ldap.streaming_search_with(ad, base, Scope::Subtree, filter, attrs).await
                        }
                        _ => {
                            let ad: Vec<Box<dyn Adapter<_, _>>> = vec![Box::new(EntriesOnly::new()), Box::new(Pass)];
                            ldap.streaming_search_with(ad, base, Scope::Subtree, filter, attrs).await
                        }
                    };
                    match s {
                        Ok(s) => drive_script(s, script).await,
                        Err(e) => vec![Ret::Err(format!("start:{}", err_kind(&e)))],
                    }
                }
            }
        });
        let got = match jh.await {
            Ok(v) => v,
            Err(_) => vec![Ret::Panic(crate::runner::take_panics().into_iter().last().unwrap_or_default())],
        };
        quiesce().await;
        srv.abort();
        let _ = srv.await;
        let second = slot.lock().unwrap().clone();
        (got, second)
    });
    let (got, second) = match out {
        SimResult::Done(v) => v,
        SimResult::Hang => fail!("c10:hang", "stream call never returned"),
    };
    if let Some(Ret::Panic(p)) = got.last() {
        let sig = if p.contains("search.rs") && p.contains("Option::unwrap()") { "c10:next-after-end-panics".to_string() } else { panic_sig(p) };
        fail!(sig, "stream call panicked: {} (variant {:?}, script {:?})", p, case.variant, case.script);
    }
    if let Some(refs) = &second {
        obs.label("second-search-through-chain-tail");
        ensure!(refs == &vec!["ldap://second/only".to_string()], "c10:chain-tail-refs", "a second search configured with adapter_chain_tail() after the first one had collected {} reference URIs reports the referral list {:?}; its server sent exactly [\"ldap://second/only\"]", case.items.iter().map(|i| ref_uris(&i.resp).len()).sum::<usize>(), refs);
    }
    if case.variant == Variant::Conv {
        if case.cut_after.map(|k| (k as usize) <= case.items.len()).unwrap_or(false) {
            // connection loss during search(): must be an error (C04's business beyond that)
            ensure!(matches!(got.as_slice(), [Ret::Err(_)]), "c10:conv-cut", "search() over a cut connection returned {:?}", got.len());
            return Ok(());
        }
        let want_entries: Vec<&ItemSpec> = case.items.iter().filter(|i| matches!(i.resp, Resp::Entry(_))).collect();
        let (fin, entries) = got.split_last().ok_or_else(|| Fail::new("c10:conv", "search() returned nothing"))?;
        ensure!(entries.len() == want_entries.len(), "c10:conv-entries", "search() returned {} entries, server sent {} (items: {} total)", entries.len(), want_entries.len(), case.items.len());
        for (g, w) in entries.iter().zip(&want_entries) {
            ensure!(g == &Ret::Item(w.resp.to_tlv(), want_ctls(&w.ctrls)), "c10:conv-entries", "search() entry differs from what the server sent, or order changed");
        }
        let mut want_refs = case.fin.refs.clone().unwrap_or_default();
        for i in &case.items {
            want_refs.extend(ref_uris(&i.resp));
        }
        match fin {
            Ret::Fin { rc, matched, text, refs, ctrls } => {
                ensure!(*rc == case.fin.rc && matched == &case.fin.matched && text == &case.fin.text, "c10:conv-result", "search() result {:?}/{:?}/{:?}, server sent {:?}", rc, matched, text, case.fin);
                ensure!(same_multiset(refs, &want_refs), "c10:conv-refs", "search() referral list {:?}, expected (as multiset) {:?}", refs, want_refs);
                ensure!(ctrls == &want_ctls(&case.fin_ctrls), "c10:conv-ctrls", "search() result controls differ");
            }
            other => fail!("c10:conv-result", "search() failed: {:?}", other),
        }
        let kinds = case.items.iter().map(|i| std::mem::discriminant(&i.resp)).collect::<std::collections::HashSet<_>>().len();
        obs.label("conv");
        if kinds >= 2 {
            obs.nontrivial(format!("{:?}", case));
        }
        return Ok(());
    }
    let want = model(case);
    ensure!(got.len() == want.len(), "c10:script-length", "{} calls made, {} answered: {:?}", want.len(), got.len(), got.last());
    let entries_only = matches!(case.variant, Variant::EntriesOnly | Variant::PassEntriesOnly | Variant::EntriesOnlyPass | Variant::EntriesOnlyPaged | Variant::PagedEntriesOnly | Variant::ChainTail);
    for (k, (g, w)) in got.iter().zip(&want).enumerate() {
        let call = case.script[k];
        let ok = match (g, w) {
            (Ret::Fin { rc: g_rc, .. }, Ret::Synth(w_rc)) => g_rc == w_rc,
            (Ret::Fin { rc: g_rc, matched: gm, text: gt, refs: gr, ctrls: gc }, Ret::Fin { rc: w_rc, matched: wm, text: wt, refs: wr, ctrls: wc }) => g_rc == w_rc && gm == wm && gt == wt && gc == wc && if entries_only { same_multiset(gr, wr) } else { gr == wr },
            (Ret::Err(_), Ret::Err(_)) => true,
            (a, b) => a == b,
        };
        if !ok {
            let sig = match (call, g, w) {
                (CallKind::Finish, Ret::Fin { rc, .. }, Ret::Synth(88)) if *rc != 88 && matches!(case.variant, Variant::Paged | Variant::EntriesOnlyPaged | Variant::PagedEntriesOnly) => "c10:paged-early-finish-stale-result".to_string(),
                (CallKind::State, Ret::State("Active"), Ret::State("Done")) if case.variant == Variant::Direct => "c10:direct-stream-never-done".to_string(),
                (CallKind::State, _, _) => "c10:state".to_string(),
                (CallKind::Next, _, _) => "c10:next".to_string(),
                (CallKind::Finish, _, _) => "c10:finish".to_string(),
                (CallKind::StartAgain, _, _) => "c10:start-again".to_string(),
            };
            fail!(sig, "call #{} ({:?}) on {:?} stream returned {}, the state machine says {} (script {:?}, {} items, cut {:?})", k, call, case.variant, short(g), short(w), case.script, case.items.len(), case.cut_after);
        }
    }
    // classification
    let mut off_path = false;
    let mut ended = false;
    let mut finished = false;
    for (k, call) in case.script.iter().enumerate() {
        match call {
            CallKind::Next => {
                if ended || finished {
                    off_path = true;
                    obs.label(if finished { "next-after-finish" } else { "next-after-end" });
                }
                if matches!(want[k], Ret::None | Ret::Err(_)) {
                    ended = true;
                }
            }
            CallKind::Finish => {
                if finished {
                    off_path = true;
                    obs.label("double-finish");
                } else if !ended {
                    off_path = true;
                    obs.label("early-finish");
                }
                finished = true;
            }
            CallKind::State => {}
            CallKind::StartAgain => {
                off_path = true;
                obs.label("start-on-a-started-stream");
            }
        }
    }
    let kinds = case.items.iter().map(|i| std::mem::discriminant(&i.resp)).collect::<std::collections::HashSet<_>>().len();
    obs.label(format!("variant:{:?}", case.variant));
    if case.cut_after.is_some() {
        obs.label("connection-cut");
    }
    if off_path || kinds >= 2 {
        obs.nontrivial(format!("{:?}", case));
    }
    Ok(())
}

fn short(r: &Ret) -> String {
    let s = format!("{:?}", r);
    s.chars().take(160).collect()
}

pub fn property() -> Property {
    Property {
        id: "C10",
        level: "exploration",
        rule: "generated: a server item sequence (0-8 of entry / reference with 1-3 URIs / intermediate, each with 0-2 controls), a final result (any code, referrals, controls), optionally a connection cut after k PDUs; a stream variant (direct, EntriesOnly, user pass-through adapter, [pass-through, EntriesOnly], [EntriesOnly, pass-through], PagedResults and [EntriesOnly, PagedResults] with the item sequence served in generated pages (optionally with the connection lost at a page boundary), a user adapter that fails on a reference message, a user adapter that runs a second search configured with adapter_chain_tail() once the first has ended, or the search() call); a call script of 1-14 calls from next/finish/state (and, rarely, start() on the already started stream, a documented no-op) in any order (incl. next after the end, early finish, next after finish, double finish). Oracle: reference state machine of DESIGN.md Appendix B - every return value (items with their controls in server order, Ok(None), errors, finish() = server result iff read to the end else code 88, second finish code 80) and every state() equal the model; search(): entries in order, referral list = result referrals + all reference URIs as a multiset, intermediates dropped. Non-trivial: the script leaves the happy path or the item sequence mixes >=2 kinds. Distinct = debug rendering of the case.",
        assumptions: &["all PDUs of the search are delivered before the calls are made, so call results do not depend on timing", "synthetic results are compared by code only"],
        lanes: vec![Box::new(PLane { name: "streams", cases: |t| t.pick(2_000, 30_000), strat, check })],
        workers: (8, 16),
    }
}
