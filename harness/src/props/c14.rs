//! C14 — the synchronous API is observationally identical to the asynchronous one.
//! The same generated script is run through LdapConn/EntryStream and through
//! Ldap/SearchStream against the same scripted server logic on a Unix socket pair.

use crate::ber::{self, Parsed};
use crate::gens;
use crate::model::{self, Ctl, Entry, ReqMsg, Res, Resp, RespMsg};
use crate::props::{c08, c19};
use crate::runner::{guard, panic_sig, Ctx, Fail, Obs, PLane, Property};
use crate::sim::err_kind;
use crate::{ensure, fail};
use ldap3::adapters::EntriesOnly;
use ldap3::controls::RawControl;
use ldap3::exop::Exop;
use ldap3::result::LdapResult;
use ldap3::{LdapConn, LdapConnAsync, LdapConnSettings, Mod, Scope, SearchOptions, StdStream};
use proptest::collection::vec;
use proptest::prelude::*;
use serde::{Deserialize, Serialize};
use std::collections::HashSet;
use std::io::{Read, Write};
use std::os::unix::net::UnixStream;
use std::time::Duration;

#[derive(Clone, Copy, Debug, PartialEq, Serialize, Deserialize)]
pub enum Beh {
    Success,
    Error(u32),
    Silent,
    Disconnect,
    /// a search answered entry by entry with 120 ms pauses (5 entries), the client using a 500 ms timeout: every
    /// single wait stays far below the timeout, the whole search takes longer than it
    Drip,
}

#[derive(Clone, Copy, Debug, PartialEq, Serialize, Deserialize)]
pub enum How {
    Conv,
    Stream,
    StreamWith,
}

#[derive(Clone, Debug, Serialize, Deserialize)]
pub enum Call {
    SimpleBind { dn: String, pw: String },
    SaslExternal,
    Search { base: String, scope: u8, filter: String, attrs: Vec<String>, how: How, entries: u8, read: Option<u8> },
    Add { dn: String, attrs: Vec<(String, Vec<String>)> },
    Compare { dn: String, attr: String, val: Vec<u8> },
    Delete { dn: String },
    Modify { dn: String, mods: Vec<(u8, String, Vec<String>)> },
    ModDn { dn: String, rdn: String, delete_old: bool, new_sup: Option<String> },
    Extended { name: String, val: Option<Vec<u8>> },
    Abandon { id: i32 },
    LastId,
    IsClosed,
    PeerCert,
}

#[derive(Clone, Debug, Serialize, Deserialize)]
pub struct Step {
    controls: Option<Vec<Ctl>>,
    timeout: bool,
    search_opts: Option<(u8, bool, i32, i32)>,
    call: Call,
    beh: Beh,
}

#[derive(Clone, Debug, Serialize, Deserialize)]
pub struct Case {
    ctor: u8,
    steps: Vec<Step>,
    unbind: bool,
}

fn strvals() -> BoxedStrategy<Vec<String>> {
    vec(gens::text(6), 0..4).prop_map(|v| { let mut s = HashSet::new(); v.into_iter().filter(|x| s.insert(x.clone())).collect() }).boxed()
}

fn call() -> BoxedStrategy<Call> {
    let dn = || gens::text(12);
    prop_oneof![
        2 => (dn(), gens::text(8)).prop_map(|(dn, pw)| Call::SimpleBind { dn, pw }),
        1 => Just(Call::SaslExternal),
        5 => (dn(), 0u8..3, c08::valid_filter_string(2, 3), vec(gens::descr(), 0..4), prop_oneof![Just(How::Conv), Just(How::Stream), Just(How::StreamWith)], 0u8..4, proptest::option::weighted(0.3, 0u8..3))
            .prop_map(|(base, scope, (_, fs), attrs, how, entries, read)| Call::Search { base, scope, filter: String::from_utf8(fs).unwrap(), attrs, how, entries, read }),
        2 => (dn(), vec((gens::descr(), strvals()), 0..4)).prop_map(|(dn, attrs)| Call::Add { dn, attrs }),
        2 => (dn(), gens::descr(), gens::blob(8)).prop_map(|(dn, attr, val)| Call::Compare { dn, attr, val }),
        2 => dn().prop_map(|dn| Call::Delete { dn }),
        2 => (dn(), vec((0u8..4, gens::descr(), strvals()), 0..4)).prop_map(|(dn, mods)| Call::Modify { dn, mods: mods.into_iter().map(|(k, a, mut v)| { if k == 3 { v.truncate(1); if v.is_empty() { v.push("1".into()); } } (k, a, v) }).collect() }),
        2 => (dn(), gens::text(8), any::<bool>(), proptest::option::of(gens::text(8))).prop_map(|(dn, rdn, delete_old, new_sup)| Call::ModDn { dn, rdn, delete_old, new_sup }),
        2 => (gens::oid(), proptest::option::of(gens::blob(10))).prop_map(|(name, val)| Call::Extended { name, val }),
        1 => (0i32..10).prop_map(|id| Call::Abandon { id }),
        1 => Just(Call::LastId),
        1 => Just(Call::IsClosed),
        1 => Just(Call::PeerCert),
    ]
    .boxed()
}

fn strat(_: &Ctx) -> BoxedStrategy<Case> {
    let beh = prop_oneof![8 => Just(Beh::Success), 3 => proptest::sample::select(&[1u32, 4, 5, 6, 10, 32, 49, 53, 68][..]).prop_map(Beh::Error), 1 => Just(Beh::Silent), 1 => Just(Beh::Disconnect)];
    // (weights x10 so that the slow 'Drip' behaviour can be rare)
    let beh = prop_oneof![120 => beh, 1 => Just(Beh::Drip)];
    let step = (proptest::option::weighted(0.3, c19::req_controls(2)), proptest::option::weighted(0.3, (0u8..4, any::<bool>(), 0i32..1000, 0i32..1000)), call(), beh).prop_map(|(controls, search_opts, call, beh)| {
        // silence is only scripted together with a client timeout, so that both runs end
        // Drip only makes sense for a search that is read to the end
        let (call, beh) = match (call, beh) {
            (Call::Search { base, scope, filter, attrs, how, .. }, Beh::Drip) => (Call::Search { base, scope, filter, attrs, how, entries: 5, read: None }, Beh::Drip),
            (c, Beh::Drip) => (c, Beh::Success),
            x => x,
        };
        // a timeout modifier in front of a call that is answered locally (is_closed, last_id, get_peer_certificate) would
        // stay pending and hit the NEXT operation, which the server answers at once: a 40 ms race under load in both runs
        let timeout = (beh == Beh::Silent || beh == Beh::Drip) && needs_server(&call);
        Step { controls, timeout, search_opts, call, beh }
    });
    (0u8..4, vec(step, 1..8), any::<bool>())
        .prop_map(|(ctor, mut steps, unbind)| {
            // nothing after a disconnect except local calls is meaningful for timing-free comparison
            let mut unbind = unbind;
            if let Some(p) = steps.iter().position(|s| s.beh == Beh::Disconnect && needs_server(&s.call) && !local_failure(&s.call) && !matches!(s.call, Call::Abandon { .. })) {
                // ... but the calls answered locally (is_closed, get_peer_certificate, last_id) must also agree on a dead connection
                // (only when the disconnected call itself waits for the server: an early-finished stream
                // returns before the hang-up is seen, and what a later local call finds is then a race)
                let observed = !matches!(&steps[p].call, Call::Search { how: How::Stream | How::StreamWith, read: Some(_), .. });
                let tail: Vec<Step> = steps.split_off(p + 1).into_iter().filter(|s| observed && !needs_server(&s.call)).collect();
                steps.extend(tail);
                // whether an unbind after a disconnect still finds the driver alive is a race in both APIs - unless the
                // failing call itself waited for the server: then the driver is gone in both, and unbind() must say so alike
                unbind = unbind && observed;
            }
            Case { ctor, steps, unbind }
        })
        .boxed()
}

fn needs_server(c: &Call) -> bool {
    !matches!(c, Call::LastId | Call::IsClosed | Call::PeerCert)
}

fn local_failure(c: &Call) -> bool {
    match c {
        Call::Add { attrs, .. } => attrs.iter().any(|(_, v)| v.is_empty()),
        Call::Modify { mods, .. } => mods.iter().any(|(k, _, v)| *k == 0 && v.is_empty()),
        _ => false,
    }
}

// ------------------------------------------------------------------ scripted server (blocking, one thread)

fn server(mut sock: UnixStream, plan: Vec<(Beh, u8)>) -> Vec<Vec<u8>> {
    let mut log = Vec::new();
    let mut buf: Vec<u8> = Vec::new();
    let mut tmp = [0u8; 8192];
    let mut k = 0usize;
    let _ = sock.set_read_timeout(Some(Duration::from_secs(10)));
    'outer: loop {
        let t = loop {
            match ber::parse(&buf) {
                Parsed::Complete(t, used) => {
                    log.push(buf[..used].to_vec());
                    buf.drain(..used);
                    break t;
                }
                Parsed::Invalid(_) => break 'outer,
                Parsed::Incomplete => {}
            }
            match sock.read(&mut tmp) {
                Ok(0) | Err(_) => break 'outer,
                Ok(n) => buf.extend_from_slice(&tmp[..n]),
            }
        };
        let Ok(m) = model::decode_request(&t) else { continue };
        let Some(tag) = m.req.response_tag() else {
            if matches!(m.req, model::Req::Unbind) {
                break;
            }
            continue; // abandon: no response, does not consume a behaviour
        };
        let (beh, entries) = plan.get(k).copied().unwrap_or((Beh::Success, 0));
        k += 1;
        let mut out = Vec::new();
        match beh {
            Beh::Success | Beh::Error(_) => {
                if tag == 5 {
                    for e in 0..entries {
                        out.extend_from_slice(&RespMsg::new(m.id, Resp::Entry(Entry { dn: format!("cn=e{}", e), attrs: vec![("cn".into(), vec![format!("e{}", e).into_bytes()])] })).encode());
                    }
                    if entries >= 2 {
                        out.extend_from_slice(&RespMsg::new(m.id, Resp::Reference(vec!["ldap://other/dc=x".into()])).encode());
                    }
                }
                let rc = if let Beh::Error(rc) = beh { rc } else { 0 };
                out.extend_from_slice(&RespMsg::new(m.id, Resp::result(tag, Res { rc, matched: "dc=m".into(), text: format!("r{}", k), refs: if rc == 10 { Some(vec!["ldap://ref/".into()]) } else { None } })).encode());
                // the client may already be gone; keep draining what it had written
                let _ = sock.write_all(&out);
            }
            Beh::Drip => {
                for e in 0..entries {
                    std::thread::sleep(Duration::from_millis(120));
                    let _ = sock.write_all(&RespMsg::new(m.id, Resp::Entry(Entry { dn: format!("cn=e{}", e), attrs: vec![("cn".into(), vec![format!("e{}", e).into_bytes()])] })).encode());
                }
                std::thread::sleep(Duration::from_millis(120));
                let _ = sock.write_all(&RespMsg::new(m.id, Resp::result(tag, Res { rc: 0, matched: "".into(), text: format!("r{}", k), refs: None })).encode());
            }
            Beh::Silent => {}
            Beh::Disconnect => break,
        }
    }
    let _ = sock.shutdown(std::net::Shutdown::Both);
    log
}

fn server_plan(c: &Case) -> Vec<(Beh, u8)> {
    c.steps
        .iter()
        .filter(|s| needs_server(&s.call) && !local_failure(&s.call) && !matches!(s.call, Call::Abandon { .. }))
        .map(|s| (s.beh, if let Call::Search { entries, .. } = &s.call { *entries } else { 0 }))
        .collect()
}

// ------------------------------------------------------------------ the two clients

fn raw(c: &[Ctl]) -> Vec<RawControl> {
    c.iter().map(|x| RawControl { ctype: x.oid.clone(), crit: x.crit, val: x.val.clone() }).collect()
}

fn sopts(o: (u8, bool, i32, i32)) -> SearchOptions {
    SearchOptions::new()
        .deref(match o.0 {
            0 => ldap3::DerefAliases::Never,
            1 => ldap3::DerefAliases::Searching,
            2 => ldap3::DerefAliases::Finding,
            _ => ldap3::DerefAliases::Always,
        })
        .typesonly(o.1)
        .timelimit(o.2)
        .sizelimit(o.3)
}

fn scope(s: u8) -> Scope {
    match s {
        0 => Scope::Base,
        1 => Scope::OneLevel,
        _ => Scope::Subtree,
    }
}

fn res_str(r: &LdapResult) -> String {
    format!("rc={} matched={:?} text={:?} refs={:?} ctrls={}", r.rc, r.matched, r.text, r.refs, r.ctrls.len())
}

fn err_str(e: &ldap3::LdapError) -> String {
    match e {
        ldap3::LdapError::LdapResult { result } => format!("Err(LdapResult {})", res_str(result)),
        other => format!("Err({})", err_kind(other)),
    }
}

const TMO: Duration = Duration::from_millis(40);
const DRIP_TMO: Duration = Duration::from_millis(500);

fn mods_of(mods: &[(u8, String, Vec<String>)]) -> Vec<Mod<String>> {
    mods.iter()
        .map(|(k, a, v)| {
            let set: HashSet<String> = v.iter().cloned().collect();
            match k {
                0 => Mod::Add(a.clone(), set),
                1 => Mod::Delete(a.clone(), set),
                2 => Mod::Replace(a.clone(), set),
                _ => Mod::Increment(a.clone(), v[0].clone()),
            }
        })
        .collect()
}

fn run_sync(c: &Case, sock: UnixStream, path: Option<&str>) -> Result<Vec<String>, String> {
    let mut out = Vec::new();
    let settings = LdapConnSettings::new().set_std_stream(StdStream::Unix(sock));
    let mut conn = match (c.ctor % 4, path) {
        (1, _) => LdapConn::from_url_with_settings(settings, &url::Url::parse("ldapi:///").unwrap()),
        (2, Some(p)) => LdapConn::new(p),
        (3, Some(p)) => LdapConn::from_url(&url::Url::parse(p).unwrap()),
        _ => LdapConn::with_settings(settings, "ldapi:///"),
    }
    .map_err(|e| format!("connect: {}", err_kind(&e)))?;
    for s in &c.steps {
        if let Some(cs) = &s.controls {
            conn.with_controls(raw(cs));
        }
        if s.timeout {
            conn.with_timeout(if s.beh == Beh::Drip { DRIP_TMO } else { TMO });
        }
        if let Some(o) = s.search_opts {
            conn.with_search_options(sopts(o));
        }
        let line = match &s.call {
            Call::SimpleBind { dn, pw } => conn.simple_bind(dn, pw).map(|r| res_str(&r)).unwrap_or_else(|e| err_str(&e)),
            Call::SaslExternal => conn.sasl_external_bind().map(|r| res_str(&r)).unwrap_or_else(|e| err_str(&e)),
            Call::Search { base, scope: sc, filter, attrs, how, read, .. } => match how {
                How::Conv => match conn.search(base, scope(*sc), filter, attrs.clone()) {
                    Ok(r) => format!("entries={:?} {}", r.0.iter().map(|e| crate::simops::item_token(e)).collect::<Vec<_>>(), res_str(&r.1)),
                    Err(e) => err_str(&e),
                },
                _ => {
                    let st = if *how == How::Stream { conn.streaming_search(base, scope(*sc), filter, attrs.clone()) } else { conn.streaming_search_with(EntriesOnly::new(), base, scope(*sc), filter, attrs.clone()) };
                    match st {
                        Ok(mut st) => {
                            let mut items = Vec::new();
                            let id = st.last_id();
                            let mut n = 0;
                            loop {
                                if let Some(k) = read {
                                    if n >= *k {
                                        break;
                                    }
                                }
                                match st.next() {
                                    Ok(Some(e)) => items.push(format!("{:?}", crate::simops::item_token(&e))),
                                    Ok(None) => {
                                        items.push("end".into());
                                        break;
                                    }
                                    Err(e) => {
                                        items.push(err_str(&e));
                                        break;
                                    }
                                }
                                n += 1;
                            }
                            let r = st.result();
                            format!("stream id={} items={:?} {}", id, items, res_str(&r))
                        }
                        Err(e) => err_str(&e),
                    }
                }
            },
            Call::Add { dn, attrs } => conn.add(dn, attrs.iter().map(|(a, v)| (a.clone(), v.iter().cloned().collect::<HashSet<_>>())).collect()).map(|r| res_str(&r)).unwrap_or_else(|e| err_str(&e)),
            Call::Compare { dn, attr, val } => match conn.compare(dn, attr, val) {
                Ok(r) => format!("{} equal={:?}", res_str(&r.0), r.clone().equal().map_err(|e| err_kind(&e))),
                Err(e) => err_str(&e),
            },
            Call::Delete { dn } => conn.delete(dn).map(|r| res_str(&r)).unwrap_or_else(|e| err_str(&e)),
            Call::Modify { dn, mods } => conn.modify(dn, mods_of(mods)).map(|r| res_str(&r)).unwrap_or_else(|e| err_str(&e)),
            Call::ModDn { dn, rdn, delete_old, new_sup } => conn.modifydn(dn, rdn, *delete_old, new_sup.as_deref()).map(|r| res_str(&r)).unwrap_or_else(|e| err_str(&e)),
            Call::Extended { name, val } => match conn.extended(Exop { name: Some(name.clone()), val: val.clone() }) {
                Ok(r) => format!("exop={:?}/{:?} {}", r.0.name, r.0.val, res_str(&r.1)),
                Err(e) => err_str(&e),
            },
            Call::Abandon { id } => format!("{:?}", conn.abandon(*id).map_err(|e| err_kind(&e))),
            Call::LastId => format!("last_id={}", conn.last_id()),
            Call::IsClosed => format!("closed={}", conn.is_closed()),
            Call::PeerCert => format!("{:?}", conn.get_peer_certificate().map_err(|e| err_kind(&e))),
        };
        out.push(format!("{} last_id={}", line, conn.last_id()));
    }
    if c.unbind {
        out.push(format!("unbind={:?}", conn.unbind().map_err(|e| err_kind(&e))));
    }
    Ok(out)
}

async fn run_async_inner(c: &Case, sock: UnixStream, path: Option<String>) -> Result<Vec<String>, String> {
    let mut out = Vec::new();
    let settings = LdapConnSettings::new().set_std_stream(StdStream::Unix(sock));
    let r = match (c.ctor % 4, &path) {
        (1, _) => LdapConnAsync::from_url_with_settings(settings, &url::Url::parse("ldapi:///").unwrap()).await,
        (2, Some(p)) => LdapConnAsync::new(p).await,
        (3, Some(p)) => LdapConnAsync::from_url(&url::Url::parse(p).unwrap()).await,
        _ => LdapConnAsync::with_settings(settings, "ldapi:///").await,
    };
    let (conn, mut ldap) = r.map_err(|e| format!("connect: {}", err_kind(&e)))?;
    ldap3::drive!(conn);
    for s in &c.steps {
        if let Some(cs) = &s.controls {
            ldap.with_controls(raw(cs));
        }
        if s.timeout {
            ldap.with_timeout(if s.beh == Beh::Drip { DRIP_TMO } else { TMO });
        }
        if let Some(o) = s.search_opts {
            ldap.with_search_options(sopts(o));
        }
        let line = match &s.call {
            Call::SimpleBind { dn, pw } => ldap.simple_bind(dn, pw).await.map(|r| res_str(&r)).unwrap_or_else(|e| err_str(&e)),
            Call::SaslExternal => ldap.sasl_external_bind().await.map(|r| res_str(&r)).unwrap_or_else(|e| err_str(&e)),
            Call::Search { base, scope: sc, filter, attrs, how, read, .. } => match how {
                How::Conv => match ldap.search(base, scope(*sc), filter, attrs.clone()).await {
                    Ok(r) => format!("entries={:?} {}", r.0.iter().map(|e| crate::simops::item_token(e)).collect::<Vec<_>>(), res_str(&r.1)),
                    Err(e) => err_str(&e),
                },
                _ => {
                    let st = if *how == How::Stream { ldap.streaming_search(base, scope(*sc), filter, attrs.clone()).await } else { ldap.streaming_search_with(EntriesOnly::new(), base, scope(*sc), filter, attrs.clone()).await };
                    match st {
                        Ok(mut st) => {
                            let mut items = Vec::new();
                            let id = st.ldap_handle().last_id();
                            let mut n = 0;
                            loop {
                                if let Some(k) = read {
                                    if n >= *k {
                                        break;
                                    }
                                }
                                match st.next().await {
                                    Ok(Some(e)) => items.push(format!("{:?}", crate::simops::item_token(&e))),
                                    Ok(None) => {
                                        items.push("end".into());
                                        break;
                                    }
                                    Err(e) => {
                                        items.push(err_str(&e));
                                        break;
                                    }
                                }
                                n += 1;
                            }
                            let r = st.finish().await;
                            format!("stream id={} items={:?} {}", id, items, res_str(&r))
                        }
                        Err(e) => err_str(&e),
                    }
                }
            },
            Call::Add { dn, attrs } => ldap.add(dn, attrs.iter().map(|(a, v)| (a.clone(), v.iter().cloned().collect::<HashSet<_>>())).collect()).await.map(|r| res_str(&r)).unwrap_or_else(|e| err_str(&e)),
            Call::Compare { dn, attr, val } => match ldap.compare(dn, attr, val).await {
                Ok(r) => format!("{} equal={:?}", res_str(&r.0), r.clone().equal().map_err(|e| err_kind(&e))),
                Err(e) => err_str(&e),
            },
            Call::Delete { dn } => ldap.delete(dn).await.map(|r| res_str(&r)).unwrap_or_else(|e| err_str(&e)),
            Call::Modify { dn, mods } => ldap.modify(dn, mods_of(mods)).await.map(|r| res_str(&r)).unwrap_or_else(|e| err_str(&e)),
            Call::ModDn { dn, rdn, delete_old, new_sup } => ldap.modifydn(dn, rdn, *delete_old, new_sup.as_deref()).await.map(|r| res_str(&r)).unwrap_or_else(|e| err_str(&e)),
            Call::Extended { name, val } => match ldap.extended(Exop { name: Some(name.clone()), val: val.clone() }).await {
                Ok(r) => format!("exop={:?}/{:?} {}", r.0.name, r.0.val, res_str(&r.1)),
                Err(e) => err_str(&e),
            },
            Call::Abandon { id } => format!("{:?}", ldap.abandon(*id).await.map_err(|e| err_kind(&e))),
            Call::LastId => format!("last_id={}", ldap.last_id()),
            Call::IsClosed => format!("closed={}", ldap.is_closed()),
            Call::PeerCert => format!("{:?}", ldap.get_peer_certificate().await.map_err(|e| err_kind(&e))),
        };
        out.push(format!("{} last_id={}", line, ldap.last_id()));
    }
    if c.unbind {
        out.push(format!("unbind={:?}", ldap.unbind().await.map_err(|e| err_kind(&e))));
    }
    Ok(out)
}

struct RunOut {
    client: Result<Vec<String>, String>,
    wire: Vec<Result<ReqMsg, String>>,
    raw: Vec<Vec<u8>>,
}

fn one_run(c: &Case, sync_api: bool) -> Result<RunOut, Fail> {
    let plan = server_plan(c);
    // ctor 2/3 connect through a real ldapi:// path; 0/1 use a pre-opened socket pair
    let use_path = c.ctor % 4 >= 2;
    static SEQ: std::sync::atomic::AtomicUsize = std::sync::atomic::AtomicUsize::new(0);
    let dir = std::env::temp_dir().join(format!("ldap3-verif-c14-{}-{}", std::process::id(), SEQ.fetch_add(1, std::sync::atomic::Ordering::SeqCst)));
    let (client_sock, srv_handle, path_url): (UnixStream, std::thread::JoinHandle<Vec<Vec<u8>>>, Option<String>) = if use_path {
        std::fs::create_dir_all(&dir).map_err(|e| Fail::new("env-tmp", e.to_string()))?;
        let p = dir.join("s");
        let l = std::os::unix::net::UnixListener::bind(&p).map_err(|e| Fail::new("env-bind", e.to_string()))?;
        let h = std::thread::spawn(move || match l.accept() {
            Ok((s, _)) => server(s, plan),
            Err(_) => vec![],
        });
        let enc: String = p.to_string_lossy().bytes().map(|b| if b.is_ascii_alphanumeric() || b == b'.' || b == b'-' { (b as char).to_string() } else { format!("%{:02X}", b) }).collect();
        // a dummy pair satisfies the signature; it is not used when the URL carries the path
        let (a, _b) = UnixStream::pair().map_err(|e| Fail::new("env-unix", e.to_string()))?;
        (a, h, Some(format!("ldapi://{}/", enc)))
    } else {
        let (a, b) = UnixStream::pair().map_err(|e| Fail::new("env-unix", e.to_string()))?;
        let h = std::thread::spawn(move || server(b, plan));
        (a, h, None)
    };
    let cc = c.clone();
    let pu = path_url.clone();
    let client = guard(move || {
        if sync_api {
            run_sync(&cc, client_sock, pu.as_deref())
        } else {
            let rt = tokio::runtime::Builder::new_current_thread().enable_all().build().map_err(|e| e.to_string())?;
            rt.block_on(run_async_inner(&cc, client_sock, pu))
        }
    });
    let client = match client {
        Ok(r) => r,
        Err(p) => {
            let _ = std::fs::remove_dir_all(&dir);
            return Err(Fail::new(panic_sig(&p), format!("{} API panicked: {}", if sync_api { "sync" } else { "async" }, p)));
        }
    };
    let raw = srv_handle.join().unwrap_or_default();
    let _ = std::fs::remove_dir_all(&dir);
    let wire = raw.iter().map(|b| ber::parse_all(b).and_then(|t| model::decode_request(&t))).collect();
    Ok(RunOut { client, wire, raw })
}

pub fn check(c: &Case, obs: &mut Obs) -> Result<(), Fail> {
    let a = one_run(c, false)?;
    let s = one_run(c, true)?;
    // transcripts: same number of messages, equal after normalising SET OF order
    ensure!(a.wire.len() == s.wire.len(), "c14:wire-count", "async wrote {} messages, sync wrote {} (script {:?})", a.wire.len(), s.wire.len(), c.steps.iter().map(|s| &s.call).collect::<Vec<_>>());
    let mut multi = false;
    for (k, (x, y)) in a.wire.iter().zip(&s.wire).enumerate() {
        match (x, y) {
            (Ok(x), Ok(y)) => {
                let (xn, yn) = (ReqMsg { req: x.req.normalized(), ..x.clone() }, ReqMsg { req: y.req.normalized(), ..y.clone() });
                ensure!(xn == yn, "c14:wire-differs", "message {}: async sent {:?}, sync sent {:?}", k, x, y);
                if a.raw[k] != s.raw[k] {
                    multi = true;
                }
            }
            (x, y) => fail!("c14:wire-undecodable", "message {} undecodable: async {:?} sync {:?}", k, x.as_ref().err(), y.as_ref().err()),
        }
    }
    let _ = multi;
    match (&a.client, &s.client) {
        (Ok(x), Ok(y)) => {
            ensure!(x.len() == y.len(), "c14:result-count", "async produced {} results, sync {}", x.len(), y.len());
            for (k, (xa, ys)) in x.iter().zip(y).enumerate() {
                ensure!(xa == ys, "c14:result-differs", "step {} ({:?}): async returned {:?}, sync returned {:?}", k, c.steps.get(k).map(|s| &s.call), xa, ys);
            }
        }
        (x, y) => ensure!(x == y, "c14:connect-differs", "connection: async {:?}, sync {:?}", x, y),
    }
    for st in &c.steps {
        obs.label(format!("m:{}", format!("{:?}", st.call).split(|ch: char| !ch.is_alphanumeric()).next().unwrap_or("")));
        if let Call::Search { how, .. } = &st.call {
            obs.label(format!("m:search-{:?}", how));
        }
        if st.controls.is_some() {
            obs.label("m:with_controls");
        }
        if st.timeout {
            obs.label("m:with_timeout");
        }
        if st.search_opts.is_some() {
            obs.label("m:with_search_options");
        }
        obs.label(format!("beh:{:?}", std::mem::discriminant(&st.beh)).replace("Discriminant", ""));
    }
    obs.label(format!("ctor:{}", ["with_settings", "from_url_with_settings", "new", "from_url"][c.ctor as usize % 4]));
    if c.unbind {
        obs.label("m:unbind");
    }
    let has_mod = c.steps.iter().any(|s| s.controls.is_some() || s.timeout || s.search_opts.is_some());
    let has_stream = c.steps.iter().any(|s| matches!(s.call, Call::Search { how: How::Stream | How::StreamWith, .. }));
    if c.steps.len() >= 2 && (has_mod || has_stream) {
        obs.nontrivial(format!("{:?}", c));
    }
    Ok(())
}

pub fn property() -> Property {
    Property {
        id: "C14",
        level: "exploration",
        rule: "generated scripts of 1-7 calls (+ optional unbind) over the whole LdapConn/EntryStream surface: all four constructors (with_settings / from_url_with_settings over a pre-opened Unix socket pair, new / from_url over a real ldapi:// path), with_controls, with_timeout, with_search_options, simple_bind, sasl_external_bind, search, streaming_search, streaming_search_with(EntriesOnly) with EntryStream::next/result/last_id (read to the end or stopped early), add, compare, delete, modify (all Mod kinds), modifydn, extended, abandon, last_id, is_closed, get_peer_certificate, unbind; per call a scripted server behaviour: success (with entries and a reference), an error code, silence (with a 40 ms client timeout), a search dripping its entries at 120 ms intervals under a 500 ms timeout (no single wait near the timeout, the whole search longer than it), or disconnect (after a disconnect that the failing call observed, only the locally answered calls is_closed / get_peer_certificate / last_id follow). The script is run twice against the same server logic: through LdapConn and through Ldap on a fresh current-thread runtime. Oracle: both transcripts decode (harness RFC 4511 decoder) to the same request sequence after normalising SET OF order, with the same message ids and controls; every return value (result fields, error variant and carried LdapResult, stream items, last_id(), is_closed()) is equal. Non-trivial: >=2 calls with >=1 modifier or a stream. Distinct = debug rendering of the script.",
        assumptions: &["real time is used but never borderline: the server answers at once, or is silent and the client timeout is 40 ms in both runs; calls after a disconnect are not generated", "gssapi/ntlm methods are not compiled in the default feature set"],
        lanes: vec![Box::new(PLane { name: "scripts", cases: |t| t.pick(150, 2_000), strat, check })],
        workers: (8, 16),
    }
}
