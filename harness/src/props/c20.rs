//! C20 — LDAP URL parameters are extracted as RFC 4516 defines them.

use crate::gens;
use crate::props::c08;
use crate::runner::{guard, panic_sig, Ctx, Fail, Obs, PLane, Property};
use crate::{ensure, fail};
use ldap3::{get_url_params, LdapError, LdapUrlExt, Scope};
use proptest::collection::vec;
use proptest::prelude::*;
use serde::{Deserialize, Serialize};

#[derive(Clone, Debug, Serialize, Deserialize, PartialEq)]
pub enum ExtKind {
    Bindname,
    XBindpw,
    Credentials,
    SaslMech,
    StartTls,
    Unknown(String),
}

#[derive(Clone, Debug, Serialize, Deserialize)]
pub struct Ext {
    kind: ExtKind,
    /// spelling of the name as written in the URL (letter case varies for bindname/x-bindpw)
    name: String,
    critical: bool,
    value: Option<String>,
}

#[derive(Clone, Debug, Serialize, Deserialize)]
pub enum Inject {
    None,
    UnknownCritical(String),
    BadScope(String),
    BadUtf8Base,
    BadUtf8Filter,
    BadUtf8ExtValue,
}

#[derive(Clone, Debug, Serialize, Deserialize)]
pub struct UrlCase {
    prefix: String,
    base: String,
    attrs: Option<Vec<String>>,
    scope: Option<u8>,
    filter: Option<String>,
    exts: Vec<Ext>,
    /// how many trailing empty '?' fields to write beyond the last present component (0..=2)
    trailing: u8,
    /// per-character "may encode" choices, cycled
    enc: Vec<bool>,
    inject: Inject,
}

fn dn_string() -> BoxedStrategy<String> {
    let val_char = prop_oneof![
        5 => proptest::char::range('a', 'z'),
        3 => proptest::sample::select(&['?', ',', '=', '%', '#', '/', ' ', '+', '"', '\\', '<', '>', ';', '&', '\'', '(', ')', '*', '!', '$', ':', '@', '[', ']', '^', '`', '{', '|', '}', '~', '.', '-', '_'][..]),
        1 => proptest::char::range('\u{a0}', '\u{7ff}'),
        1 => proptest::char::range('\u{4e00}', '\u{4eff}'),
        1 => proptest::char::range('\u{1f600}', '\u{1f64f}'),
        1 => proptest::char::range('\u{1}', '\u{1f}'),
    ];
    let rdn = (gens::descr(), vec(val_char, 0..8)).prop_map(|(t, v)| {
        let v: String = v.into_iter().collect();
        // a bare "." or ".." path segment would be normalised away by any URL parser
        format!("{}={}", t, v)
    });
    prop_oneof![1 => Just(String::new()), 6 => vec(rdn, 1..4).prop_map(|r| r.join(","))].boxed()
}

fn attr_list() -> BoxedStrategy<Vec<String>> {
    let a = prop_oneof![
        4 => gens::descr(),
        1 => gens::oid(),
        1 => Just("*".to_string()),
        1 => Just("+".to_string()),
        1 => Just("1.1".to_string()),
        1 => (gens::descr(), "[a-z0-9-]{1,5}").prop_map(|(d, o)| format!("{};{}", d, o)),
    ];
    prop_oneof![4 => vec(a.clone(), 1..5), 2 => vec(a, 5..12)].boxed()
}

fn casevary(s: &'static str) -> BoxedStrategy<String> {
    vec(any::<bool>(), s.len()).prop_map(move |m| s.chars().zip(m).map(|(c, up)| if up { c.to_ascii_uppercase() } else { c }).collect()).boxed()
}

fn ext_value() -> BoxedStrategy<String> {
    let ch = prop_oneof![
        5 => proptest::char::range('a', 'z'),
        3 => proptest::sample::select(&['?', ',', '=', '%', '#', '/', ' ', '!', '+', '"', '&'][..]),
        1 => proptest::char::range('\u{a0}', '\u{7ff}'),
    ];
    vec(ch, 0..10).prop_map(|v| v.into_iter().collect()).boxed()
}

fn exts() -> BoxedStrategy<Vec<Ext>> {
    let known = vec![
        (casevary("bindname"), ExtKind::Bindname),
        (casevary("x-bindpw"), ExtKind::XBindpw),
        (Just("1.3.6.1.4.1.10094.1.5.1".to_string()).boxed(), ExtKind::Credentials),
        (Just("1.3.6.1.4.1.10094.1.5.2".to_string()).boxed(), ExtKind::SaslMech),
        (Just("1.3.6.1.4.1.1466.20037".to_string()).boxed(), ExtKind::StartTls),
    ];
    let mut parts: Vec<BoxedStrategy<Option<Ext>>> = Vec::new();
    for (name, kind) in known {
        let k2 = kind.clone();
        parts.push(
            proptest::option::weighted(0.35, (name, any::<bool>(), proptest::option::weighted(0.8, ext_value())))
                .prop_map(move |o| o.map(|(name, critical, value)| Ext { kind: k2.clone(), name, critical, value }))
                .boxed(),
        );
    }
    let unknown = vec(
        (prop_oneof![gens::descr().prop_map(|d| format!("x-{}", d)), gens::oid().prop_map(|o| format!("9.{}", o))], proptest::option::of(ext_value())),
        0..3,
    );
    (parts, unknown, any::<u64>())
        .prop_map(|(known, unknown, order)| {
            let mut v: Vec<Ext> = known.into_iter().flatten().collect();
            for (name, value) in unknown {
                v.push(Ext { kind: ExtKind::Unknown(name.clone()), name, critical: false, value });
            }
            // deterministic shuffle
            let n = v.len();
            let mut o = order;
            for i in (1..n).rev() {
                let j = (o % (i as u64 + 1)) as usize;
                o = o / (i as u64 + 1) + 0x9e37;
                v.swap(i, j);
            }
            v
        })
        .boxed()
}

fn strat(_: &Ctx) -> BoxedStrategy<UrlCase> {
    let prefix = proptest::sample::select(&["ldap://localhost/", "ldap://127.0.0.1:389/", "ldap:///", "ldaps://example.org:636/", "ldapi://%2Fvar%2Frun%2Fldapi/", "ldap://[::1]/", "LDAP://h/"][..]).prop_map(String::from);
    let filter = c08::valid_filter_string(3, 3).prop_map(|(_, s)| String::from_utf8(s).expect("rendered filters are UTF-8"));
    let inject = prop_oneof![
        12 => Just(Inject::None),
        1 => prop_oneof![gens::descr().prop_map(|d| format!("x-{}", d)), gens::oid().prop_map(|o| format!("9.{}", o))].prop_map(Inject::UnknownCritical),
        1 => proptest::sample::select(&["subtree", "onelevel", "x", "base1", "su", "0", "children", "one ", "b"][..]).prop_map(|s| Inject::BadScope(s.to_string())),
        1 => Just(Inject::BadUtf8Base),
        1 => Just(Inject::BadUtf8Filter),
        1 => Just(Inject::BadUtf8ExtValue),
    ];
    (prefix, dn_string(), proptest::option::of(attr_list()), proptest::option::of(0u8..3), proptest::option::of(filter), prop_oneof![1 => Just(vec![]), 2 => exts()], 0u8..3, vec(any::<bool>(), 1..8), inject)
        .prop_map(|(prefix, base, attrs, scope, filter, exts, trailing, enc, inject)| UrlCase { prefix, base, attrs, scope, filter, exts, trailing, enc, inject })
        .boxed()
}

struct W<'a> {
    enc: &'a [bool],
    n: usize,
    forced: usize,
}

impl<'a> W<'a> {
    fn may(&mut self) -> bool {
        let b = self.enc[self.n % self.enc.len()];
        self.n += 1;
        b
    }
    /// RFC 3986 characters that may appear raw in path/query of an LDAP URL.
    fn raw_ok(c: u8) -> bool {
        c.is_ascii_alphanumeric() || b"-._~!$&'()*+,;=:@".contains(&c)
    }
    fn put(&mut self, s: &str, also_encode: &[u8], out: &mut String) {
        for &b in s.as_bytes() {
            let must = !Self::raw_ok(b) || also_encode.contains(&b);
            if must {
                self.forced += 1;
            }
            if must || self.may() {
                out.push_str(&format!("%{:02X}", b));
            } else {
                out.push(b as char);
            }
        }
    }
}

pub fn format_url(c: &UrlCase) -> (String, usize) {
    let mut w = W { enc: &c.enc, n: 0, forced: 0 };
    let mut u = c.prefix.clone();
    // '/' is a reserved character that RFC 4516 allows raw in the dn part; written raw unless a
    // path segment would then be "." or ".." (which every URL parser normalises away)
    {
        let save = (w.n, w.forced);
        let mut b = String::new();
        w.put(&c.base, b"?\\", &mut b);
        let dotty = b.split('/').any(|seg| {
            let l = seg.to_ascii_lowercase().replace("%2e", ".");
            l == "." || l == ".."
        });
        if dotty {
            w.n = save.0;
            w.forced = save.1;
            b.clear();
            w.put(&c.base, b"?/\\", &mut b);
        }
        u.push_str(&b);
    }
    if let Inject::BadUtf8Base = c.inject {
        u.push_str("%C3%28");
    }
    let attrs = c.attrs.as_ref().map(|a| a.join(","));
    let scope = match (&c.inject, c.scope) {
        (Inject::BadScope(s), _) => Some(s.replace(' ', "%20")),
        (_, Some(0)) => Some("base".to_string()),
        (_, Some(1)) => Some("one".to_string()),
        (_, Some(_)) => Some("sub".to_string()),
        (_, None) => None,
    };
    let filter = {
        let mut f = c.filter.as_ref().map(|f| {
            let mut s = String::new();
            w.put(f, b"?", &mut s);
            s
        });
        if let Inject::BadUtf8Filter = c.inject {
            let mut s = f.unwrap_or_else(|| "(cn=".to_string() + ")");
            s.insert_str(s.len().saturating_sub(1).max(0), "%FF");
            f = Some(s);
        }
        f
    };
    let mut ext_parts: Vec<String> = Vec::new();
    for e in &c.exts {
        let mut s = String::new();
        if e.critical {
            s.push('!');
        }
        s.push_str(&e.name);
        if let Some(v) = &e.value {
            s.push('=');
            w.put(v, b"?,", &mut s);
        }
        ext_parts.push(s);
    }
    match &c.inject {
        Inject::UnknownCritical(name) => ext_parts.push(format!("!{}=v", name)),
        Inject::BadUtf8ExtValue => ext_parts.push("bindname=%E2%82".to_string()),
        _ => {}
    }
    // if BadUtf8ExtValue is injected, an existing bindname would shadow nothing: order is irrelevant, decoding fails either way
    let exts = if ext_parts.is_empty() { None } else { Some(ext_parts.join(",")) };
    let fields = [attrs, scope, filter, exts];
    let last = fields.iter().rposition(|f| f.is_some());
    let upto = match last {
        Some(l) => (l + 1 + c.trailing as usize).min(4),
        None => (c.trailing as usize).min(4),
    };
    for f in fields.iter().take(upto) {
        u.push('?');
        if let Some(s) = f {
            u.push_str(s);
        }
    }
    (u, w.forced)
}

fn ext_repr(e: &LdapUrlExt) -> (String, String) {
    match e {
        LdapUrlExt::Bindname(v) => ("Bindname".into(), v.to_string()),
        LdapUrlExt::XBindpw(v) => ("XBindpw".into(), v.to_string()),
        LdapUrlExt::Credentials(v) => ("Credentials".into(), v.to_string()),
        LdapUrlExt::SaslMech(v) => ("SaslMech".into(), v.to_string()),
        LdapUrlExt::StartTLS => ("StartTls".into(), String::new()),
        LdapUrlExt::Unknown(v) => ("Unknown".into(), v.to_string()),
    }
}

pub fn check(c: &UrlCase, obs: &mut Obs) -> Result<(), Fail> {
    let (s, forced) = format_url(c);
    let url = match url::Url::parse(&s) {
        Ok(u) => u,
        Err(e) => fail!("harness-c20-url", "harness-formatted URL {:?} does not parse: {}", s, e),
    };
    let r = match guard(|| {
        get_url_params(&url).map(|p| {
            let mut exts: Vec<(String, String)> = p.extensions.iter().map(ext_repr).collect();
            exts.sort();
            (p.base.to_string(), p.attrs.iter().map(|a| a.to_string()).collect::<Vec<_>>(), p.scope, p.filter.to_string(), exts)
        })
    }) {
        Ok(r) => r,
        Err(p) => fail!(panic_sig(&p), "get_url_params panicked on {:?}: {}", s, p),
    };
    match &c.inject {
        Inject::None => {}
        Inject::UnknownCritical(n) => {
            obs.label("error:unknown-critical");
            obs.nontrivial(&s);
            match r {
                Err(LdapError::UnrecognizedCriticalExtension(_)) => return Ok(()),
                other => fail!("c20:critical-ext-not-rejected", "unknown critical extension !{} in {:?} gave {:?}", n, s, other.map(|_| "Ok")),
            }
        }
        Inject::BadScope(w) => {
            obs.label("error:bad-scope");
            obs.nontrivial(&s);
            match r {
                Err(LdapError::InvalidScopeString(_)) => return Ok(()),
                other => fail!("c20:bad-scope-not-rejected", "scope {:?} in {:?} gave {:?}", w, s, other.map(|_| "Ok")),
            }
        }
        Inject::BadUtf8Base | Inject::BadUtf8Filter | Inject::BadUtf8ExtValue => {
            obs.label("error:bad-utf8");
            obs.nontrivial(&s);
            match r {
                Err(LdapError::DecodingUTF8) => return Ok(()),
                other => fail!("c20:bad-utf8-not-rejected", "non-UTF-8 percent sequence in {:?} gave {:?}", s, other.map(|_| "Ok")),
            }
        }
    }
    let (base, attrs, scope, filter, exts) = match r {
        Ok(v) => v,
        Err(e) => fail!("c20:valid-url-rejected", "well-formed LDAP URL {:?} rejected: {}", s, e),
    };
    ensure!(base == c.base, "c20:base", "url {:?}: base {:?}, expected {:?}", s, base, c.base);
    let want_attrs = c.attrs.clone().unwrap_or_else(|| vec!["*".to_string()]);
    ensure!(attrs == want_attrs, "c20:attrs", "url {:?}: attrs {:?}, expected {:?}", s, attrs, want_attrs);
    let want_scope = match c.scope {
        Some(0) => Scope::Base,
        Some(1) => Scope::OneLevel,
        _ => Scope::Subtree,
    };
    ensure!(scope == want_scope, "c20:scope", "url {:?}: scope {:?}, expected {:?}", s, scope, want_scope);
    let want_filter = c.filter.clone().unwrap_or_else(|| "(objectClass=*)".to_string());
    ensure!(filter == want_filter, "c20:filter", "url {:?}: filter {:?}, expected {:?}", s, filter, want_filter);
    let mut want_exts: Vec<(String, String)> = c
        .exts
        .iter()
        .filter_map(|e| {
            let v = e.value.clone().unwrap_or_default();
            match &e.kind {
                ExtKind::Bindname => Some(("Bindname".to_string(), v)),
                ExtKind::XBindpw => Some(("XBindpw".to_string(), v)),
                ExtKind::Credentials => Some(("Credentials".to_string(), v)),
                ExtKind::SaslMech => Some(("SaslMech".to_string(), v)),
                ExtKind::StartTls => Some(("StartTls".to_string(), String::new())),
                ExtKind::Unknown(_) => None,
            }
        })
        .collect();
    want_exts.sort();
    ensure!(exts == want_exts, "c20:extensions", "url {:?}: extensions {:?}, expected {:?}", s, exts, want_exts);
    let present = (!c.base.is_empty()) as usize + c.attrs.is_some() as usize + c.scope.is_some() as usize + c.filter.is_some() as usize + (!c.exts.is_empty()) as usize;
    obs.label(format!("components={}", present));
    if c.exts.iter().any(|e| matches!(e.kind, ExtKind::Unknown(_))) {
        obs.label("unknown-noncritical-ext");
    }
    if c.exts.iter().any(|e| e.critical) {
        obs.label("critical-known-ext");
    }
    if present >= 2 && forced >= 1 {
        obs.nontrivial(&s);
    }
    Ok(())
}

pub fn property() -> Property {
    Property {
        id: "C20",
        level: "exploration",
        rule: "generated (base DN of 0-3 RDNs whose values contain ? , = % # / space, controls, non-ASCII; attribute list omitted or descriptions/*/+/1.1; scope omitted/base/one/sub; filter omitted or any C08-generated filter string; extension list: each known extension at most once in any letter case, critical or not, with/without value, plus unknown non-critical ones, shuffled), formatted by a harness RFC 4516 writer that always percent-encodes what must be encoded and randomly what may be, trailing empty ?-fields present or omitted; error lane injects exactly one of: unknown critical extension, invalid scope word, non-UTF-8 percent sequence in base/filter/extension value. Oracle: get_url_params returns the same components with documented defaults, or the documented error variant. Non-trivial: >=2 components present and >=1 character that required percent-encoding, or any error-lane case. Distinct = the URL string.",
        assumptions: &[
            "url::Url (a dependency of the library and the documented argument type) parses the harness-formatted URL; base DNs never form a bare '.'/'..' path segment because '/' is always percent-encoded",
            "attribute selectors are not percent-encoded (LdapUrlParams::attrs are borrowed &str of the URL, so they cannot be decoded by design); scope words are written in lower case",
        ],
        lanes: vec![Box::new(PLane { name: "urls", cases: |t| t.pick(8_000, 200_000), strat, check })],
        workers: (8, 16),
    }
}
