//! C16 — the PagedResults adapter returns the whole result set exactly once.

use crate::ber::{self, Tlv};
use crate::filter::Filter;
use crate::gens;
use crate::model::{CritForm, Ctl, Entry, RCtl, Req, ReqMsg, Res, Resp, RespMsg};
use crate::props::{c08, c19};
use crate::respgen;
use crate::runner::{panic_sig, Ctx, Fail, Obs, PLane, Property};
use crate::sim::{self, err_kind, quiesce, Recv, SimResult};
use crate::simops;
use crate::{ensure, fail};
use ldap3::adapters::{Adapter, EntriesOnly, PagedResults};
use ldap3::controls::RawControl;
use ldap3::{DerefAliases, Scope, SearchOptions};
use proptest::collection::vec;
use proptest::prelude::*;
use serde::{Deserialize, Serialize};

pub const PAGED_OID: &str = "1.2.840.113556.1.4.319";

#[derive(Clone, Copy, Debug, PartialEq, Eq, Hash, Serialize, Deserialize)]
pub enum Chain {
    Paged,
    EntriesOnlyPaged,
    PagedEntriesOnly,
}

#[derive(Clone, Copy, Debug, PartialEq, Eq, Hash, Serialize, Deserialize)]
pub enum Kind {
    Entry,
    Reference,
    Intermediate,
}

#[derive(Clone, Debug, Serialize, Deserialize)]
pub struct Page {
    pub items: Vec<Kind>,
    /// cookie returned with this page (forced empty on the last page, non-empty otherwise)
    pub cookie: Vec<u8>,
    pub estimate: i32,
    /// other controls on the page's result, and where the paging control sits among them
    pub other: Vec<RCtl>,
    pub pos: u8,
}

#[derive(Clone, Debug, Serialize, Deserialize)]
pub struct Case {
    pub pages: Vec<Page>,
    pub fin: Res,
    pub page_size: i32,
    pub chain: Chain,
    pub base: String,
    pub scope: u8,
    pub f: Filter,
    pub fs: String,
    pub attrs: Vec<String>,
    pub opts: Option<(u8, bool, i32, i32)>,
    pub ctrls: Option<Vec<Ctl>>,
    /// caller supplies its own paging control (must be rejected)
    pub own_paging: bool,
    /// read at most this many items, then finish() (None: to the end)
    pub read: Option<u8>,
    pub sched: u64,
}

fn other_ctl() -> BoxedStrategy<RCtl> {
    (c19::ctl_oid().prop_filter("not the paging oid", |o| o != PAGED_OID), respgen::crit_form(), proptest::option::of(gens::blob(8))).prop_map(|(oid, crit, val)| RCtl { oid, crit, val }).boxed()
}

pub fn pages_strat(with_noise: bool) -> BoxedStrategy<Vec<Page>> {
    let kind = if with_noise { prop_oneof![5 => Just(Kind::Entry), 1 => Just(Kind::Reference), 1 => Just(Kind::Intermediate)].boxed() } else { Just(Kind::Entry).boxed() };
    let page = (vec(kind, 0..8), prop_oneof![3 => gens::blob(12), 1 => (proptest::sample::select(&[127u32, 128, 300][..]), any::<u8>()).prop_map(|(n, b)| vec![b; n as usize]), 1 => (gens::blob(6), 0usize..7).prop_map(|(mut a, k)| { const TAILS: [&[u8]; 7] = [&[0x04, 0x00], &[0x30, 0x00], &[0x02, 0x01, 0x00, 0x04, 0x00], &[0x00], &[0x30, 0x05, 0x02, 0x01, 0x00, 0x04, 0x00], &[0xff], &[0x80]]; a.extend_from_slice(TAILS[k]); a })], prop_oneof![2 => 0i32..=i32::MAX, 1 => 0i32..1000, 2 => proptest::sample::select(&[0i32, 1, 127, 128, 255, 256, 32767, 32768, 65535, 65536, 8388607, 8388608, 16777215, 16777216, i32::MAX - 1, i32::MAX][..])], vec(other_ctl(), 0..3), any::<u8>())
        .prop_map(|(items, cookie, estimate, other, pos)| Page { items, cookie, estimate, other, pos });
    vec(page, 1..6)
        .prop_map(|mut pages| {
            let n = pages.len();
            for (i, p) in pages.iter_mut().enumerate() {
                if i + 1 == n {
                    p.cookie.clear();
                } else if p.cookie.is_empty() {
                    p.cookie = format!("c{}", i).into_bytes();
                }
            }
            pages
        })
        .boxed()
}

fn strat(_: &Ctx) -> BoxedStrategy<Case> {
    let chain = prop_oneof![Just(Chain::Paged), Just(Chain::EntriesOnlyPaged), Just(Chain::PagedEntriesOnly)];
    let opts = proptest::option::of((0u8..4, any::<bool>(), prop_oneof![2 => 0i32..=i32::MAX, 2 => 0i32..30, 1 => proptest::sample::select(&[0i32, 1, 2, 127, 128, 1000, i32::MAX][..])], 0i32..1000));
    let ctrls = proptest::option::weighted(0.5, vec((c19::ctl_oid().prop_filter("not paging", |o| o != PAGED_OID), any::<bool>(), proptest::option::of(gens::blob(8))).prop_map(|(oid, crit, val)| Ctl { oid, crit, val }), 0..3));
    (
        (pages_strat(true), respgen::small_res(), prop_oneof![4 => 1i32..20, 4 => 1i32..=1000, 1 => proptest::sample::select(&[1i32, 127, 128, 32768, i32::MAX][..])], chain),
        (gens::text(10), 0u8..3, c08::valid_filter_string(2, 3), vec(gens::descr(), 0..4)),
        (opts, ctrls, proptest::bool::weighted(0.07), proptest::option::weighted(0.2, 0u8..10), any::<u64>()),
    )
        .prop_map(|((pages, fin, page_size, chain), (base, scope, (f, fs), attrs), (opts, ctrls, own_paging, read, sched))| Case {
            pages,
            fin,
            page_size,
            chain,
            base: format!("cn=op0,{}", base),
            scope,
            f,
            fs: String::from_utf8(fs).expect("utf8"),
            attrs,
            opts,
            ctrls,
            own_paging,
            read,
            sched,
        })
        .boxed()
}

pub fn paged_value(size: i64, cookie: &[u8]) -> Vec<u8> {
    ber::encode(&Tlv::seq(vec![Tlv::int(size), Tlv::octets(cookie.to_vec())]))
}

pub fn parse_paged_value(v: &[u8]) -> Option<(i64, Vec<u8>)> {
    let t = ber::parse_all(v).ok()?;
    let k = t.as_cons()?;
    if !t.is(0, 16) || k.len() != 2 {
        return None;
    }
    Some((ber::int_value(k[0].as_prim()?)?, k[1].as_prim()?.to_vec()))
}

fn token(p: usize, j: usize) -> String {
    format!("cn=p{}i{}", p, j)
}

pub fn page_bytes(id: i64, pi: usize, page: &Page, last_res: &Res, is_last: bool) -> Vec<u8> {
    let mut out = Vec::new();
    for (j, k) in page.items.iter().enumerate() {
        let tok = token(pi, j);
        let resp = match k {
            Kind::Entry => Resp::Entry(Entry::simple(&tok)),
            Kind::Reference => Resp::Reference(vec![tok]),
            Kind::Intermediate => Resp::Intermediate { name: None, val: Some(tok.into_bytes()) },
        };
        out.extend_from_slice(&RespMsg::new(id, resp).encode());
    }
    let pc = RCtl { oid: PAGED_OID.into(), crit: CritForm::Absent, val: Some(paged_value(page.estimate as i64, &page.cookie)) };
    let mut ctrls = page.other.clone();
    let pos = (page.pos as usize) % (ctrls.len() + 1);
    ctrls.insert(pos, pc);
    let res = if is_last { last_res.clone() } else { Res::ok("page") };
    out.extend_from_slice(&RespMsg { id, resp: Resp::result(5, res), ctrls: Some(ctrls) }.encode());
    out
}

#[derive(Debug)]
struct Seen {
    items: Vec<(u8, String)>,
    ended: bool,
    err: Option<String>,
    fin: Option<(u32, String, Vec<String>, Vec<Ctl>)>,
    start_err: Option<String>,
}

pub fn check(case: &Case, obs: &mut Obs) -> Result<(), Fail> {
    let c = case.clone();
    let out = sim::run_sim(case.sched, async move {
        let conn = sim::connect();
        let wire = conn.wire.clone();
        let c2 = c.clone();
        let srv = tokio::spawn(async move {
            let mut reqs: Vec<ReqMsg> = Vec::new();
            let mut problems: Vec<String> = Vec::new();
            loop {
                match wire.recv().await {
                    Recv::Msg(Ok(m), _, _) => {
                        if !matches!(m.req, Req::Search { .. }) {
                            continue;
                        }
                        let pi = reqs.len();
                        reqs.push(m.clone());
                        if pi >= c2.pages.len() {
                            problems.push(format!("request #{} after the final page (empty cookie) had been sent", pi));
                            // answer with a final empty page so that the client cannot loop forever
                            let pc = RCtl { oid: PAGED_OID.into(), crit: CritForm::Absent, val: Some(paged_value(0, &[])) };
                            wire.push(&RespMsg { id: m.id, resp: Resp::result(5, Res::ok("extra")), ctrls: Some(vec![pc]) }.encode());
                            continue;
                        }
                        quiesce().await;
                        wire.push(&page_bytes(m.id, pi, &c2.pages[pi], &c2.fin, pi + 1 == c2.pages.len()));
                    }
                    Recv::Msg(Err(e), _, _) => problems.push(format!("bad request: {}", e)),
                    Recv::Garbage(e) => {
                        problems.push(e);
                        break;
                    }
                    Recv::Closed => break,
                }
            }
            (reqs, problems)
        });
        let mut ldap = conn.ldap.clone();
        let cc = c.clone();
        let jh = tokio::spawn(async move {
            let mut seen = Seen { items: vec![], ended: false, err: None, fin: None, start_err: None };
            if let Some((d, t, tl, sl)) = cc.opts {
                ldap.with_search_options(
                    SearchOptions::new()
                        .deref(match d {
                            0 => DerefAliases::Never,
                            1 => DerefAliases::Searching,
                            2 => DerefAliases::Finding,
                            _ => DerefAliases::Always,
                        })
                        .typesonly(t)
                        .timelimit(tl)
                        .sizelimit(sl),
                );
            }
            let mut raw: Option<Vec<RawControl>> = cc.ctrls.as_ref().map(|v| v.iter().map(|x| RawControl { ctype: x.oid.clone(), crit: x.crit, val: x.val.clone() }).collect());
            if cc.own_paging {
                let mut v = raw.unwrap_or_default();
                let at = v.len() / 2;
                v.insert(at, ldap3::controls::PagedResults { size: 5, cookie: vec![] }.into());
                raw = Some(v);
            }
            if let Some(r) = raw {
                ldap.with_controls(r);
            }
            let scope = match cc.scope {
                0 => Scope::Base,
                1 => Scope::OneLevel,
                _ => Scope::Subtree,
            };
            let attrs: Vec<String> = cc.attrs.clone();
            let s = match cc.chain {
                Chain::Paged => ldap.streaming_search_with(PagedResults::new(cc.page_size), &cc.base, scope, &cc.fs, attrs).await,
                Chain::EntriesOnlyPaged => {
                    let ad: Vec<Box<dyn Adapter<_, _>>> = vec![Box::new(EntriesOnly::new()), Box::new(PagedResults::new(cc.page_size))];
                    ldap.streaming_search_with(ad, &cc.base, scope, &cc.fs, attrs).await
                }
                Chain::PagedEntriesOnly => {
                    let ad: Vec<Box<dyn Adapter<_, _>>> = vec![Box::new(PagedResults::new(cc.page_size)), Box::new(EntriesOnly::new())];
                    ldap.streaming_search_with(ad, &cc.base, scope, &cc.fs, attrs).await
                }
            };
            let mut s = match s {
                Ok(s) => s,
                Err(e) => {
                    seen.start_err = Some(match &e {
                        ldap3::LdapError::AdapterInit(_) => "AdapterInit".to_string(),
                        other => err_kind(other),
                    });
                    return seen;
                }
            };
            loop {
                if let Some(k) = cc.read {
                    if seen.items.len() >= k as usize {
                        break;
                    }
                }
                match s.next().await {
                    Ok(Some(re)) => seen.items.push(simops::item_token(&re)),
                    Ok(None) => {
                        seen.ended = true;
                        break;
                    }
                    Err(e) => {
                        seen.err = Some(err_kind(&e));
                        break;
                    }
                }
            }
            let r = s.finish().await;
            seen.fin = Some((r.rc, r.text.clone(), r.refs.clone(), r.ctrls.iter().map(|c| Ctl { oid: c.1.ctype.clone(), crit: c.1.crit, val: c.1.val.clone() }).collect()));
            seen
        });
        let seen = match jh.await {
            Ok(s) => Ok(s),
            Err(_) => Err(crate::runner::take_panics().into_iter().last().unwrap_or_default()),
        };
        quiesce().await;
        let sim::Conn { ldap, driver, .. } = conn;
        drop(ldap);
        let end = sim::join_driver(driver).await;
        let (reqs, problems) = srv.await.expect("server");
        (seen, reqs, problems, end)
    });
    let (seen, reqs, problems, end) = match out {
        SimResult::Done(v) => v,
        SimResult::Hang => fail!("c16:hang", "paged search never completed"),
    };
    if let sim::DriveEnd::Panic(p) = &end {
        fail!(panic_sig(p), "driver panicked: {}", p);
    }
    let seen = match seen {
        Ok(s) => s,
        Err(p) => fail!(panic_sig(&p), "paged search panicked: {}", p),
    };
    if case.own_paging {
        obs.label("caller-supplied-paging-control");
        obs.nontrivial(format!("{:?}", case.ctrls));
        ensure!(seen.start_err.as_deref() == Some("AdapterInit"), "c16:own-paging-control-accepted", "a caller-supplied paging control was not rejected at start: {:?}", seen.start_err);
        ensure!(reqs.is_empty(), "c16:own-paging-control-sent", "{} requests reached the wire although the search must be rejected when it starts", reqs.len());
        return Ok(());
    }
    ensure!(seen.start_err.is_none(), "c16:start-failed", "search start failed: {:?}", seen.start_err);
    ensure!(seen.err.is_none(), "c16:next-failed", "next() failed: {:?}", seen.err);
    ensure!(problems.is_empty(), "c16:extra-request", "{:?}", problems);
    let entries_only = case.chain != Chain::Paged;
    // expected item stream
    let mut want: Vec<(u8, String)> = Vec::new();
    let mut want_refs: Vec<String> = Vec::new();
    for (pi, p) in case.pages.iter().enumerate() {
        for (j, k) in p.items.iter().enumerate() {
            let tok = token(pi, j);
            match (k, entries_only) {
                (Kind::Entry, _) => want.push((4, tok)),
                (Kind::Reference, false) => want.push((19, tok)),
                (Kind::Intermediate, false) => want.push((25, tok)),
                (Kind::Reference, true) => want_refs.push(tok),
                (Kind::Intermediate, true) => {}
            }
        }
    }
    let (rc, _text, refs, fctrls) = seen.fin.clone().unwrap();
    if seen.ended {
        ensure!(seen.items == want, "c16:result-set", "paged search yielded {:?}; the pages hold {:?}", seen.items, want);
        ensure!(reqs.len() == case.pages.len(), "c16:request-count", "{} pages served, {} requests made", case.pages.len(), reqs.len());
        ensure!(rc == case.fin.rc, "c16:final-result", "final result code {}, last page's is {}", rc, case.fin.rc);
        ensure!(!fctrls.iter().any(|c| c.oid == PAGED_OID), "c16:final-has-paging-control", "the final result still carries the paging control");
        let want_other: Vec<Ctl> = case.pages.last().unwrap().other.iter().map(|c| c.as_ctl()).collect();
        ensure!(fctrls == want_other, "c16:final-controls", "final result controls {:?}, last page carried (besides paging) {:?}", fctrls, want_other);
        if entries_only {
            let mut w = case.fin.refs.clone().unwrap_or_default();
            w.extend(want_refs.clone());
            let (mut a, mut b) = (refs.clone(), w.clone());
            a.sort();
            b.sort();
            ensure!(a == b, "c16:refs", "referrals {:?}, expected {:?}", refs, w);
        }
    } else {
        // stopped early: a prefix of the result set, then a synthetic 'cancelled'
        ensure!(seen.items[..] == want[..seen.items.len().min(want.len())] && seen.items.len() <= want.len(), "c16:result-set", "early-finished paged search yielded {:?}; the pages start with {:?}", seen.items, &want[..seen.items.len().min(want.len())]);
        // the code finish() returns here (synthetic 88) is judged by C10's paged lane
        let _ = rc;
    }
    // request stream
    for (i, m) in reqs.iter().enumerate() {
        let Req::Search { base, scope, deref, size, time, types_only, filter, attrs } = &m.req else { fail!("c16:request", "not a search") };
        let o = case.opts.unwrap_or((0, false, 0, 0));
        let same = base == case.base.as_bytes()
            && *scope == case.scope as i64
            && *deref == o.0 as i64
            && *types_only == o.1
            && *time == o.2 as i64
            && *size == o.3 as i64
            && filter.normalized() == case.f.normalized()
            && attrs == &case.attrs.iter().map(|a| a.as_bytes().to_vec()).collect::<Vec<_>>();
        ensure!(same, if i == 0 { "c16:first-request" } else { "c16:followup-differs" }, "request #{} differs from what the caller asked for: {:?}", i, m.req);
        let ctrls = m.ctrls.clone().unwrap_or_default();
        let paging: Vec<&Ctl> = ctrls.iter().filter(|c| c.oid == PAGED_OID).collect();
        ensure!(paging.len() == 1, "c16:paging-control-count", "request #{} carries {} paging controls", i, paging.len());
        let (sz, ck) = paging[0].val.as_ref().and_then(|v| parse_paged_value(v)).ok_or_else(|| Fail::new("c16:paging-control-value", "unparsable paging control value"))?;
        ensure!(sz == case.page_size as i64, "c16:page-size", "request #{} asks for page size {}, caller asked {}", i, sz, case.page_size);
        let want_cookie: &[u8] = if i == 0 { &[] } else { &case.pages[i - 1].cookie };
        ensure!(ck == want_cookie, "c16:cookie", "request #{} carries cookie {}, the server last returned {}", i, ber::hex(&ck), ber::hex(want_cookie));
        let others: Vec<Ctl> = ctrls.iter().filter(|c| c.oid != PAGED_OID).cloned().collect();
        let want_others = case.ctrls.clone().unwrap_or_default();
        ensure!(others == want_others, if i == 0 { "c16:first-request-controls" } else { "c16:followup-controls" }, "request #{} carries other controls {:?}, caller set {:?}", i, others, want_others);
    }
    obs.label(format!("chain:{:?}", case.chain));
    obs.label(format!("pages={}", case.pages.len().min(5)));
    if case.pages.first().map(|p| p.items.is_empty()).unwrap_or(false) && case.pages.len() > 1 {
        obs.label("empty-first-page");
    }
    if !seen.ended {
        obs.label("early-finish");
    }
    if case.pages.len() >= 2 {
        obs.nontrivial(format!("{:?}", case));
    }
    Ok(())
}

pub fn property() -> Property {
    Property {
        id: "C16",
        level: "exploration",
        rule: "generated: a server pagination of 1-5 pages with 0-7 items each (entries; references/intermediates interleaved), arbitrary non-empty binary cookies (empty on the last page), size estimates, other result controls around the paging control at a generated position, a final result with any code; requested page size 1-1000; chain [Paged], [EntriesOnly, Paged] or [Paged, EntriesOnly]; base/scope/C08 filter/attributes/search options/0-2 other request controls; optionally a caller-supplied paging control; optionally an early finish after k items. Oracle: yielded items = concatenation of all pages in order, each once; request 0 carries the paging control (requested size, empty cookie); each follow-up repeats base, scope, filter, attributes, options and other controls with the cookie the server last returned; no request after the empty cookie (the scripted server counts); final result = last page's code without the paging control but with its other controls; caller-supplied paging control => Err(AdapterInit) and nothing on the wire; early finish => prefix of the result set. Non-trivial: >=2 pages (or the rejection case). Distinct = debug rendering of the case.",
        assumptions: &["intermediate pages report success; only the last page carries the generated final code", "the early-finish result code (88) is judged under C10"],
        lanes: vec![Box::new(PLane { name: "paged", cases: |t| t.pick(1_500, 20_000), strat, check })],
        workers: (8, 16),
    }
}
