//! C06 — message framing does not depend on how the byte stream is segmented.

use crate::ber::{self, Tlv};
use crate::conv::from_lib;
use crate::model::{Entry, Ctl, Resp, RespMsg};
use crate::respgen;
use crate::runner::{guard, panic_sig, pick_idx, Ctx, Fail, Obs, PLane, Property};
use crate::sim::{self, quiesce, Recv, SimResult};
use crate::{ensure, fail};
use bytes::BytesMut;
use ldap3::Scope;
use proptest::collection::vec;
use proptest::prelude::*;
use serde::{Deserialize, Serialize};

#[derive(Clone, Debug, Serialize, Deserialize)]
pub enum Partition {
    Whole,
    Bytes,
    /// cut points as fractions of the stream length
    Cuts(Vec<u16>),
    /// every 2-chunk split and every prefix (only run when the stream is short)
    Exhaustive,
}

#[derive(Clone, Debug, Serialize, Deserialize)]
pub struct Case {
    pub msgs: Vec<RespMsg>,
    pub forms: Vec<u8>,
    pub part: Partition,
}

fn strat(_: &Ctx) -> BoxedStrategy<Case> {
    let part = prop_oneof![1 => Just(Partition::Whole), 2 => Just(Partition::Bytes), 4 => vec(any::<u16>(), 1..12).prop_map(Partition::Cuts), 3 => Just(Partition::Exhaustive)];
    (vec(respgen::any_msg(true), 1..=6), crate::gens::forms(), part).prop_map(|(msgs, forms, part)| Case { msgs, forms, part }).boxed()
}

type Delivered = (i32, Tlv, Vec<Ctl>);

fn model_of(m: &RespMsg) -> Delivered {
    (m.id as i32, m.resp.to_tlv(), m.ctrls.as_ref().map(|v| v.iter().map(|c| c.as_ctl()).collect()).unwrap_or_default())
}

/// Feed chunks the way `Framed` does: append, then decode until `Ok(None)`.
/// After every chunk, check the no-early-delivery / no-over-consumption invariants.
fn feed(chunks: &[&[u8]], ends: &[usize], want: &[Delivered]) -> Result<(), Fail> {
    let mut buf = BytesMut::new();
    let mut fed = 0usize;
    let mut got = 0usize;
    for ch in chunks {
        buf.extend_from_slice(ch);
        fed += ch.len();
        loop {
            let r = match guard(|| ldap3::verif::verif_decode(&mut buf)) {
                Ok(r) => r,
                Err(p) => fail!(panic_sig(&p), "decoder panicked on a well-formed stream: {}", p),
            };
            match r {
                Ok(Some((id, (tag, ctrls)))) => {
                    ensure!(got < want.len(), "c06:extra-message", "decoder produced more messages than were sent");
                    ensure!(ends[got] <= fed, "c06:early-delivery", "message {} surfaced after {} bytes but its last byte is at offset {}", got, fed, ends[got]);
                    let op = match tag {
                        lber::structures::Tag::StructureTag(st) => from_lib(&st),
                        _ => None,
                    };
                    let cs: Vec<Ctl> = ctrls.iter().map(|c| Ctl { oid: c.1.ctype.clone(), crit: c.1.crit, val: c.1.val.clone() }).collect();
                    ensure!(id == want[got].0 && op.as_ref() == Some(&want[got].1) && cs == want[got].2, "c06:wrong-message", "message {} delivered differently from what was sent (id {} vs {})", got, id, want[got].0);
                    got += 1;
                    // bytes that belong to the next message must still be in the buffer
                    ensure!(buf.len() == fed - ends[got - 1], "c06:over-consumption", "after message {} the buffer holds {} bytes, expected {}", got - 1, buf.len(), fed - ends[got - 1]);
                }
                Ok(None) => break,
                Err(e) => fail!("c06:error-on-valid-stream", "decoder failed on a well-formed stream after {} bytes: {}", fed, e),
            }
        }
        let complete = ends.iter().filter(|e| **e <= fed).count();
        ensure!(got == complete, "c06:late-delivery", "after {} bytes {} messages are complete but {} were delivered", fed, complete, got);
    }
    ensure!(got == want.len(), "c06:lost-message", "{} of {} messages delivered", got, want.len());
    Ok(())
}

pub fn check(c: &Case, obs: &mut Obs) -> Result<(), Fail> {
    let mut stream = Vec::new();
    let mut ends = Vec::new();
    let mut header_zones: Vec<(usize, usize)> = Vec::new();
    for m in &c.msgs {
        let b = m.encode_forms(&c.forms);
        let hl = ber::header(&b).ok().flatten().map(|h| h.0).unwrap_or(2);
        header_zones.push((stream.len(), stream.len() + hl));
        stream.extend_from_slice(&b);
        ends.push(stream.len());
    }
    let want: Vec<Delivered> = c.msgs.iter().map(model_of).collect();
    let n = stream.len();
    let in_header = |cut: usize| header_zones.iter().any(|(a, b)| cut > *a && cut < *b);
    let mut split_in_header = false;
    let mut multi_in_chunk = false;
    match &c.part {
        Partition::Whole => {
            feed(&[&stream[..]], &ends, &want)?;
            multi_in_chunk = c.msgs.len() >= 2;
        }
        Partition::Bytes => {
            if n <= 20_000 {
                let chunks: Vec<&[u8]> = stream.chunks(1).collect();
                feed(&chunks, &ends, &want)?;
                split_in_header = true;
            } else {
                // 1-byte feeding of a huge stream is quadratic in BytesMut clones; use small odd chunks
                let chunks: Vec<&[u8]> = stream.chunks(997).collect();
                feed(&chunks, &ends, &want)?;
            }
        }
        Partition::Cuts(cuts) => {
            let mut pts: Vec<usize> = cuts.iter().map(|c| pick_idx(*c, n + 1)).collect();
            // bias some cuts into header zones
            for (i, p) in pts.iter_mut().enumerate() {
                if i % 2 == 0 {
                    let z = header_zones[*p % header_zones.len()];
                    *p = (z.0 + 1 + (*p % (z.1 - z.0).max(1))).min(n);
                }
            }
            pts.sort();
            pts.dedup();
            let mut chunks: Vec<&[u8]> = Vec::new();
            let mut last = 0;
            for p in pts {
                if p > last && p < n {
                    chunks.push(&stream[last..p]);
                    split_in_header |= in_header(p);
                    last = p;
                }
            }
            chunks.push(&stream[last..]);
            for ch in &chunks {
                let s = ch.as_ptr() as usize - stream.as_ptr() as usize;
                let e = s + ch.len();
                let full = ends.iter().enumerate().filter(|(i, en)| **en <= e && (if *i == 0 { 0 } else { ends[i - 1] }) >= s).count();
                if full >= 2 && !ends.contains(&e) {
                    multi_in_chunk = true;
                }
            }
            feed(&chunks, &ends, &want)?;
        }
        Partition::Exhaustive => {
            if n <= 600 {
                for cut in 0..=n {
                    feed(&[&stream[..cut], &stream[cut..]], &ends, &want)?;
                    // every proper prefix alone: nothing beyond the complete messages, buffer untouched
                    let complete = ends.iter().filter(|e| **e <= cut).count();
                    feed_prefix(&stream[..cut], &ends, &want[..complete])?;
                }
                obs.evals(2 * n as u64);
                obs.label("exhaustive-2-splits");
                split_in_header = true;
            } else {
                feed(&[&stream[..n / 2], &stream[n / 2..]], &ends, &want)?;
            }
        }
    }
    if n > 8192 {
        obs.label("stream>8KiB");
    }
    if n > 65536 {
        obs.label("stream>64KiB");
    }
    if split_in_header {
        obs.label("split-in-header");
    }
    if multi_in_chunk {
        obs.label("multi+partial-in-chunk");
    }
    if split_in_header || multi_in_chunk {
        obs.nontrivial((ber::hex(&stream[..n.min(64)]), n, format!("{:?}", c.part)));
    }
    Ok(())
}

fn feed_prefix(prefix: &[u8], ends: &[usize], want: &[Delivered]) -> Result<(), Fail> {
    let mut buf = BytesMut::from(prefix);
    let mut got = 0;
    loop {
        match guard(|| ldap3::verif::verif_decode(&mut buf)) {
            Err(p) => fail!(panic_sig(&p), "decoder panicked on a prefix of a well-formed stream: {}", p),
            Ok(Ok(Some(_))) => {
                ensure!(got < want.len(), "c06:early-delivery", "a message surfaced from a {}-byte prefix before its last byte (complete messages: {})", prefix.len(), want.len());
                got += 1;
            }
            Ok(Ok(None)) => break,
            Ok(Err(e)) => fail!("c06:error-on-valid-stream", "decoder failed on a prefix of a well-formed stream: {}", e),
        }
    }
    ensure!(got == want.len(), "c06:late-delivery", "{} complete messages in the prefix, {} delivered", want.len(), got);
    let _ = ends;
    Ok(())
}


// ---------------------------------------------------------------- huge lane: a message of 1-3 MiB inside a stream

#[derive(Clone, Debug, Serialize, Deserialize)]
pub struct HugeCase {
    pub size: u32,
    pub lead: Vec<RespMsg>,
    pub trail: Vec<RespMsg>,
    /// where (as a fraction of the huge message) the first read ends; 0 = its first byte starts a read
    pub first_cut: u16,
    /// how many bytes of what follows the huge message arrive in the same read as its last byte
    pub tail_take: u16,
    pub forms: Vec<u8>,
}

fn huge_strat(_: &Ctx) -> BoxedStrategy<HugeCase> {
    let size = prop_oneof![3 => 1_048_000u32..1_100_000, 2 => 1_100_000u32..3_200_000, 1 => proptest::sample::select(&[1_048_575u32, 1_048_576, 1_048_577, 2_097_152, 16_777_216, 16_777_217][..])];
    (size, vec(respgen::any_msg(false), 0..3), vec(respgen::any_msg(false), 1..4), any::<u16>(), prop_oneof![1 => Just(0u16), 1 => Just(u16::MAX), 3 => any::<u16>()], crate::gens::forms())
        .prop_map(|(size, lead, trail, first_cut, tail_take, forms)| HugeCase { size, lead, trail, first_cut, tail_take, forms })
        .boxed()
}

pub fn check_huge(c: &HugeCase, obs: &mut Obs) -> Result<(), Fail> {
    let huge = RespMsg::new(77, Resp::Entry(Entry { dn: "cn=huge".into(), attrs: vec![("blob".into(), vec![vec![0x5a; c.size as usize]])] }));
    let mut msgs: Vec<&RespMsg> = c.lead.iter().collect();
    msgs.push(&huge);
    msgs.extend(c.trail.iter());
    let mut stream = Vec::new();
    let mut ends = Vec::new();
    let (mut hs, mut he) = (0, 0);
    for (i, m) in msgs.iter().enumerate() {
        let b = if i == c.lead.len() { m.encode() } else { m.encode_forms(&c.forms) };
        if i == c.lead.len() {
            hs = stream.len();
            he = hs + b.len();
        }
        stream.extend_from_slice(&b);
        ends.push(stream.len());
    }
    let want: Vec<Delivered> = msgs.iter().map(|m| model_of(m)).collect();
    let n = stream.len();
    let c1 = hs + pick_idx(c.first_cut, he - hs);
    let c2 = he + pick_idx(c.tail_take, n - he + 1);
    let mut chunks: Vec<&[u8]> = Vec::new();
    if c1 > 0 {
        chunks.push(&stream[..c1]);
    }
    chunks.push(&stream[c1..c2]);
    if c2 < n {
        chunks.push(&stream[c2..]);
    }
    feed(&chunks, &ends, &want)?;
    obs.label(if c2 == he { "read-ends-with-huge-message" } else if ends.contains(&c2) { "huge+whole-followers-in-one-read" } else { "huge+partial-follower-in-one-read" });
    if c.size > 16_777_215 {
        obs.label("4-octet-length");
    }
    if c2 > he {
        obs.nontrivial((c.size, c1 - hs, c2 - he, c.lead.len(), c.trail.len()));
    }
    Ok(())
}

// ---------------------------------------------------------------- e2e lane: one search, entries of many sizes, scripted read plan

#[derive(Clone, Debug, Serialize, Deserialize)]
pub struct E2eCase {
    pub sizes: Vec<u32>,
    pub chunks: Vec<usize>,
    pub yields: Vec<bool>,
    pub batch: Vec<bool>,
    pub sched: u64,
    /// this many minimal entries (no attributes) follow the sized ones in the same write as the final result;
    /// with unlimited reads behind a large entry that has grown the read buffer they all sit in the buffer at once
    #[serde(default)]
    pub burst: u16,
}

fn e2e_strat(_: &Ctx) -> BoxedStrategy<E2eCase> {
    let size = prop_oneof![6 => 0u32..300, 1 => proptest::sample::select(&[8_100u32, 8_192, 8_300, 16_384, 65_500, 65_536, 70_000][..])];
    let chunk = prop_oneof![3 => 1usize..10, 2 => 10usize..5000, 1 => Just(0usize), 1 => Just(8192usize)];
    (vec(size, 1..8), prop_oneof![Just(vec![1usize]), vec(chunk, 1..6)], vec(any::<bool>(), 1..4), vec(any::<bool>(), 1..4), any::<u64>(), prop_oneof![12 => Just(0u16), 1 => 1000u16..3000])
        .prop_map(|(mut sizes, mut chunks, yields, mut batch, sched, burst)| {
            if burst > 0 {
                sizes.insert(0, 150_000);
                chunks = vec![0];
                batch = vec![true];
            }
            E2eCase { sizes, chunks, yields, batch, sched, burst }
        })
        .boxed()
}

pub fn check_e2e(c: &E2eCase, obs: &mut Obs) -> Result<(), Fail> {
    let cc = c.clone();
    let out = sim::run_sim(c.sched, async move {
        let conn = sim::connect();
        conn.wire.with(|w| {
            w.read_chunks = cc.chunks.clone();
            w.yield_after_chunk = cc.yields.clone();
        });
        let wire = conn.wire.clone();
        let c2 = cc.clone();
        let srv = tokio::spawn(async move {
            if let Recv::Msg(Ok(m), _, _) = wire.recv().await {
                quiesce().await;
                let mut pending = Vec::new();
                for (i, s) in c2.sizes.iter().enumerate() {
                    let e = Entry { dn: format!("cn=e{}", i), attrs: vec![("a".into(), vec![vec![(i as u8).wrapping_add(65); *s as usize]])] };
                    pending.extend_from_slice(&RespMsg::new(m.id, Resp::Entry(e)).encode());
                    if !c2.batch[i % c2.batch.len()] {
                        wire.push(&pending);
                        pending.clear();
                        quiesce().await;
                    }
                }
                for k in 0..c2.burst {
                    pending.extend_from_slice(&RespMsg::new(m.id, Resp::Entry(Entry { dn: format!("cn=b{}", k), attrs: vec![] })).encode());
                }
                pending.extend_from_slice(&RespMsg::new(m.id, Resp::result(5, crate::model::Res::ok("done"))).encode());
                wire.push(&pending);
            }
        });
        let mut ldap = conn.ldap.clone();
        let mut seen: Vec<(String, usize, u8)> = Vec::new();
        let mut err = None;
        match ldap.streaming_search("dc=x", Scope::Subtree, "(a=*)", vec!["a"]).await {
            Ok(mut s) => {
                loop {
                    match s.next().await {
                        Ok(Some(re)) => {
                            let t = from_lib(&re.0);
                            let dn = t.as_ref().and_then(|t| t.as_cons()).and_then(|k| k.first()).and_then(|d| d.as_prim()).map(|d| String::from_utf8_lossy(d).into_owned()).unwrap_or_default();
                            let val = t.as_ref().and_then(|t| t.as_cons()).and_then(|k| k.get(1)).and_then(|a| a.as_cons()).and_then(|a| a.first()).and_then(|pa| pa.as_cons()).and_then(|pa| pa.get(1)).and_then(|vs| vs.as_cons()).and_then(|vs| vs.first()).and_then(|v| v.as_prim()).map(|v| (v.len(), v.first().copied().unwrap_or(0), v.iter().all(|b| Some(*b) == v.first().copied())));
                            match val {
                                Some((l, b, true)) => seen.push((dn, l, b)),
                                _ => seen.push((dn, usize::MAX, 0)),
                            }
                        }
                        Ok(None) => break,
                        Err(e) => {
                            err = Some(sim::err_kind(&e));
                            break;
                        }
                    }
                }
                let r = s.finish().await;
                if err.is_none() && r.text != "done" {
                    err = Some(format!("final result text {:?}", r.text));
                }
            }
            Err(e) => err = Some(sim::err_kind(&e)),
        }
        let _ = srv.await;
        (seen, err)
    });
    let (seen, err) = match out {
        SimResult::Done(v) => v,
        SimResult::Hang => fail!("c06:e2e-hang", "search over a segmented stream never completed"),
    };
    ensure!(err.is_none(), "c06:e2e-error", "search failed: {:?}", err);
    let mut want: Vec<(String, usize, u8)> = c.sizes.iter().enumerate().map(|(i, s)| (format!("cn=e{}", i), *s as usize, if *s == 0 { 0 } else { (i as u8).wrapping_add(65) })).collect();
    want.extend((0..c.burst).map(|k| (format!("cn=b{}", k), usize::MAX, 0)));
    if c.burst > 0 {
        obs.label("burst>=1000-messages-in-one-buffer");
    }
    ensure!(seen == want, "c06:e2e-entries", "{} entries delivered, {} sent; first difference at {:?}", seen.len(), want.len(), seen.iter().zip(want.iter()).position(|(a, b)| a != b));
    if c.sizes.iter().any(|s| *s > 8192) {
        obs.label("entry>8KiB");
    }
    if c.chunks.iter().any(|c| *c > 0 && *c < 10) {
        obs.label("tiny-reads");
        obs.nontrivial((&c.sizes, &c.chunks));
    }
    Ok(())
}

/// Fuzz entry: bytes -> (messages, partition) -> the decoder-lane oracle.
pub fn fuzz_entry(data: &[u8], obs: &mut Obs) -> Result<(), Fail> {
    let mut it = data.iter().copied();
    let mut next = || it.next().unwrap_or(0);
    let n = (next() % 4 + 1) as usize;
    let mut msgs = Vec::new();
    for _ in 0..n {
        let kind = next();
        let id = next() as i64 | ((next() as i64 & 0x7f) << 8);
        let tl = (next() % 24) as usize;
        let text: String = (0..tl).map(|_| (b'a' + next() % 26) as char).collect();
        let resp = match kind % 4 {
            0 => Resp::result([1u8, 5, 7, 9, 11, 13, 15, 24][(kind as usize / 4) % 8], crate::model::Res { rc: next() as u32, matched: String::new(), text, refs: if kind & 0x80 != 0 { Some(vec!["ldap://x/".into()]) } else { None } }),
            1 => Resp::Entry(Entry { dn: text, attrs: vec![("a".into(), vec![vec![kind; (next() as usize) * 3]])] }),
            2 => Resp::Reference(vec![text]),
            _ => Resp::Intermediate { name: None, val: Some(text.into_bytes()) },
        };
        let ctrls = if kind & 0x40 != 0 { Some(vec![crate::model::RCtl { oid: "1.2.3".into(), crit: crate::model::CritForm::True, val: Some(vec![next()]) }]) } else { None };
        msgs.push(RespMsg { id, resp, ctrls });
    }
    let forms: Vec<u8> = (0..(next() % 4)).map(|_| next() % 6).collect();
    let cuts: Vec<u16> = (0..(next() % 10)).map(|_| (next() as u16) << 8 | next() as u16).collect();
    let part = if cuts.is_empty() { Partition::Bytes } else { Partition::Cuts(cuts) };
    check(&Case { msgs, forms, part }, obs)
}

// ------------------------------------------------------------------ coverage-guided lane (libFuzzer)

fn fuzz_spec() -> crate::fuzzlane::FuzzSpec {
    crate::fuzzlane::FuzzSpec { target: "framing", oracle: fuzz_entry, seeds: crate::fuzzlane::seeds_framing, max_len: 256, runs_per_worker: 500000 }
}

fn fuzz_run(ctx: &Ctx, known: &[crate::runner::KnownFinding]) -> crate::runner::LaneReport {
    crate::fuzzlane::run(&fuzz_spec(), ctx, known)
}

fn fuzz_replay(v: serde_json::Value) -> Result<(), Fail> {
    crate::fuzzlane::replay(&fuzz_spec(), v)
}

pub fn property() -> Property {
    Property {
        id: "C06",
        level: "exploration",
        rule: "lanes: decoder (1-6 well-formed response messages of all kinds, 7 B .. 200 KiB, generated BER length forms, concatenated; partitions: whole, 1-byte, generated cut points biased into tag/length headers, and - for streams <= 600 bytes - EVERY 2-chunk split and EVERY prefix) fed to the frame decoder exactly as Framed does; huge (a 1-16 MiB entry between 0-2 leading and 1-3 trailing messages, the read that brings its last byte also bringing 0..all bytes of the followers) (append, decode until 'need more'); oracle: delivered (id, op, controls) sequence equals the model, a message never surfaces before its last byte, after each delivery exactly the following bytes remain; e2e (one streaming search with 1-7 entries of 0..70 000 bytes through the scripted transport with generated read sizes, forced yields and batching; sometimes followed by a burst of 1000-3000 minimal entries that all sit in the (grown) read buffer at once). Non-trivial: a split inside a tag/length header, or a chunk holding >=2 messages plus a partial one (decoder); reads smaller than 10 bytes (e2e). Distinct = hash of stream prefix, length and partition.",
        assumptions: &["Framed's contract (append then decode until None) is emulated by the harness; the e2e lane uses the real Framed inside the driver"],
        lanes: vec![
            Box::new(PLane { name: "decoder", cases: |t| t.pick(500, 10_000), strat, check }),
            Box::new(PLane { name: "e2e", cases: |t| t.pick(300, 5_000), strat: e2e_strat, check: check_e2e }),
            Box::new(PLane { name: "huge", cases: |t| t.pick(12, 300), strat: huge_strat, check: check_huge }),
            Box::new(crate::runner::FnLane { name: "fuzz", run: fuzz_run, replay: fuzz_replay }),
        ],
        workers: (8, 16),
    }
}
