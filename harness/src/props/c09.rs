//! C09 — escaped text is inert: escaping then parsing returns the original value.

use crate::dn;
use crate::filter::{self, Filter};
use crate::props::c08::{lib_compile, show};
use crate::runner::{eval_case, guard, panic_sig, Ctx, Fail, FnLane, KnownFinding, LaneReport, Obs, PLane, Property, Tier};
use crate::{ensure, fail};
use proptest::collection::vec;
use proptest::prelude::*;
use serde::{Deserialize, Serialize};
use serde_json::Value;

#[derive(Clone, Debug, Serialize, Deserialize)]
pub struct StrCase {
    v: String,
}

fn alphabet() -> BoxedStrategy<char> {
    prop_oneof![
        6 => proptest::sample::select(&['\\', '*', '(', ')', '\0', ' ', '#', '"', '+', ',', ';', '<', '=', '>', '/', ':', '&', '|', '!', '~'][..]),
        4 => proptest::char::range('\u{0}', '\u{7f}'),
        3 => proptest::char::range('a', 'z'),
        1 => proptest::char::range('\u{80}', '\u{7ff}'),
        1 => proptest::char::range('\u{800}', '\u{d7ff}'),
        1 => proptest::char::range('\u{10000}', '\u{10ffff}'),
    ]
    .boxed()
}

fn str_strat(_: &Ctx) -> BoxedStrategy<StrCase> {
    vec(alphabet(), 0..25).prop_map(|v| StrCase { v: v.into_iter().collect() }).boxed()
}

fn filter_needs_escape(b: u8) -> bool {
    matches!(b, 0 | b'\\' | b'*' | b'(' | b')')
}

fn dn_conservative_clean(v: &str) -> bool {
    let b = v.as_bytes();
    !b.iter().any(|c| matches!(c, b'"' | b'+' | b',' | b';' | b'<' | b'=' | b'>' | b'\\' | 0)) && b.first() != Some(&b' ') && b.first() != Some(&b'#') && b.last() != Some(&b' ')
}

fn dn_must_escape_somewhere(v: &str) -> bool {
    let b = v.as_bytes();
    b.iter().any(|c| matches!(c, b'"' | b'+' | b',' | b';' | b'<' | b'>' | b'\\' | 0)) || b.first() == Some(&b' ') || b.first() == Some(&b'#') || b.last() == Some(&b' ')
}

pub fn check_string(v: &str, obs: &mut Obs) -> Result<(), Fail> {
    // ------------------------------------------------------------ filter side
    let esc = match guard(|| ldap3::ldap_escape(v).into_owned()) {
        Ok(e) => e,
        Err(p) => fail!(panic_sig(&p), "ldap_escape panicked on {:?}: {}", v, p),
    };
    // the functions take anything that converts into a Cow<str>: an owned String must be escaped like a &str
    for (form, got) in [
        ("String", guard(|| ldap3::ldap_escape(v.to_string()).into_owned())),
        ("Cow::Owned", guard(|| ldap3::ldap_escape(std::borrow::Cow::<str>::Owned(v.to_string())).into_owned())),
        ("Cow::Borrowed", guard(|| ldap3::ldap_escape(std::borrow::Cow::Borrowed(v)).into_owned())),
    ] {
        match got {
            Ok(g) => ensure!(g == esc, "c09:filter-escape-argument-form", "ldap_escape({:?}) gives {:?} for a &str but {:?} for a {}", v, esc, g, form),
            Err(p) => fail!(panic_sig(&p), "ldap_escape panicked on {:?} passed as {}: {}", v, form, p),
        }
    }
    let vb = v.as_bytes().to_vec();
    let a = b"a".to_vec();
    let mut templates: Vec<(String, Filter)> = vec![
        (format!("(a={})", esc), Filter::Eq(a.clone(), vb.clone())),
        (format!("(a>={})", esc), Filter::Ge(a.clone(), vb.clone())),
        (format!("(a<={})", esc), Filter::Le(a.clone(), vb.clone())),
        (format!("(a~={})", esc), Filter::Approx(a.clone(), vb.clone())),
        (format!("(a:caseExactMatch:={})", esc), Filter::Ext { rule: Some(b"caseExactMatch".to_vec()), attr: Some(a.clone()), val: vb.clone(), dn: false }),
        (format!("(&(x=1)(a={}))", esc), Filter::And(vec![Filter::Eq(b"x".to_vec(), b"1".to_vec()), Filter::Eq(a.clone(), vb.clone())])),
        (format!("(!(a={}))", esc), Filter::Not(Box::new(Filter::Eq(a.clone(), vb.clone())))),
        (format!("a={}", esc), Filter::Eq(a.clone(), vb.clone())),
    ];
    if !v.is_empty() {
        templates.push((format!("(a={}*)", esc), Filter::Sub { attr: a.clone(), initial: Some(vb.clone()), any: vec![], fin: None }));
        templates.push((format!("(a=*{}*)", esc), Filter::Sub { attr: a.clone(), initial: None, any: vec![vb.clone()], fin: None }));
        templates.push((format!("(a=*{})", esc), Filter::Sub { attr: a.clone(), initial: None, any: vec![], fin: Some(vb.clone()) }));
        templates.push((format!("(a=x*{}*y)", esc), Filter::Sub { attr: a.clone(), initial: Some(b"x".to_vec()), any: vec![vb.clone()], fin: Some(b"y".to_vec()) }));
    }
    for (s, expect) in &templates {
        // judged by an RFC 4515 reader that shares nothing with the library ...
        match filter::strict_parse(s.as_bytes()) {
            Some(f) if &f == expect => {}
            other => fail!("c09:filter-escape-not-inert", "ldap_escape({:?}) = {:?}; an RFC 4515 reader sees {:?} as {:?}, expected {:?}", v, esc, show(s.as_bytes()), other, expect),
        }
        // ... and by the library's own compiler (decoded by the harness)
        match lib_compile(s.as_bytes())? {
            Some(f) if &f == expect => {}
            other => fail!("c09:filter-escape-lib-roundtrip", "ldap_escape({:?}) = {:?}; parse_filter({:?}) gives {:?}, expected {:?}", v, esc, show(s.as_bytes()), other, expect),
        }
    }
    match guard(|| ldap3::ldap_unescape(esc.clone()).map(|c| c.into_owned())) {
        Err(p) => fail!(panic_sig(&p), "ldap_unescape panicked on {:?}: {}", esc, p),
        Ok(Err(e)) => fail!("c09:unescape-roundtrip", "ldap_unescape(ldap_escape({:?})) failed: {}", v, e),
        Ok(Ok(back)) => ensure!(back == v, "c09:unescape-roundtrip", "ldap_unescape(ldap_escape({:?})) = {:?}", v, back),
    }
    let f_needs = v.bytes().any(filter_needs_escape);
    if !f_needs {
        ensure!(esc == v, "c09:filter-identity", "{:?} needs no filter escaping but came back as {:?}", v, esc);
    }

    // ------------------------------------------------------------ DN side
    let desc = match guard(|| ldap3::dn_escape(v).into_owned()) {
        Ok(e) => e,
        Err(p) => fail!(panic_sig(&p), "dn_escape panicked on {:?}: {}", v, p),
    };
    for (form, got) in [("String", guard(|| ldap3::dn_escape(v.to_string()).into_owned())), ("Cow::Owned", guard(|| ldap3::dn_escape(std::borrow::Cow::<str>::Owned(v.to_string())).into_owned()))] {
        match got {
            Ok(g) => ensure!(g == desc, "c09:dn-escape-argument-form", "dn_escape({:?}) gives {:?} for a &str but {:?} for a {}", v, desc, g, form),
            Err(p) => fail!(panic_sig(&p), "dn_escape panicked on {:?} passed as {}: {}", v, form, p),
        }
    }
    let shapes: Vec<(String, Vec<Vec<(&str, Option<usize>)>>)> = vec![
        (format!("cn={}", desc), vec![vec![("cn", Some(0))]]),
        (format!("cn={},dc=example,dc=org", desc), vec![vec![("cn", Some(0))], vec![("dc", None)], vec![("dc", None)]]),
        (format!("ou=x,cn={}", desc), vec![vec![("ou", None)], vec![("cn", Some(0))]]),
        (format!("cn={}+sn=y", desc), vec![vec![("cn", Some(0)), ("sn", None)]]),
        (format!("sn=y+cn={},o=z", desc), vec![vec![("sn", None), ("cn", Some(0))], vec![("o", None)]]),
    ];
    for (s, shape) in &shapes {
        let parsed = match dn::parse_dn(s.as_bytes()) {
            Ok(p) => p,
            Err(e) => fail!("c09:dn-escape-not-inert", "dn_escape({:?}) = {:?}; RFC 4514 reader rejects {:?}: {}", v, desc, s, e),
        };
        let same_shape = parsed.len() == shape.len() && parsed.iter().zip(shape).all(|(r, sr)| r.len() == sr.len() && r.iter().zip(sr).all(|(a, (t, _))| a.typ == *t));
        ensure!(same_shape, "c09:dn-escape-not-inert", "dn_escape({:?}) = {:?}; {:?} is read with a different RDN structure: {:?}", v, desc, s, parsed);
        for (r, sr) in parsed.iter().zip(shape) {
            for (a, (_, which)) in r.iter().zip(sr) {
                if which.is_some() {
                    ensure!(!a.hexstring && a.value == v.as_bytes(), "c09:dn-escape-not-inert", "dn_escape({:?}) = {:?}; value read back from {:?} is {:?} (hexstring={})", v, desc, s, String::from_utf8_lossy(&a.value), a.hexstring);
                }
            }
        }
    }
    if dn_conservative_clean(v) {
        ensure!(desc == v, "c09:dn-identity", "{:?} needs no DN escaping but came back as {:?}", v, desc);
    }
    let d_needs = dn_must_escape_somewhere(v);
    if f_needs {
        obs.label("filter-escape-needed");
    }
    if d_needs {
        obs.label("dn-escape-needed");
    }
    if v.starts_with(' ') || v.starts_with('#') || v.ends_with(' ') {
        obs.label("dn-edge-position");
    }
    if !v.is_ascii() {
        obs.label("non-ascii");
    }
    if f_needs || d_needs {
        obs.nontrivial(v);
    }
    Ok(())
}

fn check_case(c: &StrCase, obs: &mut Obs) -> Result<(), Fail> {
    check_string(&c.v, obs)
}

fn exhaustive_run(ctx: &Ctx, known: &[KnownFinding]) -> LaneReport {
    let mut rep = LaneReport::new("short-ascii");
    rep.exhaustive = true;
    let maxlen = ctx.tier.pick(2usize, 3usize);
    // partition the enumeration across workers by index
    let mut idx: u64 = 0;
    let mut cur: Vec<u8> = Vec::new();
    fn rec(cur: &mut Vec<u8>, maxlen: usize, idx: &mut u64, ctx: &Ctx, rep: &mut LaneReport, known: &[KnownFinding]) {
        if *idx % ctx.workers as u64 == ctx.worker as u64 {
            let s = String::from_utf8(cur.clone()).unwrap();
            let case = StrCase { v: s.clone() };
            eval_case(rep, known, &case, |obs| check_string(&s, obs));
        }
        *idx += 1;
        if cur.len() == maxlen {
            return;
        }
        for b in 0u8..128 {
            cur.push(b);
            rec(cur, maxlen, idx, ctx, rep, known);
            cur.pop();
        }
    }
    rec(&mut cur, maxlen, &mut idx, ctx, &mut rep, known);
    rep
}

fn exhaustive_replay(v: Value) -> Result<(), Fail> {
    let c: StrCase = serde_json::from_value(v).map_err(|e| Fail::new("replay-format", e.to_string()))?;
    check_string(&c.v, &mut Obs::default())
}

// ------------------------------------------------------------------ coverage-guided lane (libFuzzer)

fn fuzz_spec() -> crate::fuzzlane::FuzzSpec {
    crate::fuzzlane::FuzzSpec { target: "escape", oracle: |d, o| match std::str::from_utf8(d) { Ok(s) if s.len() <= 64 => check_string(s, o), _ => Ok(()) }, seeds: crate::fuzzlane::seeds_strings, max_len: 64, runs_per_worker: 1500000 }
}

fn fuzz_run(ctx: &Ctx, known: &[crate::runner::KnownFinding]) -> crate::runner::LaneReport {
    crate::fuzzlane::run(&fuzz_spec(), ctx, known)
}

fn fuzz_replay(v: serde_json::Value) -> Result<(), Fail> {
    crate::fuzzlane::replay(&fuzz_spec(), v)
}

pub fn property() -> Property {
    let _ = Tier::Quick;
    Property {
        id: "C09",
        level: "exploration",
        rule: "lanes: strings (Unicode strings of 0-24 chars over a biased alphabet: all ASCII incl. NUL, filter/DN metacharacters, space, '#', multi-byte scalars); short-ascii (EXHAUSTIVE: every ASCII string of length <=2, thorough <=3). Oracle per string v: 12 filter templates with ldap_escape(v) read by an independent strict RFC 4515 reader and by parse_filter+harness BER decoder must have the template's structure and value bytes == v; ldap_unescape(ldap_escape(v))==v; 5 DN templates with dn_escape(v) read by a strict RFC 4514 reader must keep the RDN structure and give value == v; strings needing no escaping come back unchanged; owned String / Cow arguments are escaped exactly like a &str. Non-trivial: v contains >=1 character that must be escaped (filter or DN, incl. leading space/'#', trailing space). Distinct = the string.",
        assumptions: &["strict RFC 4514 reader (src/dn.rs) and strict RFC 4515 reader (src/filter.rs), both unit-tested on the RFC examples", "'=' escaped by dn_escape although RFC 4514 allows it raw is accepted (round trip still holds)"],
        lanes: vec![
            Box::new(PLane { name: "strings", cases: |t| t.pick(4_000, 100_000), strat: str_strat, check: check_case }),
            Box::new(FnLane { name: "short-ascii", run: exhaustive_run, replay: exhaustive_replay }),
            Box::new(crate::runner::FnLane { name: "fuzz", run: fuzz_run, replay: fuzz_replay }),
        ],
        workers: (8, 16),
    }
}
