//! C12 — timeouts fire on time, keep the connection usable and orphan the late reply.

use crate::model::{Entry, Res, Resp, RespMsg};
use crate::runner::{panic_sig, Ctx, Fail, Obs, PLane, Property};
use crate::sim::{self, err_kind, quiesce, Recv, SimResult};
use crate::simops::{self, Single};
use crate::{ensure, fail};
use ldap3::adapters::EntriesOnly;
use ldap3::Scope;
use proptest::collection::vec;
use proptest::prelude::*;
use serde::{Deserialize, Serialize};
use std::collections::HashMap;
use std::sync::{Arc, Mutex};
use std::time::Duration;
use tokio::time::Instant;

#[derive(Clone, Debug, Serialize, Deserialize)]
pub enum Kind {
    Single(Single),
    /// gaps (ms) before each item and before the final result; adapted = EntriesOnly
    Search { gaps: Vec<Option<u64>>, adapted: bool },
}

#[derive(Clone, Debug, Serialize, Deserialize)]
pub struct Op {
    pub kind: Kind,
    pub start_ms: u64,
    pub timeout_ms: Option<u64>,
    /// single ops: response delay in ms (None = never)
    pub arrival_ms: Option<u64>,
}

#[derive(Clone, Debug, Serialize, Deserialize)]
pub struct Case {
    pub ops: Vec<Op>,
    pub sched: u64,
}

fn timeout_val() -> BoxedStrategy<u64> {
    prop_oneof![4 => 5u64..200, 2 => 200u64..5000, 1 => proptest::sample::select(&[3u64, 1000, 60_000, 3_600_000, 86_400_000][..])].boxed()
}

/// a delay relative to timeout T that is clearly before (<= T-2) or clearly after (>= T+2), or never
fn rel_delay(t: u64) -> BoxedStrategy<Option<u64>> {
    let before = (0u64..=t.saturating_sub(2).max(0)).prop_map(Some);
    let after = (t + 2..t + 2 + (t / 2 + 20)).prop_map(Some);
    prop_oneof![4 => before, 3 => after, 1 => Just(None)].boxed()
}

fn op_strat() -> BoxedStrategy<Op> {
    let timed_single = (simops::single_strat(), 0u64..300, timeout_val()).prop_flat_map(|(k, start_ms, t)| rel_delay(t).prop_map(move |a| Op { kind: Kind::Single(k), start_ms, timeout_ms: Some(t), arrival_ms: a }));
    let untimed_single = (simops::single_strat(), 0u64..300, 0u64..3000).prop_map(|(k, start_ms, a)| Op { kind: Kind::Single(k), start_ms, timeout_ms: None, arrival_ms: Some(a) });
    let timed_search = (0u64..300, timeout_val(), any::<bool>(), 0usize..5).prop_flat_map(|(start_ms, t, adapted, n)| {
        vec(prop_oneof![6 => (0u64..=t.saturating_sub(2)).prop_map(Some), 1 => (t + 2..t + 50).prop_map(Some), 1 => Just(None)], n + 1).prop_map(move |gaps| Op { kind: Kind::Search { gaps, adapted }, start_ms, timeout_ms: Some(t), arrival_ms: None })
    });
    let untimed_search = (0u64..300, any::<bool>(), vec((0u64..400).prop_map(Some), 1..5)).prop_map(|(start_ms, adapted, gaps)| Op { kind: Kind::Search { gaps, adapted }, start_ms, timeout_ms: None, arrival_ms: None });
    prop_oneof![4 => timed_single, 2 => untimed_single, 3 => timed_search, 1 => untimed_search].boxed()
}

fn strat(_: &Ctx) -> BoxedStrategy<Case> {
    (vec(op_strat(), 1..=8), any::<u64>()).prop_map(|(ops, sched)| Case { ops, sched }).boxed()
}

#[derive(Debug, Clone, Default)]
struct OpObs {
    id: i32,
    tokens: Vec<String>,
    end: String,
    t_end_ms: u64,
    /// for searches: (relative ms, outcome) of every next()
    calls: Vec<(u64, String)>,
}

fn tok(i: usize, s: usize) -> String {
    format!("t{}-{}", i, s)
}

pub fn check(case: &Case, obs: &mut Obs) -> Result<(), Fail> {
    let c = case.clone();
    let out = sim::run_sim(case.sched, async move {
        let conn = sim::connect();
        let t0 = Instant::now();
        let wire = conn.wire.clone();
        let c2 = c.clone();
        let problems: Arc<Mutex<Vec<String>>> = Arc::new(Mutex::new(vec![]));
        let pr = problems.clone();
        let wire_ids: Arc<Mutex<HashMap<usize, i64>>> = Arc::new(Mutex::new(HashMap::new()));
        let wi = wire_ids.clone();
        let srv = tokio::spawn(async move {
            loop {
                match wire.recv().await {
                    Recv::Msg(Ok(m), _, _) => {
                        let Some(i) = simops::marker_index(&m) else {
                            pr.lock().unwrap().push(format!("unmarked request {}", m.req.kind()));
                            continue;
                        };
                        wi.lock().unwrap().insert(i, m.id);
                        if i >= c2.ops.len() {
                            // the reuse probe: answered at once
                            if let Some(tag) = m.req.response_tag() {
                                wire.push(&RespMsg::new(m.id, Resp::result(tag, Res::ok(&tok(i, 0)))).encode());
                            }
                            continue;
                        }
                        let op = c2.ops[i].clone();
                        let w2 = wire.clone();
                        tokio::spawn(async move {
                            match &op.kind {
                                Kind::Single(k) => {
                                    if let Some(a) = op.arrival_ms {
                                        tokio::time::sleep(Duration::from_millis(a)).await;
                                        w2.push(&RespMsg::new(m.id, Resp::result(k.resp_tag(), Res::ok(&tok(i, 0)))).encode());
                                    }
                                }
                                Kind::Search { gaps, .. } => {
                                    for (s, g) in gaps.iter().enumerate() {
                                        let Some(g) = g else { return };
                                        tokio::time::sleep(Duration::from_millis(*g)).await;
                                        let resp = if s + 1 == gaps.len() { Resp::result(5, Res::ok(&tok(i, s))) } else { Resp::Entry(Entry::simple(&tok(i, s))) };
                                        w2.push(&RespMsg::new(m.id, resp).encode());
                                    }
                                }
                            }
                        });
                    }
                    Recv::Msg(Err(e), _, _) => pr.lock().unwrap().push(e),
                    Recv::Garbage(e) => {
                        pr.lock().unwrap().push(e);
                        break;
                    }
                    Recv::Closed => break,
                }
            }
        });
        let mut tasks = Vec::new();
        for (i, op) in c.ops.iter().cloned().enumerate() {
            let mut ldap = conn.ldap.clone();
            tasks.push(tokio::spawn(async move {
                tokio::time::sleep(Duration::from_millis(op.start_ms)).await;
                let mk = simops::marker(i);
                let mut o = OpObs::default();
                let started = Instant::now();
                if let Some(t) = op.timeout_ms {
                    ldap.with_timeout(Duration::from_millis(t));
                }
                match &op.kind {
                    Kind::Single(k) => {
                        let r = simops::exec_single(&mut ldap, *k, &mk).await;
                        o.id = ldap.last_id();
                        match r {
                            Ok(res) => {
                                o.tokens.push(res.text);
                                o.end = "ok".into();
                            }
                            Err(e) => o.end = err_kind(&e),
                        }
                    }
                    Kind::Search { adapted, .. } => {
                        let s = if *adapted { ldap.streaming_search_with(EntriesOnly::new(), &mk, Scope::Subtree, "(a=b)", vec!["a"]).await } else { ldap.streaming_search(&mk, Scope::Subtree, "(a=b)", vec!["a"]).await };
                        match s {
                            Ok(mut s) => {
                                o.id = s.ldap_handle().last_id();
                                loop {
                                    let r = s.next().await;
                                    let at = started.elapsed().as_millis() as u64;
                                    match r {
                                        Ok(Some(re)) => {
                                            o.tokens.push(simops::item_token(&re).1);
                                            o.calls.push((at, "item".into()));
                                        }
                                        Ok(None) => {
                                            o.calls.push((at, "end".into()));
                                            o.end = "ok".into();
                                            break;
                                        }
                                        Err(e) => {
                                            o.calls.push((at, err_kind(&e)));
                                            o.end = err_kind(&e);
                                            break;
                                        }
                                    }
                                }
                                let fin = s.finish().await;
                                if o.end == "ok" {
                                    o.tokens.push(fin.text);
                                }
                            }
                            Err(e) => o.end = format!("start:{}", err_kind(&e)),
                        }
                    }
                }
                o.t_end_ms = started.elapsed().as_millis() as u64;
                o
            }));
        }
        let mut observed = Vec::new();
        for t in tasks {
            match t.await {
                Ok(o) => observed.push(Ok(o)),
                Err(_) => observed.push(Err(crate::runner::take_panics().into_iter().last().unwrap_or_default())),
            }
        }
        // let every scripted late reply arrive and be discarded
        tokio::time::sleep(Duration::from_secs(200_000)).await;
        quiesce().await;
        let in_use: Vec<i32> = {
            let m = conn.msgmap.lock().unwrap();
            let mut v: Vec<i32> = m.1.iter().copied().collect();
            v.sort();
            v
        };
        // reusability: position the counter just below each timed-out id and allocate
        let mut reuse = Vec::new();
        let mut reuse_ops: Vec<(i32, i32, String)> = Vec::new();
        {
            let mut probe = conn.ldap.clone();
            for o in observed.iter().flatten() {
                if o.end == "Timeout" && o.id > 1 {
                    conn.msgmap.lock().unwrap().0 = o.id - 1;
                    let got = probe.verif_next_msgid();
                    reuse.push((o.id, got));
                    conn.msgmap.lock().unwrap().1.remove(&got);
                    // ... and an operation that is handed the id again must work like any other
                    conn.msgmap.lock().unwrap().0 = o.id - 1;
                    let idx = c.ops.len() + reuse_ops.len();
                    let r = tokio::time::timeout(Duration::from_secs(3600), probe.delete(&simops::marker(idx))).await;
                    reuse_ops.push((o.id, probe.last_id(), match r {
                        Err(_) => "hang".to_string(),
                        Ok(Ok(res)) => if res.text == tok(idx, 0) { "ok".to_string() } else { format!("wrong-response:{}", res.text) },
                        Ok(Err(e)) => err_kind(&e),
                    }));
                }
            }
        }
        let _ = t0;
        let ids = wire_ids.lock().unwrap().clone();
        let sim::Conn { ldap, driver, .. } = conn;
        drop(ldap);
        let end = sim::join_driver(driver).await;
        srv.abort();
        let _ = srv.await;
        let p = problems.lock().unwrap().clone();
        (observed, in_use, reuse, ids, end, p, reuse_ops)
    });
    let (observed, in_use, reuse, ids, end, problems, reuse_ops) = match out {
        SimResult::Done(v) => v,
        SimResult::Hang => fail!("c12:hang", "history never completed: some operation neither received its response nor timed out"),
    };
    if let sim::DriveEnd::Panic(p) = &end {
        fail!(panic_sig(p), "driver panicked: {}", p);
    }
    ensure!(matches!(end, sim::DriveEnd::Ok), "c12:connection-lost", "the connection did not survive the timeouts: driver ended with {:?}", end);
    ensure!(problems.is_empty(), "c12:server-problem", "{:?}", problems);
    let mut any_timeout = false;
    let mut overlapped = false;
    let mut late_reply = false;
    for (i, (op, o)) in case.ops.iter().zip(&observed).enumerate() {
        let o = match o {
            Ok(o) => o,
            Err(p) => fail!(panic_sig(p), "operation {} panicked: {}", i, p),
        };
        ensure!(ids.get(&i).copied() == Some(o.id as i64), "c12:id", "operation {} reports id {} but was sent under {:?}", i, o.id, ids.get(&i));
        match &op.kind {
            Kind::Single(_) => {
                let (want_end, want_at, want_tokens): (&str, u64, Vec<String>) = match (op.timeout_ms, op.arrival_ms) {
                    (Some(t), Some(a)) if a < t => ("ok", a, vec![tok(i, 0)]),
                    (Some(t), _) => ("Timeout", t, vec![]),
                    (None, Some(a)) => ("ok", a, vec![tok(i, 0)]),
                    (None, None) => unreachable!(),
                };
                if want_end == "Timeout" {
                    any_timeout = true;
                    if op.arrival_ms.is_some() {
                        late_reply = true;
                    }
                }
                ensure!(o.end == want_end, if want_end == "Timeout" { "c12:no-timeout" } else { "c12:spurious-timeout-or-error" }, "operation {} (timeout {:?} ms, response after {:?} ms) ended with {:?}, expected {:?}", i, op.timeout_ms, op.arrival_ms, o.end, want_end);
                ensure!(o.t_end_ms >= want_at && o.t_end_ms <= want_at + 1, "c12:wrong-instant", "operation {} (timeout {:?} ms, response after {:?} ms) completed {} ms after its start, expected {} ms", i, op.timeout_ms, op.arrival_ms, o.t_end_ms, want_at);
                ensure!(o.tokens == want_tokens, "c12:wrong-response", "operation {} observed {:?}, expected {:?}", i, o.tokens, want_tokens);
            }
            Kind::Search { gaps, adapted: _ } => {
                // walk the gaps: every next() is issued when the previous item was delivered
                let mut now = 0u64;
                let mut want_tokens = Vec::new();
                let mut want_calls: Vec<(u64, &str)> = Vec::new();
                let mut want_end = "ok";
                for (s, g) in gaps.iter().enumerate() {
                    let fires = match (op.timeout_ms, g) {
                        (Some(t), Some(g)) => *g > t,
                        (Some(_), None) => true,
                        (None, _) => false,
                    };
                    if fires {
                        now += op.timeout_ms.unwrap();
                        want_calls.push((now, "Timeout"));
                        want_end = "Timeout";
                        any_timeout = true;
                        if g.is_some() {
                            late_reply = true;
                        }
                        break;
                    }
                    now += g.unwrap();
                    want_tokens.push(tok(i, s));
                    want_calls.push((now, if s + 1 == gaps.len() { "end" } else { "item" }));
                }
                ensure!(o.end == want_end, if want_end == "Timeout" { "c12:no-timeout" } else { "c12:spurious-timeout-or-error" }, "search {} (timeout {:?} ms, gaps {:?}) ended with {:?}, expected {:?}; next() log {:?}", i, op.timeout_ms, gaps, o.end, want_end, o.calls);
                ensure!(o.calls.len() == want_calls.len() && o.calls.iter().zip(&want_calls).all(|(g, w)| g.1 == w.1 && g.0 >= w.0 && g.0 <= w.0 + 1), "c12:wrong-instant", "search {} (timeout {:?} ms, gaps {:?}): next() log {:?}, expected {:?} - the timer must restart with every received item", i, op.timeout_ms, gaps, o.calls, want_calls);
                ensure!(o.tokens == want_tokens, "c12:wrong-response", "search {} observed {:?}, expected {:?}", i, o.tokens, want_tokens);
                if op.timeout_ms.map(|t| now > t).unwrap_or(false) && want_end == "ok" {
                    obs.label("search-longer-than-timeout-but-no-gap-exceeds-it");
                }
            }
        }
    }
    ensure!(in_use.is_empty(), "c12:id-not-released", "after all operations ended and all late replies were discarded, ids {:?} are still reserved", in_use);
    for (id, got) in &reuse {
        ensure!(id == got, "c12:id-not-reusable", "timed-out id {} is not handed out again (allocator returned {})", id, got);
    }
    for (id, used, outcome) in &reuse_ops {
        ensure!(id == used && outcome == "ok", "c12:reused-id-does-not-work", "an operation that was handed the timed-out id {} again (it travelled under {}) ended with {:?}", id, used, outcome);
    }
    // overlap: a timed-out op while another op was outstanding that later completed
    let spans: Vec<(u64, u64, bool)> = case.ops.iter().zip(&observed).map(|(op, o)| { let o = o.as_ref().unwrap(); (op.start_ms, op.start_ms + o.t_end_ms, o.end == "Timeout") }).collect();
    for (i, a) in spans.iter().enumerate() {
        for (j, b) in spans.iter().enumerate() {
            if i != j && a.2 && !b.2 && b.0 < a.1 && b.1 > a.1 {
                overlapped = true;
            }
        }
    }
    if any_timeout {
        obs.label("timeout");
    }
    if late_reply {
        obs.label("late-reply");
    }
    if overlapped {
        obs.label("timeout-while-other-outstanding");
    }
    if overlapped || late_reply {
        obs.nontrivial(format!("{:?}", case.ops));
    }
    Ok(())
}

pub fn property() -> Property {
    Property {
        id: "C12",
        level: "exploration",
        rule: "generated histories of 1-8 concurrent operations on cloned handles over the paused virtual clock: single-result operations and direct/EntriesOnly searches, each optionally timed (3 ms .. 1 day), started at generated instants; scripted response arrival clearly before the deadline (<= T-2 ms), clearly after it (late reply, >= T+2 ms) or never; searches with per-item gaps below or above the timeout. Oracle (exact to Tokio's 1 ms timer granularity): a timed operation returns Timeout at start+T if nothing arrived, else its own response at the arrival instant; a search's deadline restarts at every next() call, so it times out at the first gap > T and not otherwise however long the whole search takes; every other operation completes with its own tokens; late replies are seen by nobody; the driver survives; at quiescence no id is reserved and each timed-out id is handed out again by the allocator and works for the operation that gets it. Non-trivial: an operation times out while another is outstanding and later completes, or a late reply is scripted. Distinct = debug rendering of the operations.",
        assumptions: &["no ties: |arrival - deadline| >= 2 ms", "tokio paused clock: virtual time advances only when every task is idle"],
        lanes: vec![Box::new(PLane { name: "timeouts", cases: |t| t.pick(2_000, 30_000), strat, check })],
        workers: (8, 16),
    }
}
