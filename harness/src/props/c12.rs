//! C12 — timeouts fire on time, keep the connection usable and orphan the late reply.

use crate::model::{Entry, Res, Resp, RespMsg};
use crate::runner::{panic_sig, Ctx, Fail, Obs, PLane, Property};
use crate::sim::{self, err_kind, quiesce, Recv, SimResult};
use crate::simops::{self, Single};
use crate::{ensure, fail};
use crate::ber::{self, Tlv};
use crate::model::{CritForm, RCtl};
use ldap3::adapters::{Adapter, EntriesOnly, PagedResults};
use ldap3::Scope;
use proptest::collection::vec;
use proptest::prelude::*;
use serde::{Deserialize, Serialize};
use std::collections::HashMap;
use std::sync::{Arc, Mutex};
use std::time::Duration;
use tokio::time::Instant;

#[derive(Clone, Debug, Serialize, Deserialize)]
pub enum Kind {
    Single(Single),
    /// gaps (ms) before each item and before the final result; adapted = EntriesOnly
    Search {
        gaps: Vec<Option<u64>>,
        adapted: bool,
        /// Some = driven through the PagedResults adapter; the listed (non-final) steps are page ends
        /// (a SearchResultDone carrying a cookie, answered by a follow-up request under a new id)
        #[serde(default)]
        paged: Option<Vec<usize>>,
        /// 1 = through the search() convenience call (not paged); 2 = the stream is dropped after a timeout
        /// without finish() - the timed-out id must become reusable all the same; 3 = the timeout is not set with
        /// with_timeout() but by a user adapter inside its start() (not paged)
        #[serde(default)]
        mode: u8,
    },
}

#[derive(Clone, Debug, Serialize, Deserialize)]
pub struct Op {
    pub kind: Kind,
    pub start_ms: u64,
    pub timeout_ms: Option<u64>,
    /// single ops: response delay in ms (None = never)
    pub arrival_ms: Option<u64>,
    /// run on the same handle as the previous operation, `start_ms` after that one completed
    #[serde(default)]
    pub chained: bool,
}

#[derive(Clone, Debug, Serialize, Deserialize)]
pub struct Case {
    pub ops: Vec<Op>,
    pub sched: u64,
}

fn timeout_val() -> BoxedStrategy<u64> {
    prop_oneof![8 => 5u64..200, 4 => 200u64..5000, 2 => proptest::sample::select(&[3u64, 1000, 60_000, 3_600_000, 86_400_000][..]), 1 => proptest::sample::select(&[u64::MAX, u64::MAX - 1, u64::MAX - 2, u64::MAX - 3, 1u64 << 53, (1u64 << 32) * 1000][..])].boxed()
}

/// practically infinite timeouts (the three largest codes stand for Durations that milliseconds in a u64 cannot express)
const HUGE: u64 = 100_000_000;

fn dur(t: u64) -> Duration {
    match t {
        u64::MAX => Duration::MAX,
        x if x == u64::MAX - 1 => Duration::from_secs(u64::MAX),
        x if x == u64::MAX - 2 => Duration::from_secs(18_446_744_073_709_553),
        _ => Duration::from_millis(t),
    }
}

/// a delay relative to timeout T that is clearly before (<= T-2) or clearly after (>= T+2), or never
fn rel_delay(t: u64) -> BoxedStrategy<Option<u64>> {
    if t >= HUGE {
        // nothing can come after such a deadline: the response always arrives before it
        return (0u64..3000).prop_map(Some).boxed();
    }
    let before = (0u64..=t.saturating_sub(2).max(0)).prop_map(Some);
    let after = (t + 2..t + 2 + (t / 2 + 20)).prop_map(Some);
    prop_oneof![4 => before, 3 => after, 1 => Just(None)].boxed()
}

fn op_strat() -> BoxedStrategy<Op> {
    let timed_single = (simops::single_strat(), 0u64..300, timeout_val()).prop_flat_map(|(k, start_ms, t)| rel_delay(t).prop_map(move |a| Op { kind: Kind::Single(k), start_ms, timeout_ms: Some(t), arrival_ms: a, chained: false }));
    let untimed_single = (simops::single_strat(), 0u64..300, 0u64..3000).prop_map(|(k, start_ms, a)| Op { kind: Kind::Single(k), start_ms, timeout_ms: None, arrival_ms: Some(a), chained: false });
    fn page_ends(n: usize) -> BoxedStrategy<Option<Vec<usize>>> {
        // n = number of non-final steps
        prop_oneof![3 => Just(None), 2 => vec(any::<bool>(), n).prop_map(|m| Some(m.iter().enumerate().filter(|(_, b)| **b).map(|(i, _)| i).collect::<Vec<usize>>()))].boxed()
    }
    let timed_search = (0u64..300, timeout_val(), any::<bool>(), 0usize..6).prop_flat_map(|(start_ms, t, adapted, n)| {
        let gap = if t >= HUGE { (0u64..400).prop_map(Some).boxed() } else { prop_oneof![6 => (0u64..=t.saturating_sub(2)).prop_map(Some), 1 => (t + 2..t + 50).prop_map(Some), 1 => Just(None)].boxed() };
        (vec(gap, n + 1), page_ends(n))
            .prop_map(move |(gaps, paged)| Op { kind: Kind::Search { gaps, adapted, paged, mode: 0 }, start_ms, timeout_ms: Some(t), arrival_ms: None, chained: false })
    });
    let untimed_search = (0u64..300, any::<bool>(), (1usize..5).prop_flat_map(|n| (vec((0u64..400).prop_map(Some), n), page_ends(n - 1))))
        .prop_map(|(start_ms, adapted, (gaps, paged))| Op { kind: Kind::Search { gaps, adapted, paged, mode: 0 }, start_ms, timeout_ms: None, arrival_ms: None, chained: false });
    // a zero timeout ("for all timeout values"): the deadline is the instant of the call, so the response - which cannot
    // arrive at that instant or before - is always late (2-25 ms) or never comes; the call must fail with Timeout at once
    let zero_single = (simops::single_strat(), 0u64..300, prop_oneof![3 => (2u64..25).prop_map(Some), 1 => Just(None)]).prop_map(|(k, start_ms, a)| Op { kind: Kind::Single(k), start_ms, timeout_ms: Some(0), arrival_ms: a, chained: false });
    prop_oneof![16 => timed_single, 8 => untimed_single, 12 => timed_search, 4 => untimed_search, 3 => zero_single].boxed()
}

fn strat(_: &Ctx) -> BoxedStrategy<Case> {
    (vec((op_strat(), proptest::bool::weighted(0.4), prop_oneof![3 => Just(0u8), 1 => Just(1u8), 1 => Just(2u8), 1 => Just(3u8)]), 1..=8), any::<u64>())
        .prop_map(|(ops, sched)| Case {
            ops: ops
                .into_iter()
                .enumerate()
                .map(|(i, (mut o, ch, md))| {
                    o.chained = ch && i > 0;
                    if let Kind::Search { paged, mode, .. } = &mut o.kind {
                        *mode = if (md == 1 || md == 3) && paged.is_some() { 0 } else { md };
                    }
                    o
                })
                .collect(),
            sched,
        })
        .boxed()
}

#[derive(Debug, Clone, Default)]
struct OpObs {
    id: i32,
    tokens: Vec<String>,
    end: String,
    t_end_ms: u64,
    /// absolute start instant (ms since the connection was made)
    t_start_ms: u64,
    /// for searches: (relative ms, outcome) of every next()
    calls: Vec<(u64, String)>,
}

fn tok(i: usize, s: usize) -> String {
    format!("t{}-{}", i, s)
}


/// A user adapter that sets the search's timeout from inside its start() (documented as the one place where
/// mutating the stream's Ldap handle affects the running operation).
#[derive(Clone, Debug)]
pub struct SetTimeout(pub Duration);
impl ldap3::adapters::SoloMarker for SetTimeout {}

#[async_trait::async_trait]
impl<'a> Adapter<'a, &'a str, Vec<&'a str>> for SetTimeout {
    async fn start(&mut self, stream: &mut ldap3::SearchStream<'a, &'a str, Vec<&'a str>>, base: &str, scope: Scope, filter: &str, attrs: Vec<&'a str>) -> ldap3::result::Result<()> {
        stream.ldap_handle().with_timeout(self.0);
        stream.start(base, scope, filter, attrs).await
    }
    async fn next(&mut self, stream: &mut ldap3::SearchStream<'a, &'a str, Vec<&'a str>>) -> ldap3::result::Result<Option<ldap3::ResultEntry>> {
        stream.next().await
    }
    async fn finish(&mut self, stream: &mut ldap3::SearchStream<'a, &'a str, Vec<&'a str>>) -> ldap3::LdapResult {
        stream.finish().await
    }
}

async fn run_op(ldap: &mut ldap3::Ldap, i: usize, op: &Op, t0: Instant) -> OpObs {
    let mk = simops::marker(i);
    let mut o = OpObs::default();
    let started = Instant::now();
    o.t_start_ms = (started - t0).as_millis() as u64;
    let via_adapter = matches!(&op.kind, Kind::Search { mode: 3, .. }) && op.timeout_ms.is_some();
    if let (Some(t), false) = (op.timeout_ms, via_adapter) {
        ldap.with_timeout(dur(t));
    }
    match &op.kind {
        Kind::Single(k) => {
            let r = simops::exec_single(ldap, *k, &mk).await;
            o.id = ldap.last_id();
            match r {
                Ok(res) => {
                    o.tokens.push(res.text);
                    o.end = "ok".into();
                }
                Err(e) => o.end = err_kind(&e),
            }
        }
        Kind::Search { mode: 1, .. } => {
            let r = ldap.search(&mk, Scope::Subtree, "(a=b)", vec!["a"]).await;
            o.id = ldap.last_id();
            let at = started.elapsed().as_millis() as u64;
            match r {
                Ok(ldap3::SearchResult(entries, res)) => {
                    for e in entries {
                        o.tokens.push(simops::item_token(&e).1);
                    }
                    o.tokens.push(res.text);
                    o.calls.push((at, "end".into()));
                    o.end = "ok".into();
                }
                Err(e) => {
                    o.calls.push((at, err_kind(&e)));
                    o.end = err_kind(&e);
                }
            }
        }
        Kind::Search { adapted, paged, mode, .. } => {
            let attrs = vec!["a"];
            let s = if via_adapter {
                let t = SetTimeout(dur(op.timeout_ms.unwrap()));
                if *adapted {
                    let ad: Vec<Box<dyn Adapter<_, _>>> = vec![Box::new(t), Box::new(EntriesOnly::new())];
                    ldap.streaming_search_with(ad, &mk, Scope::Subtree, "(a=b)", attrs).await
                } else {
                    ldap.streaming_search_with(t, &mk, Scope::Subtree, "(a=b)", attrs).await
                }
            } else {
            match (paged.is_some(), *adapted) {
                (false, true) => ldap.streaming_search_with(EntriesOnly::new(), &mk, Scope::Subtree, "(a=b)", attrs).await,
                (false, false) => ldap.streaming_search(&mk, Scope::Subtree, "(a=b)", attrs).await,
                (true, false) => ldap.streaming_search_with(PagedResults::new(7), &mk, Scope::Subtree, "(a=b)", attrs).await,
                (true, true) => {
                    let ad: Vec<Box<dyn Adapter<_, _>>> = vec![Box::new(EntriesOnly::new()), Box::new(PagedResults::new(7))];
                    ldap.streaming_search_with(ad, &mk, Scope::Subtree, "(a=b)", attrs).await
                }
            }
            };
            match s {
                Ok(mut s) => {
                    loop {
                        let r = s.next().await;
                        let at = started.elapsed().as_millis() as u64;
                        match r {
                            Ok(Some(re)) => {
                                o.tokens.push(simops::item_token(&re).1);
                                o.calls.push((at, "item".into()));
                            }
                            Ok(None) => {
                                o.calls.push((at, "end".into()));
                                o.end = "ok".into();
                                break;
                            }
                            Err(e) => {
                                o.calls.push((at, err_kind(&e)));
                                o.end = err_kind(&e);
                                break;
                            }
                        }
                    }
                    // the id of the request that was outstanding last (the current page)
                    o.id = s.ldap_handle().last_id();
                    if *mode == 2 && o.end == "Timeout" {
                        drop(s);
                    } else {
                        let fin = s.finish().await;
                        if o.end == "ok" {
                            o.tokens.push(fin.text);
                        }
                    }
                }
                Err(e) => o.end = format!("start:{}", err_kind(&e)),
            }
        }
    }
    o.t_end_ms = started.elapsed().as_millis() as u64;
    o
}

pub fn check(case: &Case, obs: &mut Obs) -> Result<(), Fail> {
    let c = case.clone();
    let out = sim::run_sim(case.sched, async move {
        let conn = sim::connect();
        let t0 = Instant::now();
        let wire = conn.wire.clone();
        let c2 = c.clone();
        let problems: Arc<Mutex<Vec<String>>> = Arc::new(Mutex::new(vec![]));
        let pr = problems.clone();
        let wire_ids: Arc<Mutex<HashMap<usize, i64>>> = Arc::new(Mutex::new(HashMap::new()));
        let wi = wire_ids.clone();
        let srv = tokio::spawn(async move {
            // follow-up requests of a paged search reach the script of the operation they belong to
            let mut scripts: HashMap<usize, tokio::sync::mpsc::UnboundedSender<i64>> = HashMap::new();
            loop {
                match wire.recv().await {
                    Recv::Msg(Ok(m), _, _) => {
                        let Some(i) = simops::marker_index(&m) else {
                            pr.lock().unwrap().push(format!("unmarked request {}", m.req.kind()));
                            continue;
                        };
                        wi.lock().unwrap().insert(i, m.id);
                        if i >= c2.ops.len() {
                            // the reuse probe: answered at once
                            if let Some(tag) = m.req.response_tag() {
                                wire.push(&RespMsg::new(m.id, Resp::result(tag, Res::ok(&tok(i, 0)))).encode());
                            }
                            continue;
                        }
                        if let Some(tx) = scripts.get(&i) {
                            let _ = tx.send(m.id);
                            continue;
                        }
                        let (tx, mut rx) = tokio::sync::mpsc::unbounded_channel::<i64>();
                        scripts.insert(i, tx);
                        let op = c2.ops[i].clone();
                        let w2 = wire.clone();
                        tokio::spawn(async move {
                            match &op.kind {
                                Kind::Single(k) => {
                                    if let Some(a) = op.arrival_ms {
                                        tokio::time::sleep(Duration::from_millis(a)).await;
                                        w2.push(&RespMsg::new(m.id, Resp::result(k.resp_tag(), Res::ok(&tok(i, 0)))).encode());
                                    }
                                }
                                Kind::Search { gaps, paged, .. } => {
                                    let mut cur = m.id;
                                    let pctl = |cookie: &[u8]| {
                                        Some(vec![RCtl { oid: "1.2.840.113556.1.4.319".into(), crit: CritForm::Absent, val: Some(ber::encode(&Tlv::seq(vec![Tlv::int(0), Tlv::octets(cookie.to_vec())]))) }])
                                    };
                                    for (s, g) in gaps.iter().enumerate() {
                                        let Some(g) = g else { return };
                                        tokio::time::sleep(Duration::from_millis(*g)).await;
                                        if s + 1 == gaps.len() {
                                            w2.push(&RespMsg { id: cur, resp: Resp::result(5, Res::ok(&tok(i, s))), ctrls: if paged.is_some() { pctl(b"") } else { None } }.encode());
                                        } else if paged.as_ref().map(|p| p.contains(&s)).unwrap_or(false) {
                                            w2.push(&RespMsg { id: cur, resp: Resp::result(5, Res::ok("page")), ctrls: pctl(format!("ck{}", s).as_bytes()) }.encode());
                                            // the next page is only produced for the follow-up request
                                            match rx.recv().await {
                                                Some(id) => cur = id,
                                                None => return,
                                            }
                                        } else {
                                            w2.push(&RespMsg::new(cur, Resp::Entry(Entry::simple(&tok(i, s)))).encode());
                                        }
                                    }
                                }
                            }
                        });
                    }
                    Recv::Msg(Err(e), _, _) => pr.lock().unwrap().push(e),
                    Recv::Garbage(e) => {
                        pr.lock().unwrap().push(e);
                        break;
                    }
                    Recv::Closed => break,
                }
            }
        });
        // consecutive `chained` operations share one task and one handle
        let mut groups: Vec<Vec<(usize, Op)>> = Vec::new();
        for (i, op) in c.ops.iter().cloned().enumerate() {
            if op.chained && !groups.is_empty() {
                groups.last_mut().unwrap().push((i, op));
            } else {
                groups.push(vec![(i, op)]);
            }
        }
        let mut tasks = Vec::new();
        for grp in groups {
            let mut ldap = conn.ldap.clone();
            let n = grp.len();
            tasks.push((n, tokio::spawn(async move {
                let mut outs = Vec::new();
                for (i, op) in grp {
                    tokio::time::sleep(Duration::from_millis(op.start_ms)).await;
                    outs.push(run_op(&mut ldap, i, &op, t0).await);
                }
                outs
            })));
        }
        let mut observed = Vec::new();
        for (n, t) in tasks {
            match t.await {
                Ok(os) => observed.extend(os.into_iter().map(Ok)),
                Err(_) => {
                    let p = crate::runner::take_panics().into_iter().last().unwrap_or_default();
                    for _ in 0..n {
                        observed.push(Err(p.clone()));
                    }
                }
            }
        }
        // search() runs on a clone of the handle, so last_id() of the caller's handle does not name it: take the wire id
        for (i, o) in observed.iter_mut().enumerate() {
            if let (Ok(o), Some(Op { kind: Kind::Search { mode: 1, .. }, .. })) = (o, c.ops.get(i)) {
                if let Some(id) = wire_ids.lock().unwrap().get(&i) {
                    o.id = *id as i32;
                }
            }
        }
        // let every scripted late reply arrive and be discarded
        tokio::time::sleep(Duration::from_secs(200_000)).await;
        quiesce().await;
        let in_use: Vec<i32> = {
            let m = conn.msgmap.lock().unwrap();
            let mut v: Vec<i32> = m.1.iter().copied().collect();
            v.sort();
            v
        };
        // reusability: position the counter just below each timed-out id and allocate
        let mut reuse = Vec::new();
        let mut reuse_ops: Vec<(i32, i32, String)> = Vec::new();
        {
            let mut probe = conn.ldap.clone();
            for o in observed.iter().flatten() {
                if o.end == "Timeout" && o.id > 1 {
                    conn.msgmap.lock().unwrap().0 = o.id - 1;
                    let got = probe.verif_next_msgid();
                    reuse.push((o.id, got));
                    conn.msgmap.lock().unwrap().1.remove(&got);
                    // ... and an operation that is handed the id again must work like any other
                    conn.msgmap.lock().unwrap().0 = o.id - 1;
                    let idx = c.ops.len() + reuse_ops.len();
                    let r = tokio::time::timeout(Duration::from_secs(3600), probe.delete(&simops::marker(idx))).await;
                    reuse_ops.push((o.id, probe.last_id(), match r {
                        Err(_) => "hang".to_string(),
                        Ok(Ok(res)) => if res.text == tok(idx, 0) { "ok".to_string() } else { format!("wrong-response:{}", res.text) },
                        Ok(Err(e)) => err_kind(&e),
                    }));
                }
            }
        }
        let _ = t0;
        let ids = wire_ids.lock().unwrap().clone();
        let sim::Conn { ldap, driver, .. } = conn;
        drop(ldap);
        let end = sim::join_driver(driver).await;
        srv.abort();
        let _ = srv.await;
        let p = problems.lock().unwrap().clone();
        (observed, in_use, reuse, ids, end, p, reuse_ops)
    });
    let (observed, in_use, reuse, ids, end, problems, reuse_ops) = match out {
        SimResult::Done(v) => v,
        SimResult::Hang => fail!("c12:hang", "history never completed: some operation neither received its response nor timed out"),
    };
    if let sim::DriveEnd::Panic(p) = &end {
        fail!(panic_sig(p), "driver panicked: {}", p);
    }
    ensure!(matches!(end, sim::DriveEnd::Ok), "c12:connection-lost", "the connection did not survive the timeouts: driver ended with {:?}", end);
    ensure!(problems.is_empty(), "c12:server-problem", "{:?}", problems);
    let mut any_timeout = false;
    let mut overlapped = false;
    let mut late_reply = false;
    for (i, (op, o)) in case.ops.iter().zip(&observed).enumerate() {
        let o = match o {
            Ok(o) => o,
            Err(p) => fail!(panic_sig(p), "operation {} panicked: {}", i, p),
        };
        if op.chained && i > 0 && observed[i - 1].as_ref().map(|p| p.end == "Timeout").unwrap_or(false) {
            obs.label(if op.timeout_ms.is_none() { "untimed-op-on-handle-that-just-timed-out" } else { "timed-op-on-handle-that-just-timed-out" });
        }
        ensure!(ids.get(&i).copied() == Some(o.id as i64), "c12:id", "operation {} reports id {} but was sent under {:?}", i, o.id, ids.get(&i));
        match &op.kind {
            Kind::Single(_) => {
                let (want_end, want_at, want_tokens): (&str, u64, Vec<String>) = match (op.timeout_ms, op.arrival_ms) {
                    (Some(t), Some(a)) if a < t => ("ok", a, vec![tok(i, 0)]),
                    (Some(t), _) => ("Timeout", t, vec![]),
                    (None, Some(a)) => ("ok", a, vec![tok(i, 0)]),
                    (None, None) => unreachable!(),
                };
                if want_end == "Timeout" {
                    any_timeout = true;
                    if op.arrival_ms.is_some() {
                        late_reply = true;
                    }
                }
                ensure!(o.end == want_end, if want_end == "Timeout" { "c12:no-timeout" } else { "c12:spurious-timeout-or-error" }, "operation {} (timeout {:?} ms, response after {:?} ms) ended with {:?}, expected {:?}", i, op.timeout_ms, op.arrival_ms, o.end, want_end);
                ensure!(o.t_end_ms >= want_at && o.t_end_ms <= want_at + 1, "c12:wrong-instant", "operation {} (timeout {:?} ms, response after {:?} ms) completed {} ms after its start, expected {} ms", i, op.timeout_ms, op.arrival_ms, o.t_end_ms, want_at);
                ensure!(o.tokens == want_tokens, "c12:wrong-response", "operation {} observed {:?}, expected {:?}", i, o.tokens, want_tokens);
            }
            Kind::Search { gaps, adapted: _, paged, mode } => {
                // walk the gaps: every next() is issued when the previous item was delivered
                let mut now = 0u64;
                let mut want_tokens = Vec::new();
                let mut want_calls: Vec<(u64, &str)> = Vec::new();
                let mut want_end = "ok";
                let mut pages_seen = 0;
                for (s, g) in gaps.iter().enumerate() {
                    let fires = match (op.timeout_ms, g) {
                        (Some(t), Some(g)) => *g > t,
                        (Some(_), None) => true,
                        (None, _) => false,
                    };
                    if fires {
                        now += op.timeout_ms.unwrap();
                        want_calls.push((now, "Timeout"));
                        want_end = "Timeout";
                        any_timeout = true;
                        if pages_seen > 0 {
                            obs.label("timeout-on-page>=2");
                            late_reply = true;
                        }
                        if g.is_some() {
                            late_reply = true;
                        }
                        break;
                    }
                    now += g.unwrap();
                    if s + 1 != gaps.len() && paged.as_ref().map(|p| p.contains(&s)).unwrap_or(false) {
                        // a page end is consumed inside next(): the follow-up request goes out at once
                        // and the wait for the next page's first item starts a fresh timer
                        pages_seen += 1;
                        continue;
                    }
                    want_tokens.push(tok(i, s));
                    want_calls.push((now, if s + 1 == gaps.len() { "end" } else { "item" }));
                }
                ensure!(o.end == want_end, if want_end == "Timeout" { "c12:no-timeout" } else { "c12:spurious-timeout-or-error" }, "search {} (timeout {:?} ms, gaps {:?}) ended with {:?}, expected {:?}; next() log {:?}", i, op.timeout_ms, gaps, o.end, want_end, o.calls);
                if *mode == 1 {
                    // search(): only the instant and kind of the end are visible
                    want_calls = want_calls.last().cloned().into_iter().collect();
                    if want_end != "ok" {
                        want_tokens.clear();
                    }
                    obs.label("search()-convenience-call");
                } else if *mode == 2 && want_end == "Timeout" {
                    obs.label("timed-out-stream-dropped-without-finish");
                }
                ensure!(o.calls.len() == want_calls.len() && o.calls.iter().zip(&want_calls).all(|(g, w)| g.1 == w.1 && g.0 >= w.0 && g.0 <= w.0 + 1), "c12:wrong-instant", "search {} (timeout {:?} ms, gaps {:?}): next() log {:?}, expected {:?} - the timer must restart with every received item", i, op.timeout_ms, gaps, o.calls, want_calls);
                ensure!(o.tokens == want_tokens, "c12:wrong-response", "search {} observed {:?}, expected {:?}", i, o.tokens, want_tokens);
                if op.timeout_ms.map(|t| now > t).unwrap_or(false) && want_end == "ok" {
                    obs.label("search-longer-than-timeout-but-no-gap-exceeds-it");
                }
            }
        }
    }
    ensure!(in_use.is_empty(), "c12:id-not-released", "after all operations ended and all late replies were discarded, ids {:?} are still reserved", in_use);
    for (id, got) in &reuse {
        ensure!(id == got, "c12:id-not-reusable", "timed-out id {} is not handed out again (allocator returned {})", id, got);
    }
    for (id, used, outcome) in &reuse_ops {
        ensure!(id == used && outcome == "ok", "c12:reused-id-does-not-work", "an operation that was handed the timed-out id {} again (it travelled under {}) ended with {:?}", id, used, outcome);
    }
    // overlap: a timed-out op while another op was outstanding that later completed
    let spans: Vec<(u64, u64, bool)> = case.ops.iter().zip(&observed).map(|(op, o)| { let o = o.as_ref().unwrap(); { let _ = op; (o.t_start_ms, o.t_start_ms + o.t_end_ms, o.end == "Timeout") } }).collect();
    for (i, a) in spans.iter().enumerate() {
        for (j, b) in spans.iter().enumerate() {
            if i != j && a.2 && !b.2 && b.0 < a.1 && b.1 > a.1 {
                overlapped = true;
            }
        }
    }
    if any_timeout {
        obs.label("timeout");
    }
    if late_reply {
        obs.label("late-reply");
    }
    if overlapped {
        obs.label("timeout-while-other-outstanding");
    }
    if overlapped || late_reply {
        obs.nontrivial(format!("{:?}", case.ops));
    }
    Ok(())
}


// ---------------------------------------------------------------- lane: a deadline behind a blocked writer

#[derive(Clone, Debug, Serialize, Deserialize)]
pub struct QCase {
    /// untimed operations already queued at the driver, which is stuck writing the first of them (send buffer full)
    pub queued: u8,
    pub timeout_ms: u64,
    /// how long after the deadline the socket becomes writable again
    pub unblock_after_ms: u64,
    pub search: bool,
    pub sched: u64,
    /// (with `search`) a PagedResults search whose first page is served normally; the socket blocks before the
    /// request for the second page, which must then time out like any other operation
    #[serde(default)]
    pub paged: bool,
}

fn q_strat(_: &Ctx) -> BoxedStrategy<QCase> {
    (prop_oneof![3 => 0u8..8, 2 => 8u8..40, 2 => 40u8..90], prop_oneof![5u64..300, 300u64..3000], 1u64..5000, any::<bool>(), any::<u64>(), any::<bool>())
        .prop_map(|(queued, timeout_ms, unblock_after_ms, search, sched, paged)| QCase { queued, timeout_ms, unblock_after_ms, search, sched, paged: paged && search })
        .boxed()
}

pub fn check_q(c: &QCase, obs: &mut Obs) -> Result<(), Fail> {
    let cc = c.clone();
    let out = sim::run_sim(c.sched, async move {
        let conn = sim::connect();
        let wire = conn.wire.clone();
        let w2 = wire.clone();
        let paged_case = cc.paged;
        let srv = tokio::spawn(async move {
            // answers everything at once, as soon as it can be read
            let mut first_page_served = false;
            loop {
                match w2.recv().await {
                    Recv::Msg(Ok(m), _, _) => {
                        if let Some(tag) = m.req.response_tag() {
                            if tag == 5 {
                                w2.push(&RespMsg::new(m.id, Resp::Entry(Entry::simple("cn=late"))).encode());
                            }
                            let first_page = paged_case && tag == 5 && !first_page_served;
                            if first_page {
                                first_page_served = true;
                                let ctl = RCtl { oid: "1.2.840.113556.1.4.319".into(), crit: CritForm::Absent, val: Some(ber::encode(&Tlv::seq(vec![Tlv::int(0), Tlv::octets(b"more".to_vec())]))) };
                                w2.push(&RespMsg { id: m.id, resp: Resp::result(5, Res::ok("page")), ctrls: Some(vec![ctl]) }.encode());
                            } else {
                                w2.push(&RespMsg::new(m.id, Resp::result(tag, Res::ok("answered"))).encode());
                            }
                        }
                    }
                    Recv::Closed | Recv::Garbage(_) => break,
                    _ => {}
                }
            }
        });
        // paged variant: the first page is fetched while the socket still works
        let mut paged_stream = None;
        let mut ldap = conn.ldap.clone();
        if cc.paged {
            ldap.with_timeout(Duration::from_millis(cc.timeout_ms));
            match ldap.streaming_search_with(PagedResults::new(5), &simops::marker(200), Scope::Subtree, "(a=b)", vec!["a"]).await {
                Ok(mut s) => match s.next().await {
                    Ok(Some(_)) => paged_stream = Some(s),
                    other => return (format!("first-page:{:?}", other.map(|o| o.is_some()).map_err(|e| err_kind(&e))), 0, vec![], String::new(), vec![], (0, 0), sim::DriveEnd::Ok),
                },
                Err(e) => return (format!("first-page-start:{}", err_kind(&e)), 0, vec![], String::new(), vec![], (0, 0), sim::DriveEnd::Ok),
            }
        }
        wire.block_writes(true);
        let mut queued = Vec::new();
        for i in 0..cc.queued {
            let mut l = conn.ldap.clone();
            queued.push(tokio::spawn(async move { l.delete(&simops::marker(i as usize)).await.map(|r| r.text).map_err(|e| err_kind(&e)) }));
        }
        quiesce().await;
        let started = Instant::now();
        ldap.with_timeout(Duration::from_millis(cc.timeout_ms));
        let mk = simops::marker(200);
        let end = if let Some(mut s) = paged_stream {
            // the page result is already here; this call has to ask for the next page, which cannot be written
            let r = match s.next().await {
                Ok(Some(_)) => "item".to_string(),
                Ok(None) => "end".to_string(),
                Err(e) => err_kind(&e),
            };
            let _ = s.finish().await;
            r
        } else if cc.search {
            match ldap.streaming_search(&mk, Scope::Subtree, "(a=b)", vec!["a"]).await {
                Err(e) => format!("start:{}", err_kind(&e)),
                Ok(mut s) => {
                    let r = match s.next().await {
                        Ok(Some(_)) => "item".to_string(),
                        Ok(None) => "end".to_string(),
                        Err(e) => err_kind(&e),
                    };
                    let _ = s.finish().await;
                    r
                }
            }
        } else {
            match ldap.compare(&mk, "a", "b").await {
                Ok(_) => "ok".to_string(),
                Err(e) => err_kind(&e),
            }
        };
        let at = started.elapsed().as_millis() as u64;
        tokio::time::sleep(Duration::from_millis(cc.unblock_after_ms)).await;
        wire.block_writes(false);
        let mut others = Vec::new();
        for q in queued {
            others.push(match tokio::time::timeout(Duration::from_secs(3600), q).await {
                Err(_) => "hang".to_string(),
                Ok(Err(_)) => "panic".to_string(),
                Ok(Ok(Ok(t))) => t,
                Ok(Ok(Err(e))) => e,
            });
        }
        // a later operation on the handle that timed out
        let later = match tokio::time::timeout(Duration::from_secs(3600), ldap.delete(&simops::marker(201))).await {
            Err(_) => "hang".to_string(),
            Ok(Ok(r)) => r.text,
            Ok(Err(e)) => err_kind(&e),
        };
        tokio::time::sleep(Duration::from_secs(100)).await;
        quiesce().await;
        let in_use: Vec<i32> = {
            let m = conn.msgmap.lock().unwrap();
            let mut v: Vec<i32> = m.1.iter().copied().collect();
            v.sort();
            v
        };
        let g = *conn.gauges.lock().unwrap();
        let sim::Conn { ldap: l0, driver, .. } = conn;
        drop(l0);
        drop(ldap);
        let dend = sim::join_driver(driver).await;
        srv.abort();
        let _ = srv.await;
        (end, at, others, later, in_use, g, dend)
    });
    let (end, at, others, later, in_use, g, dend) = match out {
        SimResult::Done(v) => v,
        SimResult::Hang => fail!("c12:hang", "history never completed: {:?}", c),
    };
    if let sim::DriveEnd::Panic(p) = &dend {
        fail!(panic_sig(p), "driver panicked: {}", p);
    }
    let want = if c.search { "start:Timeout" } else { "Timeout" };
    ensure!(end == want || (c.search && end == "Timeout"), "c12:no-timeout", "a {} ms timeout on an operation whose request could not even be written (send buffer full, {} requests queued) ended with {:?}", c.timeout_ms, c.queued, end);
    ensure!(at >= c.timeout_ms && at <= c.timeout_ms + 1, "c12:wrong-instant", "with {} requests queued behind a blocked socket the {} ms timeout fired after {} ms", c.queued, c.timeout_ms, at);
    ensure!(others.iter().all(|o| o == "answered"), "c12:connection-lost", "operations queued behind the blocked socket ended with {:?} after it became writable again", others);
    ensure!(later == "answered", "c12:later-op", "an operation after the timeout ended with {:?}", later);
    ensure!(in_use.is_empty() && g == (0, 0), "c12:id-not-released", "at the end ids {:?} are reserved and the driver holds {:?} routing entries", in_use, g);
    if c.paged {
        obs.label("paged-follow-up-request-blocked");
    }
    obs.label(if c.queued >= 32 { "queued>=32" } else if c.queued > 0 { "queued<32" } else { "only-the-timed-request-blocked" });
    if c.queued > 0 {
        obs.nontrivial((c.queued, c.timeout_ms, c.unblock_after_ms, c.search));
    }
    Ok(())
}

pub fn property() -> Property {
    Property {
        id: "C12",
        level: "exploration",
        rule: "generated histories of 1-8 operations over the paused virtual clock, concurrent on cloned handles or chained on one handle (40%: the next operation reuses the handle of the previous one, so a timed-out operation is followed by timed and untimed ones on the same handle): single-result operations and direct/EntriesOnly/PagedResults/[EntriesOnly,PagedResults] searches (paged ones with generated page ends, each answered by a follow-up request under a fresh id), each optionally timed (3 ms .. 1 day, and practically infinite values up to Duration::MAX under which the response must still be returned), started at generated instants; scripted response arrival clearly before the deadline (<= T-2 ms), clearly after it (late reply, >= T+2 ms) or never; searches with per-item gaps below or above the timeout. Oracle (exact to Tokio's 1 ms timer granularity): a timed operation returns Timeout at start+T if nothing arrived, else its own response at the arrival instant; a search's deadline restarts at every next() call, so it times out at the first gap > T and not otherwise however long the whole search takes; every other operation completes with its own tokens; late replies are seen by nobody; the driver survives; at quiescence no id is reserved and each timed-out id is handed out again by the allocator and works for the operation that gets it. Lane blocked-writer: 0-89 untimed operations queued at a driver that is stuck writing (send buffer full), then a timed operation, a search start or the follow-up page request of a PagedResults search: it must time out exactly at its deadline, the queued operations complete once the socket drains, a later operation works and nothing stays reserved. Non-trivial: an operation times out while another is outstanding and later completes, or a late reply is scripted. Distinct = debug rendering of the operations.",
        assumptions: &["no ties: |arrival - deadline| >= 2 ms", "tokio paused clock: virtual time advances only when every task is idle"],
        lanes: vec![
            Box::new(PLane { name: "timeouts", cases: |t| t.pick(2_000, 30_000), strat, check }),
            Box::new(PLane { name: "blocked-writer", cases: |t| t.pick(150, 2_000), strat: q_strat, check: check_q }),
        ],
        workers: (8, 16),
    }
}
