//! C07 — BER encoding and parsing are mutual inverses and encoding is canonical.

use crate::ber::{self, Body, Parsed, Tlv};
use crate::conv::{class_to_lib, from_lib, lib_encode, to_lib};
use crate::gens::{self, Data, GT};
use crate::runner::{panic_sig, Ctx, Fail, Obs, PLane, Property, Tier};
use crate::{ensure, fail};
use lber::structures::{ASNTag, Boolean, Enumerated, ExplicitTag, Integer, Null, OctetString, Sequence, Set, Tag};
use proptest::collection::vec;
use proptest::prelude::*;
use serde::{Deserialize, Serialize};

fn shape_key(t: &Tlv, out: &mut Vec<u64>) {
    match &t.body {
        Body::Prim(v) => out.push(((t.class as u64) << 40) | ((t.tag as u64) << 32) | v.len() as u64),
        Body::Cons(c) => {
            out.push(0xC000_0000_0000 | ((t.class as u64) << 40) | ((t.tag as u64) << 32) | c.len() as u64);
            for k in c {
                shape_key(k, out);
            }
        }
    }
}

fn has_wide_cons(t: &Tlv) -> bool {
    match &t.body {
        Body::Prim(_) => false,
        Body::Cons(c) => c.len() >= 2 || c.iter().any(has_wide_cons),
    }
}

fn max_len(t: &Tlv) -> usize {
    match &t.body {
        Body::Prim(v) => v.len(),
        Body::Cons(c) => ber::encode(t).len().max(c.iter().map(max_len).max().unwrap_or(0)),
    }
}

fn len_label(n: usize) -> &'static str {
    match n {
        0..=127 => "len<128",
        128..=255 => "len-1-octet-long",
        256..=65535 => "len-2-octet-long",
        65536..=16777215 => "len-3-octet-long",
        _ => "len-4-octet-long",
    }
}

// ---------------------------------------------------------------- lane: tree

#[derive(Clone, Debug, Serialize, Deserialize)]
pub struct TreeCase {
    tree: GT,
    trailer: Vec<u8>,
}

fn tree_strat(ctx: &Ctx) -> BoxedStrategy<TreeCase> {
    let huge = ctx.tier == Tier::Thorough;
    // 2^24-byte payloads cost ~100 ms per case: keep them to shallow trees in 1 of 400 thorough cases
    let tree = if huge { prop_oneof![399 => gens::gt_tree(6, 6, true, false), 1 => gens::gt_tree(2, 3, true, true)].boxed() } else { gens::gt_tree(6, 6, true, false) };
    // now and then a very wide node: 100-400 small children (possibly below a few levels of nesting)
    let wide = (gens::class_tag(), vec((gens::class_tag(), gens::data(false, false)).prop_map(|((class, tag), data)| gens::GT::P { class, tag, data }), 100..400), 0usize..4).prop_map(|((class, tag), kids, wrap)| {
        let mut t = gens::GT::C { class, tag, kids };
        for _ in 0..wrap {
            t = gens::GT::C { class: 0, tag: 16, kids: vec![t] };
        }
        t
    });
    let tree = prop_oneof![40 => tree, 1 => wide.boxed()];
    (tree, vec(any::<u8>(), 0..6)).prop_map(|(tree, trailer)| TreeCase { tree, trailer }).boxed()
}

pub fn check_tree(c: &TreeCase, obs: &mut Obs) -> Result<(), Fail> {
    let tlv = c.tree.to_tlv();
    let reference = ber::encode(&tlv);
    let lib = lib_encode(to_lib(&tlv));
    ensure!(
        lib == reference,
        "c07:encode-not-canonical",
        "encoder output differs from the minimal definite encoding: lib={} ref={}",
        ber::hex(&lib[..lib.len().min(48)]),
        ber::hex(&reference[..reference.len().min(48)])
    );
    let mut input = lib.clone();
    input.extend_from_slice(&c.trailer);
    match lber::parse::parse_tag(&input) {
        Ok((rest, t)) => {
            ensure!(rest == &c.trailer[..], "c07:roundtrip-rest", "trailing bytes not left untouched: rest={} trailer={}", ber::hex(rest), ber::hex(&c.trailer));
            ensure!(t == to_lib(&tlv), "c07:roundtrip-tree", "parse(encode(t)) != t for {:?}", truncate(&format!("{:?}", tlv)));
        }
        Err(e) => fail!("c07:roundtrip-parse-error", "parse_tag rejected the encoder's own output: {:?}", truncate(&format!("{:?}", e))),
    }
    let ml = max_len(&tlv);
    obs.label(len_label(ml));
    if has_wide_cons(&tlv) {
        obs.label("cons>=2");
    }
    if has_wide_cons(&tlv) || ml >= 128 {
        let mut k = Vec::new();
        shape_key(&tlv, &mut k);
        obs.nontrivial(k);
    }
    Ok(())
}

fn truncate(s: &str) -> String {
    s.chars().take(300).collect()
}

// ---------------------------------------------------------------- lane: ints

#[derive(Clone, Debug, Serialize, Deserialize)]
pub struct IntCase {
    enumerated: bool,
    class: u8,
    id: u8,
    value: i64,
}

fn int_strat(_ctx: &Ctx) -> BoxedStrategy<IntCase> {
    (any::<bool>(), gens::class_tag(), gens::i64_biased()).prop_map(|(enumerated, (class, id), value)| IntCase { enumerated, class, id, value }).boxed()
}

pub fn check_int(c: &IntCase, obs: &mut Obs) -> Result<(), Fail> {
    let tag = if c.enumerated {
        Tag::Enumerated(Enumerated { id: c.id as u64, class: class_to_lib(c.class), inner: c.value })
    } else {
        Tag::Integer(Integer { id: c.id as u64, class: class_to_lib(c.class), inner: c.value })
    };
    let st = match crate::runner::guard(|| tag.into_structure()) {
        Ok(st) => st,
        Err(p) => fail!(panic_sig(&p), "INTEGER/ENUMERATED encoding of {} panicked: {}", c.value, p),
    };
    let expected = ber::int_content(c.value);
    let got = from_lib(&st).ok_or_else(|| Fail::new("c07:int-shape", "tag number changed"))?;
    ensure!(got.class == c.class && got.tag == c.id, "c07:int-shape", "class/id not preserved: {:?}", got);
    let content = match &got.body {
        Body::Prim(v) => v.clone(),
        _ => fail!("c07:int-shape", "integer encoded as constructed"),
    };
    ensure!(
        content == expected,
        "c07:int-content",
        "content octets of {} are {} but the shortest two's complement is {} (decodes to {:?})",
        c.value,
        ber::hex(&content),
        ber::hex(&expected),
        ber::int_value(&content)
    );
    // full round trip through the encoder and the independent reader
    let enc = lib_encode(st);
    let back = ber::parse_all(&enc).map_err(|e| Fail::new("c07:int-encode", e))?;
    ensure!(ber::int_value(back.as_prim().unwrap_or(&[])) == Some(c.value), "c07:int-content", "independent reader decodes {} from the encoding of {}", ber::hex(&enc), c.value);
    obs.label(format!("octets={}", expected.len()));
    if c.value < 0 {
        obs.label("negative");
    }
    let top = expected[0];
    if expected.len() >= 2 && (top == 0x00 || top == 0xFF) {
        obs.label("sign-octet-needed");
    }
    if expected.len() >= 2 || c.value < 0 {
        obs.nontrivial(c.value);
    }
    Ok(())
}

// ---------------------------------------------------------------- lane: typed (Tag::into_structure)

#[derive(Clone, Debug, Serialize, Deserialize)]
pub enum TT {
    Bool(u8, u8, bool),
    Null(u8, u8),
    Octets(u8, u8, Data),
    Int(u8, u8, i64),
    Enum(u8, u8, i64),
    Seq(u8, u8, Vec<TT>),
    Set(u8, u8, Vec<TT>),
    Explicit(u8, u8, Box<TT>),
    Raw(GT),
}

impl TT {
    fn to_lib(&self) -> Tag {
        match self {
            TT::Bool(c, i, b) => Tag::Boolean(Boolean { class: class_to_lib(*c), id: *i as u64, inner: *b }),
            TT::Null(c, i) => Tag::Null(Null { class: class_to_lib(*c), id: *i as u64, inner: () }),
            TT::Octets(c, i, d) => Tag::OctetString(OctetString { class: class_to_lib(*c), id: *i as u64, inner: d.bytes() }),
            TT::Int(c, i, v) => Tag::Integer(Integer { class: class_to_lib(*c), id: *i as u64, inner: *v }),
            TT::Enum(c, i, v) => Tag::Enumerated(Enumerated { class: class_to_lib(*c), id: *i as u64, inner: *v }),
            TT::Seq(c, i, k) => Tag::Sequence(Sequence { class: class_to_lib(*c), id: *i as u64, inner: k.iter().map(|t| t.to_lib()).collect() }),
            TT::Set(c, i, k) => Tag::Set(Set { class: class_to_lib(*c), id: *i as u64, inner: k.iter().map(|t| t.to_lib()).collect() }),
            TT::Explicit(c, i, k) => Tag::ExplicitTag(ExplicitTag { class: class_to_lib(*c), id: *i as u64, inner: Box::new(k.to_lib()) }),
            TT::Raw(g) => Tag::StructureTag(to_lib(&g.to_tlv())),
        }
    }
    fn expected(&self) -> Tlv {
        match self {
            TT::Bool(c, i, b) => Tlv::prim(*c, *i, vec![if *b { 0xFF } else { 0x00 }]),
            TT::Null(c, i) => Tlv::prim(*c, *i, vec![]),
            TT::Octets(c, i, d) => Tlv::prim(*c, *i, d.bytes()),
            TT::Int(c, i, v) | TT::Enum(c, i, v) => Tlv::prim(*c, *i, ber::int_content(*v)),
            TT::Seq(c, i, k) | TT::Set(c, i, k) => Tlv::cons(*c, *i, k.iter().map(|t| t.expected()).collect()),
            TT::Explicit(c, i, k) => Tlv::cons(*c, *i, vec![k.expected()]),
            TT::Raw(g) => g.to_tlv(),
        }
    }
    fn count(&self, f: &mut dyn FnMut(&TT)) {
        f(self);
        match self {
            TT::Seq(_, _, k) | TT::Set(_, _, k) => k.iter().for_each(|t| t.count(f)),
            TT::Explicit(_, _, k) => k.count(f),
            _ => {}
        }
    }
}

fn tt_strat(_ctx: &Ctx) -> BoxedStrategy<TT> {
    let ct = gens::class_tag;
    let leaf = prop_oneof![
        (ct(), any::<bool>()).prop_map(|((c, i), b)| TT::Bool(c, i, b)),
        ct().prop_map(|(c, i)| TT::Null(c, i)),
        (ct(), gens::data(false, false)).prop_map(|((c, i), d)| TT::Octets(c, i, d)),
        (ct(), gens::i64_biased()).prop_map(|((c, i), v)| TT::Int(c, i, v)),
        (ct(), gens::i64_biased()).prop_map(|((c, i), v)| TT::Enum(c, i, v)),
        gens::gt_tree(2, 3, false, false).prop_map(TT::Raw),
    ];
    leaf.prop_recursive(4, 40, 5, move |inner| {
        prop_oneof![
            (gens::class_tag(), vec(inner.clone(), 0..5)).prop_map(|((c, i), k)| TT::Seq(c, i, k)),
            (gens::class_tag(), vec(inner.clone(), 0..5)).prop_map(|((c, i), k)| TT::Set(c, i, k)),
            (gens::class_tag(), inner).prop_map(|((c, i), k)| TT::Explicit(c, i, Box::new(k))),
        ]
    })
    .boxed()
}

pub fn check_typed(c: &TT, obs: &mut Obs) -> Result<(), Fail> {
    let expected = c.expected();
    let lib_tag = c.to_lib();
    let st = match crate::runner::guard(|| lib_tag.into_structure()) {
        Ok(st) => st,
        Err(p) => fail!(panic_sig(&p), "Tag::into_structure panicked: {}", p),
    };
    // integers inside are judged by the ints lane's signature so that a known integer
    // finding does not mask a structural one
    let got = from_lib(&st).ok_or_else(|| Fail::new("c07:typed-shape", "tag number out of range"))?;
    if got != expected {
        // find out whether the only differences are integer contents
        let sig = if same_modulo_ints(&got, &expected, c) { "c07:int-content" } else { "c07:typed-structure" };
        fail!(sig, "into_structure() != expected tree: got {} expected {}", truncate(&format!("{:?}", got)), truncate(&format!("{:?}", expected)));
    }
    let enc = lib_encode(st);
    ensure!(enc == ber::encode(&expected), "c07:encode-not-canonical", "typed tree encodes non-canonically");
    let (mut bools, mut kinds) = (0, std::collections::HashSet::new());
    c.count(&mut |t| {
        kinds.insert(std::mem::discriminant(t));
        if let TT::Bool(_, _, true) = t {
            bools += 1;
        }
    });
    if bools > 0 {
        obs.label("bool-true");
    }
    if kinds.len() >= 3 {
        let mut k = Vec::new();
        shape_key(&expected, &mut k);
        obs.nontrivial(k);
    }
    Ok(())
}

fn same_modulo_ints(got: &Tlv, exp: &Tlv, src: &TT) -> bool {
    match (src, &got.body, &exp.body) {
        (TT::Int(..), Body::Prim(_), Body::Prim(_)) | (TT::Enum(..), Body::Prim(_), Body::Prim(_)) => got.class == exp.class && got.tag == exp.tag,
        (TT::Seq(_, _, k), Body::Cons(g), Body::Cons(e)) | (TT::Set(_, _, k), Body::Cons(g), Body::Cons(e)) => {
            got.class == exp.class && got.tag == exp.tag && g.len() == e.len() && k.len() == g.len() && g.iter().zip(e).zip(k).all(|((g, e), k)| same_modulo_ints(g, e, k))
        }
        (TT::Explicit(_, _, k), Body::Cons(g), Body::Cons(e)) => got.class == exp.class && got.tag == exp.tag && g.len() == 1 && e.len() == 1 && same_modulo_ints(&g[0], &e[0], k),
        _ => got == exp,
    }
}

// ---------------------------------------------------------------- lane: forms (valid BER incl. non-minimal lengths)

#[derive(Clone, Debug, Serialize, Deserialize)]
pub struct FormsCase {
    tree: GT,
    forms: Vec<u8>,
    trailer: Vec<u8>,
}

fn forms_strat(_ctx: &Ctx) -> BoxedStrategy<FormsCase> {
    (gens::gt_tree(5, 5, true, false), gens::forms(), vec(any::<u8>(), 0..6)).prop_map(|(tree, forms, trailer)| FormsCase { tree, forms, trailer }).boxed()
}

pub fn check_forms(c: &FormsCase, obs: &mut Obs) -> Result<(), Fail> {
    let tlv = c.tree.to_tlv();
    let mut f = ber::Forms::new(&c.forms);
    let mut bytes = Vec::new();
    ber::encode_into(&tlv, &mut bytes, &mut f);
    let nonmin = f.nonminimal_used;
    // self-check of the trusted base: the harness reader must read its own writer
    match ber::parse(&bytes) {
        Parsed::Complete(t, used) if t == tlv && used == bytes.len() => {}
        other => fail!("harness-ber-selfcheck", "harness reader disagrees with harness writer: {:?}", truncate(&format!("{:?}", other))),
    }
    let enc_len = bytes.len();
    bytes.extend_from_slice(&c.trailer);
    match lber::parse::parse_tag(&bytes) {
        Ok((rest, t)) => {
            ensure!(rest.len() == bytes.len() - enc_len, "c07:parse-rest", "parse_tag consumed {} bytes of a {}-byte encoding", bytes.len() - rest.len(), enc_len);
            ensure!(t == to_lib(&tlv), "c07:parse-nonminimal", "valid BER with length forms {:?} parsed to a different tree", c.forms);
        }
        Err(e) => fail!("c07:parse-nonminimal", "valid definite-length BER rejected (forms {:?}): {}", c.forms, truncate(&format!("{:?}", e))),
    }
    if nonmin > 0 {
        obs.label("nonminimal-length");
        if c.forms.iter().any(|&f| f >= 6) {
            obs.label("length-octets>=8");
        }
        let mut k = Vec::new();
        shape_key(&tlv, &mut k);
        obs.nontrivial((k, c.forms.clone()));
    }
    Ok(())
}

// ---------------------------------------------------------------- lane: bytes (differential on arbitrary input)

#[derive(Clone, Debug, Serialize, Deserialize)]
pub struct BytesCase {
    hex: String,
}

fn bytes_strat(_ctx: &Ctx) -> BoxedStrategy<BytesCase> {
    let mutated = (gens::gt_tree(4, 4, false, false), gens::forms(), vec((any::<u16>(), any::<u8>()), 0..3), any::<u16>(), any::<bool>()).prop_map(|(tree, forms, muts, cut, do_cut)| {
        let mut b = ber::encode_forms(&tree.to_tlv(), &forms);
        for (pos, val) in muts {
            if !b.is_empty() {
                let i = crate::runner::pick_idx(pos, b.len());
                b[i] = val;
            }
        }
        if do_cut && !b.is_empty() {
            let i = crate::runner::pick_idx(cut, b.len() + 1);
            b.truncate(i);
        }
        b
    });
    let header_first = (any::<u8>(), vec(any::<u8>(), 0..40)).prop_map(|(t, mut rest)| {
        let mut b = vec![t & !0x1f | (t & 0x0f), rest.len() as u8];
        b.append(&mut rest);
        b
    });
    prop_oneof![5 => mutated, 2 => vec(any::<u8>(), 0..64), 2 => header_first].prop_map(|b| BytesCase { hex: ber::hex(&b) }).boxed()
}

pub fn check_bytes(c: &BytesCase, obs: &mut Obs) -> Result<(), Fail> {
    let bytes = ber::unhex(&c.hex);
    diff_bytes(&bytes, obs)
}

/// The differential oracle (also used by the fuzz target): where the reference says
/// "valid definite BER, tags <= 30", the library must return the same tree and rest.
pub fn diff_bytes(bytes: &[u8], obs: &mut Obs) -> Result<(), Fail> {
    match ber::parse(bytes) {
        Parsed::Complete(t, used) => {
            let r = crate::runner::guard(|| lber::parse::parse_tag(bytes).map(|(rest, t)| (rest.len(), t)).map_err(|e| format!("{:?}", e)));
            match r {
                Err(p) => fail!(panic_sig(&p), "parse_tag panicked on valid BER {}: {}", ber::hex(bytes), p),
                Ok(Err(e)) => fail!("c07:diff-valid", "valid BER {} rejected: {}", ber::hex(bytes), truncate(&e)),
                Ok(Ok((rest_len, lt))) => {
                    ensure!(rest_len == bytes.len() - used, "c07:diff-valid", "valid BER {}: library consumed {} bytes, reference {}", ber::hex(bytes), bytes.len() - rest_len, used);
                    ensure!(lt == to_lib(&t), "c07:diff-valid", "valid BER {}: trees differ", ber::hex(bytes));
                }
            }
            obs.label("reference-valid");
            if ber::encode(&t) != bytes[..used] {
                obs.label("valid-nonminimal");
            }
            obs.nontrivial(bytes);
        }
        Parsed::Incomplete => obs.label("reference-incomplete"),
        Parsed::Invalid(_) => obs.label("reference-invalid"),
    }
    Ok(())
}

// ------------------------------------------------------------------ coverage-guided lane (libFuzzer)

fn fuzz_spec() -> crate::fuzzlane::FuzzSpec {
    crate::fuzzlane::FuzzSpec { target: "ber_parse", oracle: diff_bytes, seeds: crate::fuzzlane::seeds_ber, max_len: 4096, runs_per_worker: 6000000 }
}

fn fuzz_run(ctx: &Ctx, known: &[crate::runner::KnownFinding]) -> crate::runner::LaneReport {
    crate::fuzzlane::run(&fuzz_spec(), ctx, known)
}

fn fuzz_replay(v: serde_json::Value) -> Result<(), Fail> {
    crate::fuzzlane::replay(&fuzz_spec(), v)
}

pub fn property() -> Property {
    Property {
        id: "C07",
        level: "exploration",
        rule: "lanes: tree (generated tag trees - depth <= 6, up to 6 children per node, and now and then a node with 100-400 children -, payload lengths biased to 0/1/127/128/255/256/65535/65536 and (thorough) 2^24 -> lber encode vs reference minimal encoding, parse(encode)+trailer); ints (i64 biased to +-2^k+-2 for every k, MIN/MAX; Integer/Enumerated content vs independently computed shortest two's complement); typed (Tag::into_structure for Boolean/Null/OctetString/Sequence/Set/ExplicitTag trees); forms (harness-written valid BER with generated long/superfluous length forms -> lber parse vs tree); bytes (mutated/random bytes: differential against the reference reader on inputs it calls valid). Non-trivial: tree with a constructed node of >=2 children or any length >=128; integer with >=2 content octets or negative; typed tree using >=3 kinds; encoding that used >=1 non-minimal length; byte string the reference accepts. Distinct = hash of tree shape (class,tag,length per node) / value / bytes.",
        assumptions: &[
            "harness BER reader/writer (src/ber.rs) is correct; cross-checked against lber's own test vectors and self-round-trip",
            "tag numbers are limited to 0..30 as the property states",
        ],
        lanes: vec![
            Box::new(PLane { name: "tree", cases: |t| t.pick(6_000, 120_000), strat: tree_strat, check: check_tree }),
            Box::new(PLane { name: "ints", cases: |t| t.pick(25_000, 600_000), strat: int_strat, check: check_int }),
            Box::new(PLane { name: "typed", cases: |t| t.pick(4_000, 80_000), strat: tt_strat, check: check_typed }),
            Box::new(PLane { name: "forms", cases: |t| t.pick(5_000, 100_000), strat: forms_strat, check: check_forms }),
            Box::new(PLane { name: "bytes", cases: |t| t.pick(10_000, 300_000), strat: bytes_strat, check: check_bytes }),
            Box::new(crate::runner::FnLane { name: "fuzz", run: fuzz_run, replay: fuzz_replay }),
        ],
        workers: (8, 16),
    }
}
