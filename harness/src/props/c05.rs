//! C05 — in-flight operations never share a message ID; IDs stay within 1..2^31-1.

use crate::model::{Res, Resp, RespMsg};
use crate::runner::{panic_sig, Ctx, Fail, Obs, PLane, Property};
use crate::sim::{self, quiesce, Recv, SimResult, Wire};
use crate::simops::{self, Single};
use crate::{ensure, fail};
use ldap3::LdapConnAsync;
use proptest::collection::vec;
use proptest::prelude::*;
use serde::{Deserialize, Serialize};
use std::collections::{BTreeSet, HashSet};

const MAX: i32 = i32::MAX;

// ---------------------------------------------------------------- lane A: allocator vs. model

#[derive(Clone, Debug, Serialize, Deserialize)]
pub enum StepA {
    Alloc(u8),
    Release(u16),
}

#[derive(Clone, Debug, Serialize, Deserialize)]
pub struct CaseA {
    last: i32,
    in_use: Vec<i32>,
    steps: Vec<StepA>,
}

fn id_near_edges() -> BoxedStrategy<i32> {
    prop_oneof![4 => (0i32..12).prop_map(|k| MAX - k), 4 => 1i32..12, 1 => 1i32..=MAX].boxed()
}

fn strat_a(_: &Ctx) -> BoxedStrategy<CaseA> {
    let last = prop_oneof![2 => Just(0i32), 1 => Just(1i32), 4 => (0i32..6).prop_map(|k| MAX - k), 2 => 0i32..20, 1 => 0i32..=MAX];
    let in_use = prop_oneof![
        1 => Just(vec![]),
        4 => vec(id_near_edges(), 0..16),
        // contiguous clusters at both ends
        3 => (0i32..10, 0i32..10).prop_map(|(hi, lo)| ((MAX - hi)..MAX).map(|x| x + 1).chain(1..=lo).collect::<Vec<i32>>()),
    ];
    let step = prop_oneof![4 => (0u8..4).prop_map(StepA::Alloc), 1 => any::<u16>().prop_map(StepA::Release)];
    (last, in_use, vec(step, 1..60)).prop_map(|(last, in_use, steps)| CaseA { last, in_use, steps }).boxed()
}

fn model_next(last: i32, in_use: &BTreeSet<i32>) -> i32 {
    // "allocation continues from the low end and skips ids still in use"
    let mut n = last;
    loop {
        n = if n >= MAX { 1 } else { n + 1 };
        if !in_use.contains(&n) {
            return n;
        }
    }
}

pub fn check_a(c: &CaseA, obs: &mut Obs) -> Result<(), Fail> {
    let (_wire, io) = Wire::new();
    let (_conn, ldap) = LdapConnAsync::verif_from_io(Box::new(io));
    let table = ldap.verif_msgmap();
    let mut model: BTreeSet<i32> = c.in_use.iter().copied().collect();
    let mut last = c.last;
    {
        let mut t = table.lock().unwrap();
        t.0 = c.last;
        t.1 = c.in_use.iter().copied().collect();
    }
    let mut handles: Vec<ldap3::Ldap> = (0..4).map(|_| ldap.clone()).collect();
    let mut wrapped_skipping = false;
    let mut max_outstanding = model.len();
    for (k, s) in c.steps.iter().enumerate() {
        match s {
            StepA::Alloc(h) => {
                let want = model_next(last, &model);
                let hnd = &mut handles[*h as usize % 4];
                let got = match crate::runner::guard(|| hnd.verif_next_msgid()) {
                    Ok(g) => g,
                    Err(p) => fail!(panic_sig(&p), "allocator panicked at step {} (last {}, {} in use): {}", k, last, model.len(), p),
                };
                ensure!((1..=MAX).contains(&got), "c05:out-of-range", "step {}: allocator returned {} (last {}, in use {:?})", k, got, last, model.iter().take(20).collect::<Vec<_>>());
                ensure!(!model.contains(&got), "c05:id-in-use-reissued", "step {}: allocator returned {} which is still in use (last {})", k, got, last);
                ensure!(got == want, "c05:not-next-free", "step {}: allocator returned {}, the next free id after {} is {}", k, got, last, want);
                let t = table.lock().unwrap();
                ensure!(t.1.contains(&got), "c05:not-reserved", "step {}: id {} was handed out but not marked in use", k, got);
                ensure!(t.0 == got, "c05:counter", "step {}: counter is {} after handing out {}", k, t.0, got);
                drop(t);
                if got < last && model.iter().any(|x| *x < got || *x > last) {
                    wrapped_skipping = true;
                }
                model.insert(got);
                last = got;
                max_outstanding = max_outstanding.max(model.len());
            }
            StepA::Release(x) => {
                if model.is_empty() {
                    continue;
                }
                let idx = crate::runner::pick_idx(*x, model.len());
                let id = *model.iter().nth(idx).unwrap();
                model.remove(&id);
                table.lock().unwrap().1.remove(&id);
            }
        }
    }
    let t = table.lock().unwrap();
    let lib: BTreeSet<i32> = t.1.iter().copied().collect();
    ensure!(lib == model, "c05:table-diverged", "in-use table {:?} differs from the model {:?}", lib.iter().take(20).collect::<Vec<_>>(), model.iter().take(20).collect::<Vec<_>>());
    if wrapped_skipping {
        obs.label("wrap-skipping-in-use");
    }
    if c.last >= MAX - 6 {
        obs.label("start-near-max");
    }
    if wrapped_skipping || max_outstanding >= 2 {
        obs.nontrivial((c.last, &c.in_use, format!("{:?}", c.steps)));
    }
    Ok(())
}

// ---------------------------------------------------------------- lane B: end to end near the wrap point

/// an id no operation of the lane ever holds (abandon target)
const UNUSED_ID: i32 = 1_000_000_007;

#[derive(Clone, Debug, Serialize, Deserialize)]
pub enum Act {
    /// answer one outstanding request (index picked monotonically)
    AnswerOne(u16),
    AnswerAll,
    /// push responses for the next k ids the allocator will hand out, BEFORE their requests exist or
    /// before the driver has dequeued them (a server answering ahead / late duplicates)
    PrePush(u8),
    /// as after a wrap-around: move the counter just below the lowest outstanding id and start a probe operation
    Rewind,
}

#[derive(Clone, Debug, Serialize, Deserialize)]
pub struct CaseB {
    below_max: u8,
    phantom: Vec<i32>,
    /// per handle: its sequential operations
    handles: Vec<Vec<Single>>,
    /// per operation (flattened, cycled): 0-3 the single operation as listed, 4 a streaming search that stays
    /// open until the server completes it, 5 the single operation preceded by an abandon() of an unused id
    /// (the AbandonRequest needs a message id of its own)
    #[serde(default)]
    kinds: Vec<u8>,
    /// if set, the counter starts here instead of `below_max` below 2^31-1 (octet boundaries of the INTEGER encoding)
    #[serde(default)]
    start: Option<i32>,
    script: Vec<Act>,
    probes: u8,
    chunks: Vec<usize>,
    yields: Vec<bool>,
    sched: u64,
}

fn strat_b(_: &Ctx) -> BoxedStrategy<CaseB> {
    let handle = vec(simops::single_strat(), 1..4);
    let handles = prop_oneof![6 => vec(handle.clone(), 1..6), 1 => vec(handle, 29..40)];
    let act = prop_oneof![4 => any::<u16>().prop_map(Act::AnswerOne), 2 => Just(Act::AnswerAll), 2 => (1u8..6).prop_map(Act::PrePush), 2 => Just(Act::Rewind)];
    (0u8..8, vec(id_near_edges(), 0..8), handles, vec(act, 1..12), 0u8..4, crate::props::c01::chunk_plan(), any::<u64>(), prop_oneof![1 => Just(vec![]), 2 => vec(0u8..6, 1..9)], proptest::option::weighted(0.25, (proptest::sample::select(&[127i32, 128, 255, 256, 32767, 32768, 65535, 65536, 8388607, 8388608, 16777215, 16777216, 1073741823][..]), 0i32..4).prop_map(|(b, d)| b - d)))
        .prop_map(|(below_max, phantom, handles, script, probes, (chunks, yields), sched, kinds, start)| CaseB { below_max, phantom, handles, kinds, start, script, probes, chunks, yields, sched })
        .boxed()
}

pub fn check_b(c: &CaseB, obs: &mut Obs) -> Result<(), Fail> {
    let cc = c.clone();
    let out = sim::run_sim(c.sched, async move {
        use std::sync::{Arc, Mutex};
        let conn = sim::connect();
        {
            let mut t = conn.msgmap.lock().unwrap();
            t.0 = cc.start.unwrap_or(MAX - cc.below_max as i32);
            t.1 = cc.phantom.iter().copied().collect();
        }
        conn.wire.with(|w| {
            w.read_chunks = cc.chunks.clone();
            w.yield_after_chunk = cc.yields.clone();
        });
        let wire = conn.wire.clone();
        let table = conn.msgmap.clone();
        let phantom: HashSet<i64> = cc.phantom.iter().map(|x| *x as i64).collect();
        let completed: Arc<Mutex<HashSet<usize>>> = Arc::new(Mutex::new(HashSet::new()));
        // marker index layout: handle ops first (flattened), then probes
        let mut idx = 0usize;
        let mut tasks = Vec::new();
        let total_ops: usize = cc.handles.iter().map(|h| h.len()).sum();
        let mut problems: Vec<String> = Vec::new();
        let mut crossed = false;
        let mut max_out = 0usize;
        // optional pre-push before any request exists
        let predict = |k: usize| -> Vec<i32> {
            let t = table.lock().unwrap();
            let mut in_use: BTreeSet<i32> = t.1.iter().copied().collect();
            let mut last = t.0;
            let mut v = Vec::new();
            for _ in 0..k {
                let n = model_next(last, &in_use);
                v.push(n);
                in_use.insert(n);
                last = n;
            }
            v
        };
        let mut script = cc.script.clone();
        if let Some(Act::PrePush(k)) = script.first().cloned() {
            for id in predict(k as usize) {
                wire.push(&RespMsg::new(id as i64, Resp::result(11, Res::ok("ahead"))).encode());
            }
            script.remove(0);
        }
        for h in &cc.handles {
            let ops: Vec<(usize, Single, u8)> = h.iter().map(|k| { let i = idx; idx += 1; (i, *k, if cc.kinds.is_empty() { 0 } else { cc.kinds[i % cc.kinds.len()] }) }).collect();
            let mut l = conn.ldap.clone();
            let done = completed.clone();
            tasks.push(tokio::spawn(async move {
                let mut r = Vec::new();
                for (i, k, kind) in ops {
                    if kind == 5 {
                        let _ = l.abandon(UNUSED_ID).await;
                    }
                    if kind == 4 {
                        let mk = simops::marker(i);
                        let mut ok = false;
                        let mut id = 0;
                        if let Ok(mut st) = l.streaming_search(&mk, ldap3::Scope::Subtree, "(a=b)", vec!["a"]).await {
                            id = st.ldap_handle().last_id();
                            loop {
                                match st.next().await {
                                    Ok(Some(_)) => continue,
                                    Ok(None) => {
                                        ok = true;
                                        break;
                                    }
                                    Err(_) => break,
                                }
                            }
                            let _ = st.finish().await;
                        }
                        done.lock().unwrap().insert(i);
                        r.push((i, id, ok));
                        continue;
                    }
                    let res = simops::exec_single(&mut l, k, &simops::marker(i)).await;
                    done.lock().unwrap().insert(i);
                    r.push((i, l.last_id(), res.is_ok()));
                }
                r
            }));
        }
        let probe_go = Arc::new(tokio::sync::Semaphore::new(0));
        for p in 0..cc.probes {
            let i = total_ops + p as usize;
            let mut l = conn.ldap.clone();
            let go = probe_go.clone();
            let done = completed.clone();
            tasks.push(tokio::spawn(async move {
                let permit = go.acquire().await;
                if permit.is_err() {
                    return vec![];
                }
                permit.unwrap().forget();
                let res = simops::exec_single(&mut l, Single::Delete, &simops::marker(i)).await;
                done.lock().unwrap().insert(i);
                vec![(i, l.last_id(), res.is_ok())]
            }));
        }
        // (marker idx, id, response tag)
        let mut arrived: Vec<(usize, i64, u8)> = Vec::new();
        let mut answered: HashSet<usize> = HashSet::new();
        let mut last_seen: Option<i64> = None;
        let mut abandons = 0usize;
        let mut step = 0usize;
        let mut idle = 0;
        loop {
            quiesce().await;
            let done_now: HashSet<usize> = completed.lock().unwrap().clone();
            while let Some(r) = wire.try_recv() {
                if let Recv::Msg(Ok(m), _, _) = r {
                    if let crate::model::Req::Abandon(_) = m.req {
                        // the AbandonRequest travels under an id of its own: same rules
                        abandons += 1;
                        if !(1..=MAX as i64).contains(&m.id) {
                            problems.push(format!("AbandonRequest id {} outside 1..2^31-1", m.id));
                        }
                        if let Some((j, _, _)) = arrived.iter().find(|(j, id, _)| *id == m.id && !done_now.contains(j)) {
                            problems.push(format!("AbandonRequest travels under id {} which operation {} is still outstanding under", m.id, j));
                        }
                        if phantom.contains(&m.id) {
                            problems.push(format!("AbandonRequest id {} was marked in use when it was issued", m.id));
                        }
                        if let Some(prev) = last_seen {
                            if m.id < prev {
                                crossed = true;
                            }
                        }
                        last_seen = Some(m.id);
                        continue;
                    }
                    let Some(i) = simops::marker_index(&m) else { continue };
                    if !(1..=MAX as i64).contains(&m.id) {
                        problems.push(format!("request id {} outside 1..2^31-1", m.id));
                    }
                    if let Some((j, _, _)) = arrived.iter().find(|(j, id, _)| *id == m.id && !done_now.contains(j)) {
                        problems.push(format!("request id {} of operation {} is shared with operation {} which is still outstanding", m.id, i, j));
                    }
                    if phantom.contains(&m.id) {
                        problems.push(format!("request id {} was marked in use when it was issued", m.id));
                    }
                    if let Some(prev) = last_seen {
                        if m.id < prev {
                            crossed = true;
                        }
                    }
                    last_seen = Some(m.id);
                    arrived.push((i, m.id, m.req.response_tag().unwrap_or(11)));
                }
            }
            // every operation still outstanding from the caller's point of view keeps its id reserved
            {
                let t = table.lock().unwrap();
                for (i, id, _) in &arrived {
                    if !done_now.contains(i) && !t.1.contains(&(*id as i32)) {
                        problems.push(format!("operation {} is still outstanding under message id {} but that id is no longer reserved in the id table", i, id));
                    }
                }
            }
            if !problems.is_empty() {
                break;
            }
            let outstanding: Vec<(usize, i64, u8)> = arrived.iter().filter(|(i, _, _)| !done_now.contains(i) && !answered.contains(i)).cloned().collect();
            max_out = max_out.max(outstanding.len());
            if done_now.len() >= total_ops + 0 && outstanding.is_empty() && arrived.len() >= total_ops {
                break;
            }
            let act = if step < script.len() { script[step].clone() } else { Act::AnswerAll };
            step += 1;
            match act {
                Act::PrePush(k) => {
                    for id in predict(k as usize) {
                        wire.push(&RespMsg::new(id as i64, Resp::result(11, Res::ok("ahead"))).encode());
                    }
                }
                Act::Rewind => {
                    if let Some(min) = outstanding.iter().map(|o| o.1).min() {
                        table.lock().unwrap().0 = if min <= 1 { MAX } else { (min - 1) as i32 };
                        probe_go.add_permits(1);
                    }
                }
                Act::AnswerOne(p) => {
                    if !outstanding.is_empty() {
                        let (i, id, tag) = outstanding[crate::runner::pick_idx(p, outstanding.len())];
                        if tag == 5 {
                            wire.push(&RespMsg::new(id, Resp::Entry(crate::model::Entry::simple("cn=e"))).encode());
                        }
                        wire.push(&RespMsg::new(id, Resp::result(tag, Res::ok("ok"))).encode());
                        answered.insert(i);
                    }
                }
                Act::AnswerAll => {
                    let mut b = Vec::new();
                    for (i, id, tag) in outstanding.iter().rev() {
                        b.extend_from_slice(&RespMsg::new(*id, Resp::result(*tag, Res::ok("ok"))).encode());
                        answered.insert(*i);
                    }
                    if b.is_empty() {
                        idle += 1;
                        if idle > 6 {
                            // an operation whose answer was swallowed ahead of time: answer every unfinished one again
                            let mut b2 = Vec::new();
                            for (i, id, tag) in arrived.iter().filter(|(i, _, _)| !done_now.contains(i)) {
                                let _ = i;
                                b2.extend_from_slice(&RespMsg::new(*id, Resp::result(*tag, Res::ok("ok"))).encode());
                            }
                            wire.push(&b2);
                            if idle > 40 {
                                problems.push(format!("history does not finish: {} of {} operations done", done_now.len(), total_ops));
                                break;
                            }
                        }
                    } else {
                        idle = 0;
                        wire.push(&b);
                    }
                }
            }
        }
        // release probes that were never triggered, then finish whatever is still outstanding
        probe_go.close();
        for _ in 0..50 {
            quiesce().await;
            let done_now: HashSet<usize> = completed.lock().unwrap().clone();
            while let Some(r) = wire.try_recv() {
                if let Recv::Msg(Ok(m), _, _) = r {
                    if let Some(i) = simops::marker_index(&m) {
                        arrived.push((i, m.id, m.req.response_tag().unwrap_or(11)));
                    }
                }
            }
            let rest: Vec<&(usize, i64, u8)> = arrived.iter().filter(|(i, _, _)| !done_now.contains(i)).collect();
            if rest.is_empty() {
                break;
            }
            let mut b = Vec::new();
            for (_, id, tag) in rest {
                b.extend_from_slice(&RespMsg::new(*id, Resp::result(*tag, Res::ok("ok"))).encode());
            }
            wire.push(&b);
        }
        let mut results = Vec::new();
        for t in tasks {
            match tokio::time::timeout(std::time::Duration::from_secs(3600), t).await {
                Ok(Ok(v)) => results.extend(v),
                Ok(Err(_)) => results.push((usize::MAX, -1, false)),
                Err(_) => results.push((usize::MAX, -2, false)),
            }
        }
        let ids: Vec<i64> = arrived.iter().map(|a| a.1).collect();
        (results, problems, ids, crossed, max_out, abandons)
    });
    let (results, problems, ids, crossed, max_out, abandons) = match out {
        SimResult::Done(v) => v,
        SimResult::Hang => fail!("c05:hang", "operations near the wrap-around point never completed"),
    };
    if results.iter().any(|r| r.1 == -1) {
        let p = crate::runner::take_panics();
        fail!(p.first().map(|p| panic_sig(p)).unwrap_or("c05:panic".into()), "an operation panicked near the wrap-around point: {:?}", p);
    }
    ensure!(problems.is_empty(), "c05:wire-id", "{:?} (ids on the wire: {:?})", problems, ids);
    ensure!(!results.iter().any(|r| r.1 == -2), "c05:hang", "an operation never completed");
    ensure!(results.iter().all(|r| r.2), "c05:op-failed", "an operation failed: {:?}", results);
    if max_out >= 29 {
        obs.label("burst>=29-outstanding");
    }
    if c.script.iter().any(|a| matches!(a, Act::PrePush(_))) {
        obs.label("responses-ahead-of-requests");
    }
    if c.script.iter().any(|a| matches!(a, Act::Rewind)) && c.probes > 0 {
        obs.label("rewind-with-probe");
    }
    if crossed {
        obs.label("crossed-wrap-point");
    }
    if c.start.is_some() {
        obs.label("start-at-octet-boundary");
    }
    if abandons > 0 {
        obs.label("abandon-requests-id-checked");
    }
    if c.kinds.iter().any(|k| *k == 4) {
        obs.label("open-search-among-operations");
    }
    if crossed || max_out >= 2 {
        obs.nontrivial((c.below_max, &c.phantom, format!("{:?}{:?}", c.handles, c.script)));
    }
    Ok(())
}

// ---------------------------------------------------------------- lane C: real threads

#[derive(Clone, Debug, Serialize, Deserialize)]
pub struct CaseC {
    threads: u8,
    per_thread: u32,
    below_max: u32,
}

fn strat_c(_: &Ctx) -> BoxedStrategy<CaseC> {
    (2u8..=16, prop_oneof![500u32..3000, 3000u32..20000], prop_oneof![Just(0u32), 0u32..40000, Just(u32::MAX)]).prop_map(|(threads, per_thread, below_max)| CaseC { threads, per_thread, below_max }).boxed()
}

pub fn check_c(c: &CaseC, obs: &mut Obs) -> Result<(), Fail> {
    let (_wire, io) = Wire::new();
    let (_conn, ldap) = LdapConnAsync::verif_from_io(Box::new(io));
    let table = ldap.verif_msgmap();
    table.lock().unwrap().0 = if c.below_max == u32::MAX { 0 } else { MAX - c.below_max as i32 };
    let per = c.per_thread as usize;
    let all: Vec<Vec<i32>> = std::thread::scope(|s| {
        let hs: Vec<_> = (0..c.threads)
            .map(|_| {
                let mut l = ldap.clone();
                s.spawn(move || {
                    let mut v = Vec::with_capacity(per);
                    for _ in 0..per {
                        v.push(l.verif_next_msgid());
                    }
                    v
                })
            })
            .collect();
        hs.into_iter().map(|h| h.join().unwrap_or_default()).collect()
    });
    let total: usize = all.iter().map(|v| v.len()).sum();
    ensure!(total == per * c.threads as usize, "c05:thread-panic", "an allocating thread panicked");
    let mut seen = HashSet::with_capacity(total);
    for (t, v) in all.iter().enumerate() {
        for id in v {
            ensure!((1..=MAX).contains(id), "c05:out-of-range", "thread {} got id {}", t, id);
            ensure!(seen.insert(*id), "c05:duplicate-under-threads", "id {} was handed out twice while still in use ({} threads x {} allocations, start {} below MAX)", id, c.threads, c.per_thread, c.below_max);
        }
    }
    ensure!(table.lock().unwrap().1.len() == total, "c05:table-diverged", "{} ids handed out, {} reserved", total, table.lock().unwrap().1.len());
    obs.evals(total as u64);
    if (c.below_max as usize) < total {
        obs.label("threads-cross-wrap-point");
    }
    obs.nontrivial((c.threads, c.per_thread, c.below_max));
    Ok(())
}


// ---------------------------------------------------------------- lane D: an id given up by a timeout
//
// A timed-out operation's id is released by the DRIVER (when it handles the scrub request), not by the caller. Here
// the next operation is started in the very instant the timeout fires - before the driver task has run - with the
// counter positioned just below the timed-out id (as after a wrap-around); a third one is started the same way below
// the second's id. No operation may be given the id of one that is outstanding, every outstanding id stays reserved,
// and each answered operation gets its own answer.

#[derive(Clone, Debug, Serialize, Deserialize)]
pub struct CaseD {
    start: i32,
    pre: u8,
    timeout_ms: u64,
    queued: bool,
    kinds: [Single; 3],
    sched: u64,
}

fn strat_d(_: &Ctx) -> BoxedStrategy<CaseD> {
    let start = prop_oneof![3 => 0i32..20, 1 => 125i32..130, 2 => (MAX - 6)..=MAX];
    (start, 0u8..3, 5u64..300, any::<bool>(), [simops::single_strat(), simops::single_strat(), simops::single_strat()], any::<u64>())
        .prop_map(|(start, pre, timeout_ms, queued, kinds, sched)| CaseD { start, pre, timeout_ms, queued, kinds, sched })
        .boxed()
}

pub fn check_d(c: &CaseD, obs: &mut Obs) -> Result<(), Fail> {
    let cc = c.clone();
    let out = sim::run_sim(c.sched, async move {
        let conn = sim::connect();
        conn.msgmap.lock().unwrap().0 = cc.start;
        let wire = conn.wire.clone();
        let mm = conn.msgmap.clone();
        let answer = |wire: &Wire, want: &[usize], kinds: &[Single; 3]| -> Vec<(usize, i64)> {
            // answer the requests of the wanted operations, ignore the others
            let mut got = Vec::new();
            while let Some(r) = wire.try_recv() {
                if let Recv::Msg(Ok(m), _, _) = r {
                    if let Some(i) = simops::marker_index(&m) {
                        if want.contains(&i) {
                            let tag = if i >= 10 { Single::Compare.resp_tag() } else { kinds[i].resp_tag() };
                            wire.push(&RespMsg::new(m.id, Resp::result(tag, Res::ok(&format!("tok-{}", i)))).encode());
                        }
                        got.push((i, m.id));
                    }
                }
            }
            got
        };
        let mut la = conn.ldap.clone();
        let (mk1, mk2) = (simops::marker(1), simops::marker(2));
        // some answered operations first
        for j in 0..cc.pre as usize {
            let mk = simops::marker(10 + j);
            let mut f = Box::pin(simops::exec_single(&mut la, Single::Compare, &mk));
            if futures_util::poll!(f.as_mut()).is_ready() {
                return Err(("c05:server-problem".to_string(), "an unanswered operation completed".to_string()));
            }
            quiesce().await;
            answer(&wire, &[10 + j], &cc.kinds);
            if f.await.is_err() {
                return Err(("c05:server-problem".to_string(), "a plain answered operation failed".to_string()));
            }
        }
        if cc.queued {
            wire.block_writes(true);
        }
        la.with_timeout(std::time::Duration::from_millis(cc.timeout_ms));
        let ra = simops::exec_single(&mut la, cc.kinds[0], &simops::marker(0)).await;
        if !matches!(ra, Err(ldap3::LdapError::Timeout { .. })) {
            return Err(("c05:server-problem".to_string(), format!("the unanswered operation did not time out: {:?}", ra.map(|r| r.rc).map_err(|e| sim::err_kind(&e)))));
        }
        let id_a = la.last_id();
        // --- no await from here to the first poll of B: the driver has not seen the scrub request yet
        mm.lock().unwrap().0 = id_a - 1;
        let mut lb = conn.ldap.clone();
        let mut fb = Box::pin(simops::exec_single(&mut lb, cc.kinds[1], &mk1));
        if futures_util::poll!(fb.as_mut()).is_ready() {
            return Err(("c05:server-problem".to_string(), "an unanswered operation completed".to_string()));
        }
        let id_b = mm.lock().unwrap().0;
        wire.block_writes(false);
        quiesce().await;
        let b_reserved = mm.lock().unwrap().1.contains(&id_b);
        // C: started below B's id while B is outstanding
        mm.lock().unwrap().0 = if id_b > 1 { id_b - 1 } else { MAX };
        let mut lc = conn.ldap.clone();
        let mut fc = Box::pin(simops::exec_single(&mut lc, cc.kinds[2], &mk2));
        if futures_util::poll!(fc.as_mut()).is_ready() {
            return Err(("c05:server-problem".to_string(), "an unanswered operation completed".to_string()));
        }
        let id_c = mm.lock().unwrap().0;
        quiesce().await;
        let seen = answer(&wire, &[1, 2], &cc.kinds);
        let rb = tokio::time::timeout(std::time::Duration::from_secs(3600), fb).await;
        let rc = tokio::time::timeout(std::time::Duration::from_secs(3600), fc).await;
        let txt = |r: Result<Result<ldap3::LdapResult, ldap3::LdapError>, tokio::time::error::Elapsed>| match r {
            Ok(Ok(r)) => r.text,
            Ok(Err(e)) => format!("error:{}", sim::err_kind(&e)),
            Err(_) => "never-answered".to_string(),
        };
        Ok((id_a, id_b, id_c, b_reserved, txt(rb), txt(rc), seen))
    });
    let (id_a, id_b, id_c, b_reserved, rb, rc, seen) = match out {
        SimResult::Done(Ok(v)) => v,
        SimResult::Done(Err((sig, msg))) => return Err(Fail::new(sig, msg)),
        SimResult::Hang => fail!("c05:hang", "history never completed"),
    };
    for id in [id_a, id_b, id_c] {
        ensure!((1..=MAX).contains(&id), "c05:out-of-range", "id {} handed out", id);
    }
    // (B being given A's id is not itself the violation - A is over for its caller; what follows from it is)
    ensure!(b_reserved, "c05:outstanding-id-not-reserved", "the id {} of an outstanding operation is no longer reserved after the driver handled the timeout of operation {}", id_b, id_a);
    ensure!(id_c != id_b, "c05:duplicate-in-flight", "id {} was handed out again while its operation is outstanding", id_b);
    let wb: Vec<i64> = seen.iter().filter(|x| x.0 == 1).map(|x| x.1).collect();
    let wc: Vec<i64> = seen.iter().filter(|x| x.0 == 2).map(|x| x.1).collect();
    ensure!(wb == vec![id_b as i64] && wc == vec![id_c as i64], "c05:wire-id", "requests arrived under ids {:?} / {:?}, allocated {} / {}", wb, wc, id_b, id_c);
    ensure!(rb == "tok-1" && rc == "tok-2", "c05:wrong-answer", "operations under ids {} and {} observed {:?} and {:?}", id_b, id_c, rb, rc);
    obs.label(if c.queued { "timed-out-request-still-queued" } else { "timed-out-request-written" });
    if id_b < id_a || id_c < id_b || id_a == MAX {
        obs.label("wraps");
    }
    obs.nontrivial((c.start, c.pre, c.timeout_ms, c.queued, format!("{:?}", c.kinds)));
    Ok(())
}

pub fn property() -> Property {
    Property {
        id: "C05",
        level: "exploration",
        rule: "lanes: allocator (start state: counter anywhere in 0..2^31-1 biased to 0, 1 and MAX-5..MAX; in-use set arbitrary, biased to clusters at both ends of the id space; then 1-60 steps of allocate-on-handle-h / release-id as the driver does; each allocation must be in 1..MAX, not in use, equal to the reference model 'next free id after the last one in cyclic order', and be reserved); e2e (simulated connection with the counter positioned 0-7 below MAX and phantom in-use ids; 1-40 handles each issuing 1-3 sequential operations, read segmentation with forced yields; a generated server script of answer-one / answer-all / push responses AHEAD for the ids the allocator will hand out next / rewind the counter below the lowest outstanding id and start a probe operation; at every quiescent point every arriving request id must be in range, differ from the id of every operation still outstanding from the caller's point of view and from the phantom set, and every outstanding operation's id must still be reserved in the id table); threads (2-16 OS threads x 500-20000 allocations on clones sharing one table, starting at or below the wrap point, no releases: no id may be handed out twice); timeout-release (an operation times out - its request written or still queued behind a blocked socket - and in that very instant, before the driver task has run, a second operation is started with the counter just below the timed-out id, then a third just below the second's: no outstanding operation's id is handed out again, outstanding ids stay reserved after the driver has handled the timeout, wire ids equal the allocated ones, each operation gets its own answer). Non-trivial: an allocation that wraps MAX->1 while ids are in use, or >=2 ids outstanding at once; e2e histories with >=2 operations outstanding or crossing the wrap point; every thread run. Distinct = hash of the case.",
        assumptions: &["hooks verif_msgmap / verif_next_msgid drive the real allocator and table", "interleavings inside the allocator's critical section are sampled by the real-thread lane, not enumerated"],
        lanes: vec![
            Box::new(PLane { name: "allocator", cases: |t| t.pick(4_000, 80_000), strat: strat_a, check: check_a }),
            Box::new(PLane { name: "e2e", cases: |t| t.pick(500, 8_000), strat: strat_b, check: check_b }),
            Box::new(PLane { name: "threads", cases: |t| t.pick(3, 30), strat: strat_c, check: check_c }),
            Box::new(PLane { name: "timeout-release", cases: |t| t.pick(600, 10_000), strat: strat_d, check: check_d }),
        ],
        workers: (4, 8),
    }
}
