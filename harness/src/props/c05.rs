//! C05 — in-flight operations never share a message ID; IDs stay within 1..2^31-1.

use crate::model::{Res, Resp, RespMsg};
use crate::runner::{panic_sig, Ctx, Fail, Obs, PLane, Property};
use crate::sim::{self, quiesce, Recv, SimResult, Wire};
use crate::simops::{self, Single};
use crate::{ensure, fail};
use ldap3::LdapConnAsync;
use proptest::collection::vec;
use proptest::prelude::*;
use serde::{Deserialize, Serialize};
use std::collections::{BTreeSet, HashSet};

const MAX: i32 = i32::MAX;

// ---------------------------------------------------------------- lane A: allocator vs. model

#[derive(Clone, Debug, Serialize, Deserialize)]
pub enum StepA {
    Alloc(u8),
    Release(u16),
}

#[derive(Clone, Debug, Serialize, Deserialize)]
pub struct CaseA {
    last: i32,
    in_use: Vec<i32>,
    steps: Vec<StepA>,
}

fn id_near_edges() -> BoxedStrategy<i32> {
    prop_oneof![4 => (0i32..12).prop_map(|k| MAX - k), 4 => 1i32..12, 1 => 1i32..=MAX].boxed()
}

fn strat_a(_: &Ctx) -> BoxedStrategy<CaseA> {
    let last = prop_oneof![2 => Just(0i32), 1 => Just(1i32), 4 => (0i32..6).prop_map(|k| MAX - k), 2 => 0i32..20, 1 => 0i32..=MAX];
    let in_use = prop_oneof![
        1 => Just(vec![]),
        4 => vec(id_near_edges(), 0..16),
        // contiguous clusters at both ends
        3 => (0i32..10, 0i32..10).prop_map(|(hi, lo)| ((MAX - hi)..MAX).map(|x| x + 1).chain(1..=lo).collect::<Vec<i32>>()),
    ];
    let step = prop_oneof![4 => (0u8..4).prop_map(StepA::Alloc), 1 => any::<u16>().prop_map(StepA::Release)];
    (last, in_use, vec(step, 1..60)).prop_map(|(last, in_use, steps)| CaseA { last, in_use, steps }).boxed()
}

fn model_next(last: i32, in_use: &BTreeSet<i32>) -> i32 {
    // "allocation continues from the low end and skips ids still in use"
    let mut n = last;
    loop {
        n = if n >= MAX { 1 } else { n + 1 };
        if !in_use.contains(&n) {
            return n;
        }
    }
}

pub fn check_a(c: &CaseA, obs: &mut Obs) -> Result<(), Fail> {
    let (_wire, io) = Wire::new();
    let (_conn, ldap) = LdapConnAsync::verif_from_io(Box::new(io));
    let table = ldap.verif_msgmap();
    let mut model: BTreeSet<i32> = c.in_use.iter().copied().collect();
    let mut last = c.last;
    {
        let mut t = table.lock().unwrap();
        t.0 = c.last;
        t.1 = c.in_use.iter().copied().collect();
    }
    let mut handles: Vec<ldap3::Ldap> = (0..4).map(|_| ldap.clone()).collect();
    let mut wrapped_skipping = false;
    let mut max_outstanding = model.len();
    for (k, s) in c.steps.iter().enumerate() {
        match s {
            StepA::Alloc(h) => {
                let want = model_next(last, &model);
                let hnd = &mut handles[*h as usize % 4];
                let got = match crate::runner::guard(|| hnd.verif_next_msgid()) {
                    Ok(g) => g,
                    Err(p) => fail!(panic_sig(&p), "allocator panicked at step {} (last {}, {} in use): {}", k, last, model.len(), p),
                };
                ensure!((1..=MAX).contains(&got), "c05:out-of-range", "step {}: allocator returned {} (last {}, in use {:?})", k, got, last, model.iter().take(20).collect::<Vec<_>>());
                ensure!(!model.contains(&got), "c05:id-in-use-reissued", "step {}: allocator returned {} which is still in use (last {})", k, got, last);
                ensure!(got == want, "c05:not-next-free", "step {}: allocator returned {}, the next free id after {} is {}", k, got, last, want);
                let t = table.lock().unwrap();
                ensure!(t.1.contains(&got), "c05:not-reserved", "step {}: id {} was handed out but not marked in use", k, got);
                ensure!(t.0 == got, "c05:counter", "step {}: counter is {} after handing out {}", k, t.0, got);
                drop(t);
                if got < last && model.iter().any(|x| *x < got || *x > last) {
                    wrapped_skipping = true;
                }
                model.insert(got);
                last = got;
                max_outstanding = max_outstanding.max(model.len());
            }
            StepA::Release(x) => {
                if model.is_empty() {
                    continue;
                }
                let idx = crate::runner::pick_idx(*x, model.len());
                let id = *model.iter().nth(idx).unwrap();
                model.remove(&id);
                table.lock().unwrap().1.remove(&id);
            }
        }
    }
    let t = table.lock().unwrap();
    let lib: BTreeSet<i32> = t.1.iter().copied().collect();
    ensure!(lib == model, "c05:table-diverged", "in-use table {:?} differs from the model {:?}", lib.iter().take(20).collect::<Vec<_>>(), model.iter().take(20).collect::<Vec<_>>());
    if wrapped_skipping {
        obs.label("wrap-skipping-in-use");
    }
    if c.last >= MAX - 6 {
        obs.label("start-near-max");
    }
    if wrapped_skipping || max_outstanding >= 2 {
        obs.nontrivial((c.last, &c.in_use, format!("{:?}", c.steps)));
    }
    Ok(())
}

// ---------------------------------------------------------------- lane B: end to end near the wrap point

#[derive(Clone, Debug, Serialize, Deserialize)]
pub struct CaseB {
    below_max: u8,
    phantom: Vec<i32>,
    waves: Vec<Vec<(u8, Single)>>,
    sched: u64,
}

fn strat_b(_: &Ctx) -> BoxedStrategy<CaseB> {
    let wave = vec((0u8..4, simops::single_strat()), 1..6);
    (0u8..8, vec(id_near_edges(), 0..8), vec(wave, 1..4), any::<u64>()).prop_map(|(below_max, phantom, waves, sched)| CaseB { below_max, phantom, waves, sched }).boxed()
}

pub fn check_b(c: &CaseB, obs: &mut Obs) -> Result<(), Fail> {
    let cc = c.clone();
    let out = sim::run_sim(c.sched, async move {
        let conn = sim::connect();
        {
            let mut t = conn.msgmap.lock().unwrap();
            t.0 = MAX - cc.below_max as i32;
            t.1 = cc.phantom.iter().copied().collect();
        }
        let wire = conn.wire.clone();
        let phantom: HashSet<i64> = cc.phantom.iter().map(|x| *x as i64).collect();
        let waves = cc.waves.clone();
        let srv = tokio::spawn(async move {
            let mut problems = Vec::new();
            let mut all_ids: Vec<i64> = Vec::new();
            let mut crossed = false;
            for w in &waves {
                // ops of one handle are sequential; answer whenever nothing else can happen
                let mut answered = 0usize;
                let mut outstanding: Vec<(i64, u8)> = Vec::new();
                let mut max_out = 0;
                while answered < w.len() {
                    quiesce().await;
                    while let Some(r) = wire.try_recv() {
                        if let Recv::Msg(Ok(m), _, _) = r {
                            if !(1..=MAX as i64).contains(&m.id) {
                                problems.push(format!("request id {} outside 1..2^31-1", m.id));
                            }
                            if outstanding.iter().any(|(i, _)| *i == m.id) {
                                problems.push(format!("request id {} is shared by two outstanding operations", m.id));
                            }
                            if phantom.contains(&m.id) {
                                problems.push(format!("request id {} was marked in use when it was issued", m.id));
                            }
                            if let Some(prev) = all_ids.last() {
                                if m.id < *prev {
                                    crossed = true;
                                }
                            }
                            all_ids.push(m.id);
                            outstanding.push((m.id, m.req.response_tag().unwrap_or(11)));
                        }
                    }
                    max_out = max_out.max(outstanding.len());
                    if outstanding.is_empty() {
                        problems.push("wave stalled: no request arrived".to_string());
                        break;
                    }
                    // answer the newest first so that completion order differs from issue order
                    let (id, tag) = outstanding.pop().unwrap();
                    wire.push(&RespMsg::new(id, Resp::result(tag, Res::ok("ok"))).encode());
                    answered += 1;
                }
                if max_out >= 2 {
                    crossed |= false;
                }
            }
            (problems, all_ids, crossed)
        });
        let mut results = Vec::new();
        let mut idx = 0usize;
        for w in &cc.waves {
            let mut by_handle: std::collections::BTreeMap<u8, Vec<(usize, Single)>> = Default::default();
            for (h, k) in w {
                by_handle.entry(*h).or_default().push((idx, *k));
                idx += 1;
            }
            let mut tasks = Vec::new();
            for (_, ops) in by_handle {
                let mut l = conn.ldap.clone();
                tasks.push(tokio::spawn(async move {
                    let mut r = Vec::new();
                    for (i, k) in ops {
                        let res = simops::exec_single(&mut l, k, &simops::marker(i)).await;
                        r.push((l.last_id(), res.is_ok()));
                    }
                    r
                }));
            }
            for t in tasks {
                match t.await {
                    Ok(v) => results.extend(v),
                    Err(_) => results.push((-1, false)),
                }
            }
        }
        let (problems, ids, crossed) = srv.await.expect("server");
        (results, problems, ids, crossed)
    });
    let (results, problems, ids, crossed) = match out {
        SimResult::Done(v) => v,
        SimResult::Hang => fail!("c05:hang", "operations near the wrap-around point never completed"),
    };
    if results.iter().any(|r| r.0 == -1) {
        let p = crate::runner::take_panics();
        fail!(p.first().map(|p| panic_sig(p)).unwrap_or("c05:panic".into()), "an operation panicked near the wrap-around point: {:?}", p);
    }
    ensure!(problems.is_empty(), "c05:wire-id", "{:?} (ids on the wire: {:?})", problems, ids);
    ensure!(results.iter().all(|r| r.1), "c05:op-failed", "an operation failed: {:?}", results);
    if crossed {
        obs.label("crossed-wrap-point");
        obs.nontrivial((c.below_max, &c.phantom, format!("{:?}", c.waves)));
    }
    Ok(())
}

// ---------------------------------------------------------------- lane C: real threads

#[derive(Clone, Debug, Serialize, Deserialize)]
pub struct CaseC {
    threads: u8,
    per_thread: u32,
    below_max: u32,
}

fn strat_c(_: &Ctx) -> BoxedStrategy<CaseC> {
    (2u8..=16, prop_oneof![500u32..3000, 3000u32..20000], prop_oneof![Just(0u32), 0u32..40000, Just(u32::MAX)]).prop_map(|(threads, per_thread, below_max)| CaseC { threads, per_thread, below_max }).boxed()
}

pub fn check_c(c: &CaseC, obs: &mut Obs) -> Result<(), Fail> {
    let (_wire, io) = Wire::new();
    let (_conn, ldap) = LdapConnAsync::verif_from_io(Box::new(io));
    let table = ldap.verif_msgmap();
    table.lock().unwrap().0 = if c.below_max == u32::MAX { 0 } else { MAX - c.below_max as i32 };
    let per = c.per_thread as usize;
    let all: Vec<Vec<i32>> = std::thread::scope(|s| {
        let hs: Vec<_> = (0..c.threads)
            .map(|_| {
                let mut l = ldap.clone();
                s.spawn(move || {
                    let mut v = Vec::with_capacity(per);
                    for _ in 0..per {
                        v.push(l.verif_next_msgid());
                    }
                    v
                })
            })
            .collect();
        hs.into_iter().map(|h| h.join().unwrap_or_default()).collect()
    });
    let total: usize = all.iter().map(|v| v.len()).sum();
    ensure!(total == per * c.threads as usize, "c05:thread-panic", "an allocating thread panicked");
    let mut seen = HashSet::with_capacity(total);
    for (t, v) in all.iter().enumerate() {
        for id in v {
            ensure!((1..=MAX).contains(id), "c05:out-of-range", "thread {} got id {}", t, id);
            ensure!(seen.insert(*id), "c05:duplicate-under-threads", "id {} was handed out twice while still in use ({} threads x {} allocations, start {} below MAX)", id, c.threads, c.per_thread, c.below_max);
        }
    }
    ensure!(table.lock().unwrap().1.len() == total, "c05:table-diverged", "{} ids handed out, {} reserved", total, table.lock().unwrap().1.len());
    obs.evals(total as u64);
    if (c.below_max as usize) < total {
        obs.label("threads-cross-wrap-point");
    }
    obs.nontrivial((c.threads, c.per_thread, c.below_max));
    Ok(())
}

pub fn property() -> Property {
    Property {
        id: "C05",
        level: "exploration",
        rule: "lanes: allocator (start state: counter anywhere in 0..2^31-1 biased to 0, 1 and MAX-5..MAX; in-use set arbitrary, biased to clusters at both ends of the id space; then 1-60 steps of allocate-on-handle-h / release-id as the driver does; each allocation must be in 1..MAX, not in use, equal to the reference model 'next free id after the last one in cyclic order', and be reserved); e2e (simulated connection with the counter positioned 0-7 below MAX and phantom in-use ids; waves of concurrent operations from up to 4 handles, the server checks every arriving request id is in range, differs from every unanswered one and from the phantom set, and answers newest-first); threads (2-16 OS threads x 500-20000 allocations on clones sharing one table, starting at or below the wrap point, no releases: no id may be handed out twice). Non-trivial: an allocation that wraps MAX->1 while ids are in use, or >=2 ids outstanding at once; e2e histories that cross the wrap point; every thread run. Distinct = hash of the case.",
        assumptions: &["hooks verif_msgmap / verif_next_msgid drive the real allocator and table", "interleavings inside the allocator's critical section are sampled by the real-thread lane, not enumerated"],
        lanes: vec![
            Box::new(PLane { name: "allocator", cases: |t| t.pick(4_000, 80_000), strat: strat_a, check: check_a }),
            Box::new(PLane { name: "e2e", cases: |t| t.pick(500, 8_000), strat: strat_b, check: check_b }),
            Box::new(PLane { name: "threads", cases: |t| t.pick(3, 30), strat: strat_c, check: check_c }),
        ],
        workers: (4, 8),
    }
}
