//! Independent BER reader/writer (definite lengths, tag numbers <= 30).
//! Shares no code with `lber`; this is part of the trusted base of the oracles.

use serde::{Deserialize, Serialize};

pub const UNIVERSAL: u8 = 0;
pub const APPLICATION: u8 = 1;
pub const CONTEXT: u8 = 2;
pub const PRIVATE: u8 = 3;

#[derive(Clone, Debug, PartialEq, Eq, Hash, Serialize, Deserialize)]
pub enum Body {
    Prim(Vec<u8>),
    Cons(Vec<Tlv>),
}

#[derive(Clone, Debug, PartialEq, Eq, Hash, Serialize, Deserialize)]
pub struct Tlv {
    pub class: u8,
    pub tag: u8,
    pub body: Body,
}

impl Tlv {
    pub fn prim(class: u8, tag: u8, v: impl Into<Vec<u8>>) -> Tlv {
        Tlv { class, tag, body: Body::Prim(v.into()) }
    }
    pub fn cons(class: u8, tag: u8, v: Vec<Tlv>) -> Tlv {
        Tlv { class, tag, body: Body::Cons(v) }
    }
    pub fn octets(v: impl Into<Vec<u8>>) -> Tlv {
        Tlv::prim(UNIVERSAL, 4, v)
    }
    pub fn seq(v: Vec<Tlv>) -> Tlv {
        Tlv::cons(UNIVERSAL, 16, v)
    }
    pub fn set(v: Vec<Tlv>) -> Tlv {
        Tlv::cons(UNIVERSAL, 17, v)
    }
    pub fn int(v: i64) -> Tlv {
        Tlv::prim(UNIVERSAL, 2, int_content(v))
    }
    pub fn enumerated(v: i64) -> Tlv {
        Tlv::prim(UNIVERSAL, 10, int_content(v))
    }
    pub fn boolean(b: bool) -> Tlv {
        Tlv::prim(UNIVERSAL, 1, vec![if b { 0xFF } else { 0 }])
    }
    pub fn is(&self, class: u8, tag: u8) -> bool {
        self.class == class && self.tag == tag
    }
    pub fn as_prim(&self) -> Option<&[u8]> {
        match &self.body {
            Body::Prim(v) => Some(v),
            _ => None,
        }
    }
    pub fn as_cons(&self) -> Option<&[Tlv]> {
        match &self.body {
            Body::Cons(v) => Some(v),
            _ => None,
        }
    }
    /// number of nodes in the tree
    pub fn nodes(&self) -> usize {
        match &self.body {
            Body::Prim(_) => 1,
            Body::Cons(v) => 1 + v.iter().map(|t| t.nodes()).sum::<usize>(),
        }
    }
    pub fn depth(&self) -> usize {
        match &self.body {
            Body::Prim(_) => 1,
            Body::Cons(v) => 1 + v.iter().map(|t| t.depth()).max().unwrap_or(0),
        }
    }
}

/// Shortest two's-complement content octets of `v` (X.690 8.3), computed
/// without reference to the library: drop leading octets while the first nine
/// bits are all equal.
pub fn int_content(v: i64) -> Vec<u8> {
    let b = v.to_be_bytes();
    let mut start = 0usize;
    while start < 7 {
        let first = b[start];
        let next_top = b[start + 1] & 0x80;
        if (first == 0x00 && next_top == 0) || (first == 0xFF && next_top != 0) {
            start += 1;
        } else {
            break;
        }
    }
    b[start..].to_vec()
}

/// Decode two's-complement content octets (1..=8) to i64; None if empty/too long.
pub fn int_value(c: &[u8]) -> Option<i64> {
    if c.is_empty() || c.len() > 8 {
        return None;
    }
    let mut v: i64 = if c[0] & 0x80 != 0 { -1 } else { 0 };
    for &b in c {
        v = (v << 8) | b as i64;
    }
    Some(v)
}

/// true iff content octets are the minimal encoding of some integer
pub fn int_is_minimal(c: &[u8]) -> bool {
    match int_value(c) {
        Some(v) => int_content(v) == c,
        None => false,
    }
}

fn push_len_minimal(out: &mut Vec<u8>, len: usize) {
    if len < 128 {
        out.push(len as u8);
    } else {
        let b = (len as u64).to_be_bytes();
        let skip = b.iter().take_while(|&&x| x == 0).count();
        out.push(0x80 | (8 - skip) as u8);
        out.extend_from_slice(&b[skip..]);
    }
}

/// Length forms: 0 = minimal; f>=1 = long form with (f-1) superfluous leading
/// zero octets in front of the minimal big-endian length (so f=1 on len<128 is
/// `81 len`). At most 126 length octets are ever produced.
fn push_len_form(out: &mut Vec<u8>, len: usize, form: u8) {
    if form == 0 {
        return push_len_minimal(out, len);
    }
    let b = (len as u64).to_be_bytes();
    let mut skip = b.iter().take_while(|&&x| x == 0).count();
    if skip == 8 {
        skip = 7; // len 0 still needs one octet in long form
    }
    let zeros = (form - 1) as usize;
    let n = (8 - skip + zeros).min(126);
    let zeros = n - (8 - skip);
    out.push(0x80 | n as u8);
    out.extend(std::iter::repeat(0u8).take(zeros));
    out.extend_from_slice(&b[skip..]);
}

/// Source of length-form choices, consumed in pre-order, cycled.
pub struct Forms<'a> {
    f: &'a [u8],
    i: usize,
    pub nonminimal_used: usize,
}

impl<'a> Forms<'a> {
    pub fn new(f: &'a [u8]) -> Self {
        Forms { f, i: 0, nonminimal_used: 0 }
    }
    fn next(&mut self) -> u8 {
        if self.f.is_empty() {
            return 0;
        }
        let v = self.f[self.i % self.f.len()];
        self.i += 1;
        if v != 0 {
            self.nonminimal_used += 1;
        }
        v
    }
}

pub fn encode(t: &Tlv) -> Vec<u8> {
    let mut out = Vec::new();
    encode_into(t, &mut out, &mut Forms::new(&[]));
    out
}

pub fn encode_forms(t: &Tlv, forms: &[u8]) -> Vec<u8> {
    let mut out = Vec::new();
    encode_into(t, &mut out, &mut Forms::new(forms));
    out
}

pub fn encode_into(t: &Tlv, out: &mut Vec<u8>, forms: &mut Forms) {
    assert!(t.class < 4 && t.tag <= 30, "harness BER writer: tag out of range");
    let form = forms.next();
    match &t.body {
        Body::Prim(v) => {
            out.push((t.class << 6) | t.tag);
            push_len_form(out, v.len(), form);
            out.extend_from_slice(v);
        }
        Body::Cons(ch) => {
            out.push((t.class << 6) | 0x20 | t.tag);
            let mut inner = Vec::new();
            for c in ch {
                encode_into(c, &mut inner, forms);
            }
            push_len_form(out, inner.len(), form);
            out.extend_from_slice(&inner);
        }
    }
}

#[derive(Clone, Debug, PartialEq, Eq)]
pub enum Parsed {
    /// tree and number of bytes consumed
    Complete(Tlv, usize),
    /// a proper prefix of a possibly valid encoding
    Incomplete,
    Invalid(&'static str),
}

/// Header: Ok(Some((header_len, content_len, constructed))) / Ok(None)=incomplete / Err=invalid
pub fn header(b: &[u8]) -> Result<Option<(usize, usize, bool, u8, u8)>, &'static str> {
    if b.is_empty() {
        return Ok(None);
    }
    let id = b[0];
    let class = id >> 6;
    let cons = id & 0x20 != 0;
    let tag = id & 0x1F;
    if tag == 31 {
        return Err("high tag number");
    }
    if b.len() < 2 {
        return Ok(None);
    }
    let l0 = b[1];
    if l0 < 0x80 {
        return Ok(Some((2, l0 as usize, cons, class, tag)));
    }
    if l0 == 0x80 {
        return Err("indefinite length");
    }
    if l0 == 0xFF {
        return Err("reserved length octet");
    }
    let n = (l0 & 0x7F) as usize;
    if b.len() < 2 + n {
        // can still decide invalidity only when all octets are known
        return Ok(None);
    }
    let mut len: u64 = 0;
    for &x in &b[2..2 + n] {
        if len >> 56 != 0 {
            return Err("length overflow");
        }
        len = (len << 8) | x as u64;
    }
    if len > (usize::MAX / 2) as u64 {
        return Err("length overflow");
    }
    Ok(Some((2 + n, len as usize, cons, class, tag)))
}

pub fn parse(b: &[u8]) -> Parsed {
    parse_depth(b, 0)
}

fn parse_depth(b: &[u8], depth: usize) -> Parsed {
    if depth > 100_000 {
        return Parsed::Invalid("harness depth limit");
    }
    let (hl, cl, cons, class, tag) = match header(b) {
        Err(e) => return Parsed::Invalid(e),
        Ok(None) => return Parsed::Incomplete,
        Ok(Some(h)) => h,
    };
    if b.len() - hl < cl {
        return Parsed::Incomplete;
    }
    let content = &b[hl..hl + cl];
    if !cons {
        return Parsed::Complete(Tlv { class, tag, body: Body::Prim(content.to_vec()) }, hl + cl);
    }
    let mut ch = Vec::new();
    let mut pos = 0;
    while pos < content.len() {
        match parse_depth(&content[pos..], depth + 1) {
            Parsed::Complete(t, used) => {
                ch.push(t);
                pos += used;
            }
            Parsed::Incomplete => return Parsed::Invalid("child overruns parent"),
            Parsed::Invalid(e) => return Parsed::Invalid(e),
        }
    }
    Parsed::Complete(Tlv { class, tag, body: Body::Cons(ch) }, hl + cl)
}

/// Iterative nesting-depth-insensitive variant of `parse` for deep inputs is
/// not needed: the harness parser runs on the main thread with a large stack
/// where deep inputs are used.

/// Parse exactly one TLV that must span the whole slice.
pub fn parse_all(b: &[u8]) -> Result<Tlv, String> {
    match parse(b) {
        Parsed::Complete(t, used) if used == b.len() => Ok(t),
        Parsed::Complete(_, used) => Err(format!("trailing bytes after TLV ({} of {})", used, b.len())),
        Parsed::Incomplete => Err("incomplete".into()),
        Parsed::Invalid(e) => Err(e.into()),
    }
}

/// Check that `b` is the minimal definite encoding (DER-like lengths) of its tree.
pub fn is_minimal_encoding(b: &[u8]) -> bool {
    match parse_all(b) {
        Ok(t) => encode(&t) == b,
        Err(_) => false,
    }
}

pub fn hex(b: &[u8]) -> String {
    let mut s = String::with_capacity(b.len() * 2);
    for x in b {
        s.push_str(&format!("{:02x}", x));
    }
    s
}

pub fn unhex(s: &str) -> Vec<u8> {
    let s: Vec<u8> = s.bytes().filter(|c| c.is_ascii_hexdigit()).collect();
    s.chunks(2)
        .map(|p| u8::from_str_radix(std::str::from_utf8(p).unwrap(), 16).unwrap())
        .collect()
}

#[cfg(test)]
mod tests {
    use super::*;

    #[test]
    fn ints() {
        assert_eq!(int_content(0), vec![0]);
        assert_eq!(int_content(127), vec![0x7f]);
        assert_eq!(int_content(128), vec![0, 0x80]);
        assert_eq!(int_content(-1), vec![0xff]);
        assert_eq!(int_content(-128), vec![0x80]);
        assert_eq!(int_content(-129), vec![0xff, 0x7f]);
        assert_eq!(int_content(256), vec![1, 0]);
        assert_eq!(int_content(i64::MIN), vec![0x80, 0, 0, 0, 0, 0, 0, 0]);
        assert_eq!(int_content(i64::MAX), vec![0x7f, 0xff, 0xff, 0xff, 0xff, 0xff, 0xff, 0xff]);
        for v in [0i64, 1, -1, 127, 128, -128, -129, 255, 256, -255, -256, -257, 32767, 32768, -32768, -32769, i64::MIN, i64::MAX] {
            assert_eq!(int_value(&int_content(v)), Some(v));
        }
    }

    #[test]
    fn repo_vectors() {
        // vectors from lber's own tests
        let t = parse_all(&[2, 2, 255, 127]).unwrap();
        assert_eq!(t, Tlv::prim(0, 2, vec![255, 127]));
        let b = vec![48, 14, 12, 12, 72, 101, 108, 108, 111, 32, 87, 111, 114, 108, 100, 33];
        let t = parse_all(&b).unwrap();
        assert_eq!(t, Tlv::seq(vec![Tlv::prim(0, 12, b"Hello World!".to_vec())]));
        assert_eq!(encode(&t), b);
        let bind = vec![
            0x30, 0x20, 0x02, 0x01, 0x01, 0x60, 0x1B, 0x02, 0x01, 0x03, 0x04, 0x10, 0x63, 0x6e, 0x3d, 0x72, 0x6f, 0x6f, 0x74, 0x2c,
            0x64, 0x63, 0x3d, 0x70, 0x6c, 0x61, 0x62, 0x73, 0x80, 0x04, 0x61, 0x73, 0x64, 0x66,
        ];
        let t = parse_all(&bind).unwrap();
        assert_eq!(encode(&t), bind);
        assert_eq!(t.as_cons().unwrap()[1].class, APPLICATION);
    }

    #[test]
    fn lengths() {
        for n in [0usize, 1, 127, 128, 255, 256, 65535, 65536] {
            let t = Tlv::octets(vec![7u8; n]);
            let e = encode(&t);
            assert_eq!(parse_all(&e).unwrap(), t);
            for f in 1..6u8 {
                let e2 = encode_forms(&t, &[f]);
                assert_eq!(parse_all(&e2).unwrap(), t, "form {}", f);
                assert!(e2.len() > e.len() || (n >= 128 && f == 1));
            }
        }
        assert_eq!(parse(&[0x30, 0x80, 0, 0]), Parsed::Invalid("indefinite length"));
        assert_eq!(parse(&[0x30, 0x05, 0x02, 0x01, 0x01, 0x61, 0x7f]), Parsed::Invalid("child overruns parent"));
        assert_eq!(parse(&[0x30, 0x05, 0x02]), Parsed::Incomplete);
        assert_eq!(parse(&[0x1f, 0x01, 0x00]), Parsed::Invalid("high tag number"));
    }
}
