pub mod ber;
pub mod conv;
pub mod dn;
pub mod filter;
pub mod gens;
pub mod props;
pub mod runner;
