pub mod ber;
pub mod conv;
pub mod dn;
pub mod filter;
pub mod gens;
pub mod model;
pub mod props;
pub mod runner;
