pub mod ber;
pub mod conv;
pub mod gens;
pub mod props;
pub mod runner;
