//! Real-network infrastructure for C14/C17/C18: test PKI loading, a recording socket
//! wrapper, TLS acceptor construction.

use std::io;
use std::pin::Pin;
use std::sync::{Arc, Mutex};
use std::task::{Context, Poll};
use tokio::io::{AsyncRead, AsyncWrite, ReadBuf};

#[derive(Clone, Copy, Debug, PartialEq, Eq, Hash, serde::Serialize, serde::Deserialize)]
pub enum Cert {
    Good,
    WrongName,
    SelfSigned,
    Expired,
    /// CA-signed, valid, subjectAltName DNS:localhost only (no IP addresses)
    DnsOnly,
}

impl Cert {
    pub fn file(self) -> &'static str {
        match self {
            Cert::Good => "good",
            Cert::WrongName => "wrongname",
            Cert::SelfSigned => "selfsigned",
            Cert::Expired => "expired",
            Cert::DnsOnly => "dnsonly",
        }
    }
}

pub fn tls_dir() -> std::path::PathBuf {
    crate::runner::verif_root().join("tls")
}

pub fn acceptor(cert: Cert) -> Result<tokio_native_tls::TlsAcceptor, String> {
    static A: std::sync::OnceLock<std::sync::Mutex<std::collections::HashMap<Cert, tokio_native_tls::TlsAcceptor>>> = std::sync::OnceLock::new();
    let m = A.get_or_init(Default::default);
    if let Some(a) = m.lock().unwrap().get(&cert) {
        return Ok(a.clone());
    }
    let a = build_acceptor(cert)?;
    m.lock().unwrap().insert(cert, a.clone());
    Ok(a)
}

fn build_acceptor(cert: Cert) -> Result<tokio_native_tls::TlsAcceptor, String> {
    let dir = tls_dir();
    let pem = std::fs::read(dir.join(format!("{}.pem", cert.file()))).map_err(|e| format!("read cert: {}", e))?;
    let key = std::fs::read(dir.join(format!("{}.key", cert.file()))).map_err(|e| format!("read key: {}", e))?;
    let id = native_tls::Identity::from_pkcs8(&pem, &key).map_err(|e| format!("identity: {}", e))?;
    let acc = native_tls::TlsAcceptor::builder(id).build().map_err(|e| format!("acceptor: {}", e))?;
    Ok(tokio_native_tls::TlsAcceptor::from(acc))
}

/// A client connector that trusts only the test CA.
pub fn ca_connector() -> Result<native_tls::TlsConnector, String> {
    // building a connector parses the system trust store (tens of ms of CPU): build once, clone
    static C: std::sync::OnceLock<Result<native_tls::TlsConnector, String>> = std::sync::OnceLock::new();
    C.get_or_init(build_ca_connector).clone()
}

fn build_ca_connector() -> Result<native_tls::TlsConnector, String> {
    let ca = std::fs::read(tls_dir().join("ca.pem")).map_err(|e| format!("read ca: {}", e))?;
    let ca = native_tls::Certificate::from_pem(&ca).map_err(|e| format!("ca: {}", e))?;
    native_tls::TlsConnector::builder().add_root_certificate(ca).disable_built_in_roots(true).build().map_err(|e| format!("connector: {}", e))
}

/// Socket wrapper that records every byte read from / written to the peer.
pub struct Tap<S> {
    inner: S,
    pub read_log: Arc<Mutex<Vec<u8>>>,
    pub write_log: Arc<Mutex<Vec<u8>>>,
}

impl<S> Tap<S> {
    pub fn new(inner: S) -> (Self, Arc<Mutex<Vec<u8>>>, Arc<Mutex<Vec<u8>>>) {
        let r = Arc::new(Mutex::new(Vec::new()));
        let w = Arc::new(Mutex::new(Vec::new()));
        (Tap { inner, read_log: r.clone(), write_log: w.clone() }, r, w)
    }
}

impl<S: AsyncRead + Unpin> AsyncRead for Tap<S> {
    fn poll_read(mut self: Pin<&mut Self>, cx: &mut Context<'_>, buf: &mut ReadBuf<'_>) -> Poll<io::Result<()>> {
        let before = buf.filled().len();
        let r = Pin::new(&mut self.inner).poll_read(cx, buf);
        if let Poll::Ready(Ok(())) = &r {
            let new = &buf.filled()[before..];
            self.read_log.lock().unwrap().extend_from_slice(new);
        }
        r
    }
}

impl<S: AsyncWrite + Unpin> AsyncWrite for Tap<S> {
    fn poll_write(mut self: Pin<&mut Self>, cx: &mut Context<'_>, buf: &[u8]) -> Poll<io::Result<usize>> {
        let r = Pin::new(&mut self.inner).poll_write(cx, buf);
        if let Poll::Ready(Ok(n)) = &r {
            self.write_log.lock().unwrap().extend_from_slice(&buf[..*n]);
        }
        r
    }
    fn poll_flush(mut self: Pin<&mut Self>, cx: &mut Context<'_>) -> Poll<io::Result<()>> {
        Pin::new(&mut self.inner).poll_flush(cx)
    }
    fn poll_shutdown(mut self: Pin<&mut Self>, cx: &mut Context<'_>) -> Poll<io::Result<()>> {
        Pin::new(&mut self.inner).poll_shutdown(cx)
    }
}

/// Split a raw client->server byte log into a cleartext-BER prefix and the rest.
/// Returns (ldap messages found in cleartext anywhere, whether the non-LDAP remainder looks like TLS records).
pub fn analyse_cleartext(log: &[u8]) -> (Vec<crate::ber::Tlv>, bool, usize) {
    use crate::ber::{parse, Parsed};
    let mut msgs = Vec::new();
    let mut pos = 0;
    // leading LDAP messages
    while pos < log.len() && log[pos] == 0x30 {
        match parse(&log[pos..]) {
            Parsed::Complete(t, used) => {
                msgs.push(t);
                pos += used;
            }
            _ => break,
        }
    }
    let tls_start = pos;
    // TLS records: type 20..=23, version 03 xx, 2-byte length
    let mut tls_ok = true;
    while pos < log.len() {
        if log.len() - pos < 5 {
            break;
        }
        let (ty, maj) = (log[pos], log[pos + 1]);
        if !(20..=23).contains(&ty) || maj != 3 {
            tls_ok = false;
            // is it an LDAP message in the clear?
            if log[pos] == 0x30 {
                if let Parsed::Complete(t, used) = parse(&log[pos..]) {
                    msgs.push(t);
                    pos += used;
                    continue;
                }
            }
            break;
        }
        let len = ((log[pos + 3] as usize) << 8) | log[pos + 4] as usize;
        pos += 5 + len;
    }
    (msgs, tls_ok, tls_start)
}
