//! Glue between libFuzzer targets and the property oracles: quiet panic hook,
//! known-finding allow-list, abort on a new violation (libFuzzer saves the input).

use crate::runner::{guard, install_panic_hook, load_known, panic_sig, Fail, KnownFinding, Obs};
use std::sync::OnceLock;

static KNOWN: OnceLock<Vec<KnownFinding>> = OnceLock::new();

pub fn run(prop: &'static str, data: &[u8], f: impl FnOnce(&[u8], &mut Obs) -> Result<(), Fail>) {
    let known = KNOWN.get_or_init(|| {
        install_panic_hook();
        load_known(prop)
    });
    let mut obs = Obs::default();
    let r = match guard(|| f(data, &mut obs)) {
        Ok(r) => r,
        Err(p) => Err(Fail::new(format!("harness-{}", panic_sig(&p)), p)),
    };
    if let Err(fl) = r {
        if known.iter().any(|k| k.status == "open" && k.signature == fl.sig) {
            return;
        }
        eprintln!("VIOLATION-IN-FUZZ property={} [{}] {}", prop, fl.sig, fl.msg);
        std::process::abort();
    }
}
