//! Shared proptest strategies.

use crate::ber::{Body, Tlv};
use proptest::collection::vec;
use proptest::prelude::*;
use serde::{Deserialize, Serialize};

/// Compact payload description (keeps replay files small).
#[derive(Clone, Debug, PartialEq, Eq, Hash, Serialize, Deserialize)]
pub enum Data {
    Raw(Vec<u8>),
    Fill(u32, u8),
}

impl Data {
    pub fn bytes(&self) -> Vec<u8> {
        match self {
            Data::Raw(v) => v.clone(),
            Data::Fill(n, b) => vec![*b; *n as usize],
        }
    }
    pub fn len(&self) -> usize {
        match self {
            Data::Raw(v) => v.len(),
            Data::Fill(n, _) => *n as usize,
        }
    }
}

#[derive(Clone, Debug, PartialEq, Eq, Hash, Serialize, Deserialize)]
pub enum GT {
    P { class: u8, tag: u8, data: Data },
    C { class: u8, tag: u8, kids: Vec<GT> },
}

impl GT {
    pub fn to_tlv(&self) -> Tlv {
        match self {
            GT::P { class, tag, data } => Tlv { class: *class, tag: *tag, body: Body::Prim(data.bytes()) },
            GT::C { class, tag, kids } => Tlv { class: *class, tag: *tag, body: Body::Cons(kids.iter().map(|k| k.to_tlv()).collect()) },
        }
    }
}

pub const BOUNDARY_LENS: &[u32] = &[0, 1, 2, 126, 127, 128, 129, 254, 255, 256, 257];
pub const BIG_LENS: &[u32] = &[65_534, 65_535, 65_536, 65_537];
pub const HUGE_LENS: &[u32] = &[(1 << 24) - 1, 1 << 24, (1 << 24) + 1];

pub fn data(big: bool, huge: bool) -> BoxedStrategy<Data> {
    let mut v: Vec<(u32, BoxedStrategy<Data>)> = vec![
        (12, vec(any::<u8>(), 0..8).prop_map(Data::Raw).boxed()),
        (4, (proptest::sample::select(BOUNDARY_LENS), any::<u8>()).prop_map(|(n, b)| Data::Fill(n, b)).boxed()),
        (2, (0u32..400, any::<u8>()).prop_map(|(n, b)| Data::Fill(n, b)).boxed()),
    ];
    if big {
        v.push((1, (proptest::sample::select(BIG_LENS), any::<u8>()).prop_map(|(n, b)| Data::Fill(n, b)).boxed()));
    }
    if huge {
        v.push((1, (proptest::sample::select(HUGE_LENS), any::<u8>()).prop_map(|(n, b)| Data::Fill(n, b)).boxed()));
    }
    proptest::strategy::Union::new_weighted(v).boxed()
}

pub fn class_tag() -> impl Strategy<Value = (u8, u8)> {
    (0u8..4, prop_oneof![0u8..=30, Just(0u8), Just(30u8), Just(16u8), Just(4u8)])
}

pub fn gt_tree(depth: u32, width: usize, big: bool, huge: bool) -> BoxedStrategy<GT> {
    let leaf = (class_tag(), data(big, huge)).prop_map(|((class, tag), data)| GT::P { class, tag, data });
    leaf.prop_recursive(depth, 64, width as u32, move |inner| {
        (class_tag(), vec(inner, 0..=width)).prop_map(|((class, tag), kids)| GT::C { class, tag, kids })
    })
    .boxed()
}

/// Length-form choices (see ber::push_len_form): mostly minimal, some long forms.
pub fn forms() -> BoxedStrategy<Vec<u8>> {
    prop_oneof![
        2 => Just(vec![]),
        3 => vec(prop_oneof![4 => Just(0u8), 2 => 1u8..=5, 1 => Just(9u8), 1 => 6u8..=120], 1..12),
        1 => vec(1u8..=5, 1..4),
    ]
    .boxed()
}

/// i64 values biased to the two's-complement octet boundaries.
pub fn i64_biased() -> BoxedStrategy<i64> {
    let edge = (0u32..=63, -2i64..=2, any::<bool>()).prop_map(|(k, d, neg)| {
        let p: i64 = if k == 63 { i64::MAX } else { 1i64 << k };
        let v = if neg { p.wrapping_neg() } else { p };
        v.wrapping_add(d)
    });
    prop_oneof![
        6 => edge,
        1 => Just(0i64),
        1 => Just(-1i64),
        1 => Just(i64::MIN),
        1 => Just(i64::MAX),
        1 => Just(i64::MIN + 1),
        3 => any::<i64>(),
        2 => -70000i64..70000,
    ]
    .boxed()
}

/// UTF-8 text with a mix of ASCII, multi-byte and empty/long strings.
pub fn text(max: usize) -> BoxedStrategy<String> {
    let ch = prop_oneof![
        8 => proptest::char::range('a', 'z'),
        2 => proptest::char::range(' ', '~'),
        1 => proptest::char::range('\u{80}', '\u{7ff}'),
        1 => proptest::char::range('\u{800}', '\u{d7ff}'),
        1 => proptest::char::range('\u{e000}', '\u{ffff}'),
        1 => proptest::char::range('\u{10000}', '\u{10ffff}'),
        1 => Just('\u{0}'),
    ];
    prop_oneof![
        1 => Just(String::new()),
        8 => vec(ch, 0..max.max(1)).prop_map(|v| v.into_iter().collect::<String>()),
    ]
    .boxed()
}

pub fn long_text() -> BoxedStrategy<String> {
    prop_oneof![
        10 => text(24),
        2 => (proptest::sample::select(&[126u32, 127, 128, 129, 255, 256, 300][..]), proptest::char::range('a', 'z')).prop_map(|(n, c)| std::iter::repeat(c).take(n as usize).collect()),
        1 => (proptest::sample::select(&[65_535u32, 65_536, 70_000][..]), proptest::char::range('a', 'z')).prop_map(|(n, c)| std::iter::repeat(c).take(n as usize).collect()),
    ]
    .boxed()
}

/// Arbitrary bytes, including invalid UTF-8.
pub fn blob(max: usize) -> BoxedStrategy<Vec<u8>> {
    prop_oneof![
        1 => Just(vec![]),
        6 => vec(any::<u8>(), 0..max.max(1)),
        2 => text(max).prop_map(|s| s.into_bytes()),
        1 => (proptest::sample::select(&[127u32, 128, 255, 256][..]), any::<u8>()).prop_map(|(n, b)| vec![b; n as usize]),
    ]
    .boxed()
}

/// Numeric OID text (2..6 arcs).
pub fn oid() -> BoxedStrategy<String> {
    // arcs are unbounded non-negative integers (UUID-based OIDs under 2.25 have 39-digit arcs)
    let arc = prop_oneof![
        6 => (0u32..40).prop_map(|n| n.to_string()),
        4 => (0u32..100000).prop_map(|n| n.to_string()),
        1 => proptest::sample::select(&["4294967295", "4294967296", "18446744073709551615", "18446744073709551616", "329800735698586629295641978511506172918", "2147483648"][..]).prop_map(String::from),
    ];
    (0u8..3, vec(arc, 1..6))
        .prop_map(|(a, rest)| {
            let mut s = a.to_string();
            for r in rest {
                s.push('.');
                s.push_str(&r);
            }
            s
        })
        .boxed()
}

/// RFC 4512 descr
pub fn descr() -> BoxedStrategy<String> {
    "[A-Za-z][A-Za-z0-9-]{0,10}".prop_map(|s| s).boxed()
}
