use ldap3_verif::props;
use ldap3_verif::runner::{self, Tier};

fn usage() -> ! {
    eprintln!("usage: verif run <ID> [--tier quick|thorough] [--seed N] [--lane NAME]\n       verif replay <ID> <FILE>\n       verif list");
    std::process::exit(2)
}

fn main() {
    let args: Vec<String> = std::env::args().collect();
    if args.len() < 2 {
        usage();
    }
    runner::install_panic_hook();
    match args[1].as_str() {
        "list" => {
            for id in props::all_ids() {
                println!("{}", id);
            }
        }
        "run" => {
            let id = args.get(2).unwrap_or_else(|| usage());
            let mut tier = match std::env::var("VERIF_TIER").as_deref() {
                Ok("thorough") => Tier::Thorough,
                _ => Tier::Quick,
            };
            let mut seed: u64 = std::env::var("VERIF_SEED").ok().and_then(|s| s.trim().parse::<i128>().ok()).map(|v| v as u64).unwrap_or(0);
            let mut lane: Option<String> = None;
            let mut i = 3;
            while i < args.len() {
                match args[i].as_str() {
                    "--tier" => {
                        tier = match args.get(i + 1).map(|s| s.as_str()) {
                            Some("thorough") => Tier::Thorough,
                            Some("quick") => Tier::Quick,
                            _ => usage(),
                        };
                        i += 1;
                    }
                    "--seed" => {
                        seed = args.get(i + 1).and_then(|s| s.parse::<i128>().ok()).map(|v| v as u64).unwrap_or_else(|| usage());
                        i += 1;
                    }
                    "--lane" => {
                        lane = args.get(i + 1).cloned();
                        i += 1;
                    }
                    _ => usage(),
                }
                i += 1;
            }
            let Some(p) = props::get(id) else {
                eprintln!("unknown property {}", id);
                std::process::exit(2)
            };
            let r = runner::run_property(&p, tier, seed, lane.as_deref());
            std::process::exit(r.exit);
        }
        "stackprobe" => {
            let file = args.get(2).unwrap_or_else(|| usage());
            std::panic::set_hook(Box::new(|_| {}));
            std::process::exit(ldap3_verif::props::c11::stackprobe_main(file));
        }
        "replay" => {
            let id = args.get(2).unwrap_or_else(|| usage());
            let file = args.get(3).unwrap_or_else(|| usage());
            let Some(p) = props::get(id) else {
                eprintln!("unknown property {}", id);
                std::process::exit(2)
            };
            std::process::exit(runner::replay_file(&p, file));
        }
        _ => usage(),
    }
}
