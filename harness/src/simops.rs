//! Client-side helpers shared by the simulated-connection properties.

use crate::ber::{Body, Tlv};
use crate::conv::from_lib;
use crate::model::{Req, ReqMsg};
use ldap3::exop::Exop;
use ldap3::result::{LdapError, LdapResult};
use ldap3::{Ldap, Mod, ResultEntry};
use proptest::prelude::*;
use serde::{Deserialize, Serialize};
use std::collections::HashSet;

#[derive(Clone, Copy, Debug, PartialEq, Eq, Hash, Serialize, Deserialize)]
pub enum Single {
    Bind,
    Compare,
    Delete,
    Modify,
    Add,
    ModDn,
    Extended,
}

pub const SINGLES: &[Single] = &[Single::Bind, Single::Compare, Single::Delete, Single::Modify, Single::Add, Single::ModDn, Single::Extended];

impl Single {
    /// application tag of the response
    pub fn resp_tag(self) -> u8 {
        match self {
            Single::Bind => 1,
            Single::Compare => 15,
            Single::Delete => 11,
            Single::Modify => 7,
            Single::Add => 9,
            Single::ModDn => 13,
            Single::Extended => 24,
        }
    }
    pub fn req_kind(self) -> &'static str {
        match self {
            Single::Bind => "bind",
            Single::Compare => "compare",
            Single::Delete => "delete",
            Single::Modify => "modify",
            Single::Add => "add",
            Single::ModDn => "moddn",
            Single::Extended => "extended",
        }
    }
}

pub fn single_strat() -> BoxedStrategy<Single> {
    proptest::sample::select(SINGLES).boxed()
}

pub fn marker(idx: usize) -> String {
    format!("cn=op{}", idx)
}

/// Which client operation sent this request (by its marker), if any.
pub fn marker_index(m: &ReqMsg) -> Option<usize> {
    let mk = m.req.marker();
    let s = std::str::from_utf8(&mk).ok()?;
    s.strip_prefix("cn=op")?.parse().ok()
}

pub async fn exec_single(ldap: &mut Ldap, kind: Single, marker: &str) -> Result<LdapResult, LdapError> {
    match kind {
        Single::Bind => ldap.simple_bind(marker, "pw").await,
        Single::Compare => ldap.compare(marker, "cn", "v").await.map(|c| c.0),
        Single::Delete => ldap.delete(marker).await,
        Single::Modify => ldap.modify(marker, vec![Mod::Replace("a", HashSet::from(["b"]))]).await,
        Single::Add => ldap.add(marker, vec![("a", HashSet::from(["b"]))]).await,
        Single::ModDn => ldap.modifydn(marker, "cn=n", true, None).await,
        Single::Extended => ldap.extended(Exop { name: Some("1.2.3.4".into()), val: Some(marker.as_bytes().to_vec()) }).await.map(|e| e.1),
    }
}

pub fn req_matches_single(req: &Req, kind: Single) -> bool {
    req.kind() == kind.req_kind()
}

/// Token carried by a search item, extracted without the library's own parsers:
/// entry -> DN, reference -> first URI, intermediate -> responseValue.
pub fn item_token(re: &ResultEntry) -> (u8, String) {
    let t = match from_lib(&re.0) {
        Some(t) => t,
        None => return (255, "<bad tag>".into()),
    };
    let s = |b: &[u8]| String::from_utf8_lossy(b).into_owned();
    let kids: &[Tlv] = match &t.body {
        Body::Cons(k) => k,
        Body::Prim(_) => return (t.tag, "<primitive>".into()),
    };
    match t.tag {
        4 | 19 => (t.tag, kids.first().and_then(|k| k.as_prim()).map(s).unwrap_or_default()),
        25 => (t.tag, kids.iter().find(|k| k.tag == 1).and_then(|k| k.as_prim()).map(s).unwrap_or_default()),
        n => (n, "<unexpected>".into()),
    }
}
