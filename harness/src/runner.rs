//! Property runner: proptest driving, shrinking, replay files, evidence, known findings.

use proptest::strategy::{BoxedStrategy, Strategy};
use proptest::test_runner::{Config, RngAlgorithm, TestCaseError, TestError, TestRng, TestRunner};
use serde::de::DeserializeOwned;
use serde::Serialize;
use serde_json::{json, Value};
use std::cell::RefCell;
use std::collections::hash_map::DefaultHasher;
use std::collections::{BTreeMap, HashSet};
use std::fmt::Debug;
use std::hash::{Hash, Hasher};
use std::panic::{catch_unwind, AssertUnwindSafe};
use std::time::Instant;

#[derive(Clone, Copy, Debug, PartialEq, Eq)]
pub enum Tier {
    Quick,
    Thorough,
}

impl Tier {
    pub fn name(self) -> &'static str {
        match self {
            Tier::Quick => "quick",
            Tier::Thorough => "thorough",
        }
    }
    pub fn pick<T>(self, q: T, t: T) -> T {
        match self {
            Tier::Quick => q,
            Tier::Thorough => t,
        }
    }
}

/// multiplier of proptest case counts in the thorough tier (set per property by run_property)
pub static THOROUGH_SCALE: std::sync::atomic::AtomicU32 = std::sync::atomic::AtomicU32::new(1);

/// measured: thorough wall time with scale 1 on 16 cores -> scale chosen for roughly 3-6 minutes
pub fn thorough_scale_of(id: &str) -> u32 {
    // scale-1 wall times measured on this machine (16 workers): C01 21 s, C02 33, C03 21, C04 15, C05 6, C06 247 (with the
    // libFuzzer build), C07 115, C08 331, C09 704, C10 13, C11 71, C12 7, C13 7, C14 42, C15 23, C16 9, C17 40, C18 267,
    // C19 13, C20 24. Lanes that enumerate (short-exhaustive, skeletons, cells) or fuzz are not scaled.
    match id {
        "C01" => 15,
        "C02" => 10,
        "C03" => 15,
        "C04" => 16,
        "C05" => 30,
        "C06" => 2,
        "C07" => 3,
        "C10" => 25,
        "C11" => 6,
        "C12" => 40,
        "C13" => 40,
        "C14" => 6,
        "C15" => 12,
        "C16" => 30,
        "C19" => 20,
        "C20" => 12,
        _ => 1,
    }
}

#[derive(Clone, Debug)]
pub struct Ctx {
    pub tier: Tier,
    pub seed: u64,
    pub worker: u32,
    pub workers: u32,
}

/// An oracle failure. `sig` is a stable signature of the failure class
/// (used to match known findings); `msg` is the human-readable detail.
#[derive(Clone, Debug, Serialize, serde::Deserialize)]
pub struct Fail {
    pub sig: String,
    pub msg: String,
}

impl Fail {
    pub fn new(sig: impl Into<String>, msg: impl Into<String>) -> Fail {
        Fail { sig: sig.into(), msg: msg.into() }
    }
}

#[macro_export]
macro_rules! fail {
    ($sig:expr, $($arg:tt)*) => {
        return Err($crate::runner::Fail::new($sig, format!($($arg)*)))
    };
}

#[macro_export]
macro_rules! ensure {
    ($cond:expr, $sig:expr, $($arg:tt)*) => {
        if !($cond) {
            return Err($crate::runner::Fail::new($sig, format!($($arg)*)));
        }
    };
}

/// Per-case observations: classification labels and the non-triviality key.
#[derive(Default)]
pub struct Obs {
    pub labels: Vec<String>,
    pub nt_key: Option<u64>,
    pub extra_evals: u64,
    pub known: Vec<String>,
}

impl Obs {
    pub fn label(&mut self, l: impl Into<String>) {
        self.labels.push(l.into());
    }
    /// Mark this case non-trivial; `key` canonicalises it for distinctness.
    pub fn nontrivial<K: Hash>(&mut self, key: K) {
        let mut h = DefaultHasher::new();
        key.hash(&mut h);
        self.nt_key = Some(h.finish());
    }
    /// A known (open) finding was observed and tolerated inside the oracle.
    pub fn known(&mut self, sig: impl Into<String>) {
        self.known.push(sig.into());
    }
    /// Count additional executions performed inside one case (e.g. all split points).
    pub fn evals(&mut self, n: u64) {
        self.extra_evals += n;
    }
}

#[derive(Clone, Debug, serde::Deserialize)]
pub struct KnownFinding {
    pub property: String,
    pub id: String,
    pub status: String,
    pub signature: String,
    pub what: String,
    #[serde(default)]
    pub commit: Option<String>,
}

pub fn load_known(property: &str) -> Vec<KnownFinding> {
    let path = verif_root().join("known_findings.json");
    let Ok(s) = std::fs::read_to_string(&path) else { return vec![] };
    let v: Value = serde_json::from_str(&s).expect("known_findings.json must be valid JSON");
    let list = v.get("findings").cloned().unwrap_or(Value::Array(vec![]));
    let all: Vec<KnownFinding> = serde_json::from_value(list).expect("known_findings.json schema");
    all.into_iter().filter(|k| k.property == property).collect()
}

pub fn verif_root() -> std::path::PathBuf {
    std::env::var("VERIF_ROOT").map(Into::into).unwrap_or_else(|_| "/verif".into())
}

#[derive(Default, Debug)]
pub struct LaneReport {
    pub name: String,
    pub evaluations: u64,
    pub nontrivial: HashSet<u64>,
    pub labels: BTreeMap<String, u64>,
    pub samples: Vec<Value>,
    pub known_hits: BTreeMap<String, u64>,
    pub exhaustive: bool,
    pub failure: Option<(Fail, Value)>,
    pub note: Option<String>,
}

impl LaneReport {
    pub fn new(name: &str) -> Self {
        LaneReport { name: name.into(), ..Default::default() }
    }
    pub fn absorb(&mut self, o: LaneReport) {
        self.evaluations += o.evaluations;
        self.nontrivial.extend(o.nontrivial);
        for (k, v) in o.labels {
            *self.labels.entry(k).or_default() += v;
        }
        for s in o.samples {
            if self.samples.len() < 4 {
                self.samples.push(s);
            }
        }
        for (k, v) in o.known_hits {
            *self.known_hits.entry(k).or_default() += v;
        }
        self.exhaustive = self.exhaustive && o.exhaustive;
        if self.failure.is_none() {
            self.failure = o.failure;
        }
        if self.note.is_none() {
            self.note = o.note;
        }
    }
    pub fn record(&mut self, case: &Value, obs: &Obs) {
        self.evaluations += 1 + obs.extra_evals;
        for l in &obs.labels {
            *self.labels.entry(l.clone()).or_default() += 1;
        }
        for k in &obs.known {
            *self.known_hits.entry(k.clone()).or_default() += 1;
        }
        if let Some(k) = obs.nt_key {
            if self.nontrivial.insert(k) && self.samples.len() < 3 {
                self.samples.push(truncate_value(case.clone()));
            }
        }
    }
}

pub fn truncate_value(v: Value) -> Value {
    let s = v.to_string();
    if s.len() <= 1500 {
        v
    } else {
        let mut cut = 1500;
        while !s.is_char_boundary(cut) {
            cut -= 1;
        }
        json!({ "truncated_json": format!("{}...", &s[..cut]), "full_len": s.len() })
    }
}

pub fn lane_seed(ctx: &Ctx, lane: &str) -> [u8; 32] {
    let mut out = [0u8; 32];
    for i in 0..4u64 {
        let mut h = DefaultHasher::new();
        (ctx.seed, lane, ctx.worker, i, 0x9e3779b97f4a7c15u64).hash(&mut h);
        out[(i as usize) * 8..(i as usize + 1) * 8].copy_from_slice(&h.finish().to_le_bytes());
    }
    out
}

thread_local! {
    static PANIC_LOG: RefCell<Vec<String>> = RefCell::new(Vec::new());
}

/// Install a panic hook that records `file:line: message` in a thread-local log
/// and stays quiet (unless VERIF_SHOW_PANICS is set).
pub fn install_panic_hook() {
    let show = std::env::var("VERIF_SHOW_PANICS").is_ok();
    std::panic::set_hook(Box::new(move |info| {
        let msg = if let Some(s) = info.payload().downcast_ref::<&str>() {
            s.to_string()
        } else if let Some(s) = info.payload().downcast_ref::<String>() {
            s.clone()
        } else {
            "<non-string panic>".to_string()
        };
        let loc = info.location().map(|l| format!("{}:{}", l.file(), l.line())).unwrap_or_default();
        let line = format!("{}: {}", loc, msg);
        if show {
            eprintln!("[panic] {}", line);
        }
        PANIC_LOG.with(|p| p.borrow_mut().push(line));
    }));
}

pub fn take_panics() -> Vec<String> {
    PANIC_LOG.with(|p| std::mem::take(&mut *p.borrow_mut()))
}

/// A panic site stripped of line numbers: `src/protocol.rs: element` style signature.
pub fn panic_sig(line: &str) -> String {
    // "file:line: msg" -> "panic@file: msg" with the repo prefix and line number removed
    let mut parts = line.splitn(3, ':');
    let file = parts.next().unwrap_or("");
    let _ln = parts.next();
    let msg = parts.next().unwrap_or("").trim();
    let file = file.trim_start_matches("/repo/");
    let msg: String = msg.chars().take(60).collect();
    // drop variable tails such as `: Error(...)`
    let msg = msg.split(": ").next().unwrap_or("").to_string();
    format!("panic@{}: {}", file, msg)
}

/// Run `f`, converting a panic into Err(panic line).
pub fn guard<T>(f: impl FnOnce() -> T) -> Result<T, String> {
    let _ = take_panics();
    match catch_unwind(AssertUnwindSafe(f)) {
        Ok(v) => Ok(v),
        Err(_) => {
            let p = take_panics();
            Err(p.into_iter().next().unwrap_or_else(|| "unknown panic".into()))
        }
    }
}

pub trait Lane: Send + Sync {
    fn name(&self) -> &'static str;
    fn run(&self, ctx: &Ctx, known: &[KnownFinding]) -> LaneReport;
    fn replay(&self, case: Value) -> Result<(), Fail>;
}

/// A proptest-driven lane.
pub struct PLane<C: 'static> {
    pub name: &'static str,
    pub cases: fn(Tier) -> u32,
    pub strat: fn(&Ctx) -> BoxedStrategy<C>,
    pub check: fn(&C, &mut Obs) -> Result<(), Fail>,
}

impl<C> Lane for PLane<C>
where
    C: Debug + Clone + Serialize + DeserializeOwned + 'static,
{
    fn name(&self) -> &'static str {
        self.name
    }

    fn run(&self, ctx: &Ctx, known: &[KnownFinding]) -> LaneReport {
        // quick-tier counts in the property tables are per worker and were calibrated for ~1 s;
        // the quick tier runs them x QUICK_SCALE so that every quick check does several seconds of work
        // the thorough tier multiplies its (per worker) counts by the property's entry in THOROUGH_SCALE, which
        // was set from measured run times so that every thorough check explores for several minutes on 16 cores
        let scale: u32 = if ctx.tier == Tier::Quick {
            std::env::var("VERIF_QUICK_SCALE").ok().and_then(|s| s.parse().ok()).unwrap_or(4)
        } else {
            std::env::var("VERIF_THOROUGH_SCALE").ok().and_then(|s| s.parse().ok()).unwrap_or_else(|| THOROUGH_SCALE.load(std::sync::atomic::Ordering::Relaxed).max(1))
        };
        let cases = (self.cases)(ctx.tier).saturating_mul(scale);
        let rep = RefCell::new(LaneReport::new(self.name));
        rep.borrow_mut().exhaustive = false;
        if cases == 0 {
            return rep.into_inner();
        }
        let failed = std::cell::Cell::new(false);
        let last_fail: RefCell<Option<Fail>> = RefCell::new(None);
        let open: Vec<&KnownFinding> = known.iter().filter(|k| k.status == "open").collect();
        let config = Config {
            cases,
            failure_persistence: None,
            max_shrink_iters: 4000,
            max_global_rejects: 100_000,
            ..Config::default()
        };
        let rng = TestRng::from_seed(RngAlgorithm::ChaCha, &lane_seed(ctx, self.name));
        let mut runner = TestRunner::new_with_rng(config, rng);
        let strat = (self.strat)(ctx);
        let check = self.check;
        let result = runner.run(&strat, |case| {
            let mut obs = Obs::default();
            let r = match guard(|| check(&case, &mut obs)) {
                Ok(r) => r,
                Err(p) => Err(Fail::new(format!("harness-{}", panic_sig(&p)), format!("uncaught panic in check: {}", p))),
            };
            let r = match r {
                Err(f) if open.iter().any(|k| k.signature == f.sig) => {
                    obs.known(f.sig.clone());
                    Ok(())
                }
                other => other,
            };
            if !failed.get() {
                let v = serde_json::to_value(&case).unwrap_or(Value::Null);
                match &r {
                    Ok(()) => rep.borrow_mut().record(&v, &obs),
                    Err(_) => {
                        rep.borrow_mut().evaluations += 1;
                        failed.set(true);
                    }
                }
            }
            match r {
                Ok(()) => Ok(()),
                Err(f) => {
                    let m = format!("[{}] {}", f.sig, f.msg);
                    *last_fail.borrow_mut() = Some(f);
                    Err(TestCaseError::fail(m))
                }
            }
        });
        let mut rep = rep.into_inner();
        match result {
            Ok(()) => {}
            Err(TestError::Fail(_reason, case)) => {
                // re-run the shrunk case to get its own failure record
                let mut obs = Obs::default();
                let f = match guard(|| check(&case, &mut obs)) {
                    Ok(Err(f)) => f,
                    Ok(Ok(())) => last_fail.borrow().clone().unwrap_or(Fail::new("flaky", "shrunk case passes on re-run")),
                    Err(p) => Fail::new(format!("harness-{}", panic_sig(&p)), p),
                };
                rep.failure = Some((f, serde_json::to_value(&case).unwrap_or(Value::Null)));
            }
            Err(TestError::Abort(reason)) => {
                rep.note = Some(format!("aborted: {}", reason));
            }
        }
        rep
    }

    fn replay(&self, case: Value) -> Result<(), Fail> {
        let c: C = serde_json::from_value(case).map_err(|e| Fail::new("replay-format", e.to_string()))?;
        let mut obs = Obs::default();
        match guard(|| (self.check)(&c, &mut obs)) {
            Ok(r) => r,
            Err(p) => Err(Fail::new(format!("harness-{}", panic_sig(&p)), p)),
        }
    }
}

/// A lane with its own enumeration logic (exhaustive sub-spaces, real-network lanes).
pub struct FnLane {
    pub name: &'static str,
    pub run: fn(&Ctx, &[KnownFinding]) -> LaneReport,
    pub replay: fn(Value) -> Result<(), Fail>,
}

impl Lane for FnLane {
    fn name(&self) -> &'static str {
        self.name
    }
    fn run(&self, ctx: &Ctx, known: &[KnownFinding]) -> LaneReport {
        (self.run)(ctx, known)
    }
    fn replay(&self, case: Value) -> Result<(), Fail> {
        (self.replay)(case)
    }
}

/// Helper for FnLane implementations: evaluate one case with known-finding handling.
pub fn eval_case<C: Serialize>(
    rep: &mut LaneReport,
    known: &[KnownFinding],
    case: &C,
    check: impl FnOnce(&mut Obs) -> Result<(), Fail>,
) {
    if rep.failure.is_some() {
        return;
    }
    let mut obs = Obs::default();
    let r = match guard(|| check(&mut obs)) {
        Ok(r) => r,
        Err(p) => Err(Fail::new(format!("harness-{}", panic_sig(&p)), format!("uncaught panic in check: {}", p))),
    };
    let v = serde_json::to_value(case).unwrap_or(Value::Null);
    match r {
        Ok(()) => rep.record(&v, &obs),
        Err(f) if known.iter().any(|k| k.status == "open" && k.signature == f.sig) => {
            obs.known(f.sig.clone());
            rep.record(&v, &obs);
        }
        Err(f) => {
            rep.evaluations += 1;
            rep.failure = Some((f, v));
        }
    }
}

pub struct Property {
    pub id: &'static str,
    pub level: &'static str,
    pub rule: &'static str,
    pub assumptions: &'static [&'static str],
    pub lanes: Vec<Box<dyn Lane>>,
    /// worker threads per tier (quick, thorough)
    pub workers: (u32, u32),
}

pub struct RunResult {
    pub exit: i32,
}

fn hash_str(s: &str) -> u64 {
    let mut h = DefaultHasher::new();
    s.hash(&mut h);
    h.finish()
}

pub fn write_replay(prop: &str, lane: &str, fail: &Fail, case: &Value, seed: u64) -> String {
    let dir = verif_root().join("replays");
    let _ = std::fs::create_dir_all(&dir);
    let body = json!({ "property": prop, "lane": lane, "seed": seed, "failure": fail, "case": case });
    let text = serde_json::to_string_pretty(&body).unwrap();
    let name = format!("{}-{}-{:016x}.json", prop, lane, hash_str(&case.to_string()));
    let path = dir.join(name);
    let _ = std::fs::write(&path, text);
    path.to_string_lossy().into_owned()
}

/// Run a whole property: regress files first, then every lane on `workers` threads.
pub fn run_property(p: &Property, tier: Tier, seed: u64, only_lane: Option<&str>) -> RunResult {
    let t0 = Instant::now();
    // wall-clock guard: a run that takes absurdly long is inconclusive (exit 2), never a violation
    {
        let limit = std::env::var("VERIF_WALL_LIMIT_S").ok().and_then(|s| s.parse::<u64>().ok()).unwrap_or(tier.pick(900, 4 * 3600));
        let id = p.id;
        std::thread::spawn(move || {
            std::thread::sleep(std::time::Duration::from_secs(limit));
            println!("INCONCLUSIVE: property={} wall-clock guard of {} s hit (a check is stuck in real time); no verdict", id, limit);
            std::process::exit(2);
        });
    }
    let known = load_known(p.id);
    let mut violations: Vec<(String, Fail, Value)> = Vec::new();
    let mut lane_reports: Vec<LaneReport> = Vec::new();

    // 1. regression tier: replay committed shrunk failures through the plain interpreter
    let mut regress = LaneReport::new("regress");
    regress.exhaustive = true;
    let rdir = verif_root().join("regress").join(p.id);
    if let Ok(rd) = std::fs::read_dir(&rdir) {
        let mut files: Vec<_> = rd.filter_map(|e| e.ok()).map(|e| e.path()).filter(|x| x.extension().map(|e| e == "json").unwrap_or(false)).collect();
        files.sort();
        for f in files {
            let Ok(text) = std::fs::read_to_string(&f) else { continue };
            let Ok(v) = serde_json::from_str::<Value>(&text) else { continue };
            let lane = v.get("lane").and_then(|x| x.as_str()).unwrap_or("").to_string();
            let case = v.get("case").cloned().unwrap_or(Value::Null);
            if let Some(l) = p.lanes.iter().find(|l| l.name() == lane) {
                regress.evaluations += 1;
                *regress.labels.entry(format!("regress:{}", lane)).or_default() += 1;
                match l.replay(case.clone()) {
                    Ok(()) => {}
                    Err(fl) if known.iter().any(|k| k.status == "open" && k.signature == fl.sig) => {
                        *regress.known_hits.entry(fl.sig.clone()).or_default() += 1;
                    }
                    Err(fl) => violations.push((lane, fl, case)),
                }
            }
        }
    }

    // 2. generated lanes
    let workers = tier.pick(p.workers.0, p.workers.1).max(1);
    THOROUGH_SCALE.store(thorough_scale_of(p.id), std::sync::atomic::Ordering::Relaxed);
    for lane in p.lanes.iter() {
        if let Some(o) = only_lane {
            if o != lane.name() {
                continue;
            }
        }
        let mut merged = LaneReport::new(lane.name());
        merged.exhaustive = true;
        let reports: Vec<LaneReport> = std::thread::scope(|s| {
            let hs: Vec<_> = (0..workers)
                .map(|w| {
                    let ctx = Ctx { tier, seed, worker: w, workers };
                    let known = &known;
                    std::thread::Builder::new()
                        .stack_size(256 << 20)
                        .spawn_scoped(s, move || lane.run(&ctx, known))
                        .expect("spawn worker")
                })
                .collect();
            hs.into_iter().map(|h| h.join().expect("worker thread panicked")).collect()
        });
        for r in reports {
            merged.absorb(r);
        }
        if let Some((f, c)) = merged.failure.clone() {
            if f.sig.starts_with("env-") {
                // environment trouble (cannot bind, guard timeout): inconclusive, never a violation
                merged.note = Some(format!("environment problem [{}] {}", f.sig, f.msg));
                merged.failure = None;
            } else {
                violations.push((lane.name().to_string(), f, c));
            }
        }
        lane_reports.push(merged);
    }

    // 3. evidence
    let mut evaluations = regress.evaluations;
    let mut nontrivial: HashSet<(String, u64)> = HashSet::new();
    let mut samples = Vec::new();
    let mut labels = BTreeMap::new();
    let mut lanes_json = Vec::new();
    let mut known_hits: BTreeMap<String, u64> = regress.known_hits.clone();
    let mut notes = Vec::new();
    let mut all_exhaustive = !lane_reports.is_empty();
    for r in &lane_reports {
        evaluations += r.evaluations;
        for k in &r.nontrivial {
            nontrivial.insert((r.name.clone(), *k));
        }
        for s in r.samples.iter().take(2) {
            samples.push(json!({ "lane": r.name, "case": s }));
        }
        for (k, v) in &r.labels {
            labels.insert(format!("{}/{}", r.name, k), *v);
        }
        for (k, v) in &r.known_hits {
            *known_hits.entry(k.clone()).or_default() += v;
        }
        if let Some(n) = &r.note {
            notes.push(format!("{}: {}", r.name, n));
        }
        all_exhaustive &= r.exhaustive;
        lanes_json.push(json!({
            "lane": r.name, "evaluations": r.evaluations, "distinct_nontrivial": r.nontrivial.len(),
            "exhaustive": r.exhaustive, "known_finding_hits": r.known_hits,
        }));
    }
    for (k, v) in &regress.labels {
        labels.insert(k.clone(), *v);
    }
    if samples.is_empty() {
        samples.push(json!("no non-trivial case was generated in this run"));
    }
    let wall = t0.elapsed().as_secs_f64();
    let mut replay_paths = Vec::new();
    for (lane, f, c) in &violations {
        replay_paths.push(write_replay(p.id, lane, f, c, seed));
    }
    let evidence = json!({
        "property_id": p.id,
        "tier": tier.name(),
        "seed": seed,
        "level": p.level,
        "coverage": {
            "evaluations": evaluations,
            "distinct_nontrivial": nontrivial.len(),
            "rule": p.rule,
            "samples": samples,
            "exhaustive": all_exhaustive,
            "lanes": lanes_json,
            "labels": labels,
            "regress_files_replayed": regress.evaluations,
            "known_finding_hits": known_hits,
            "workers": workers,
            "notes": notes,
        },
        "assumptions": p.assumptions,
        "wall_s": wall,
        "violations": violations.len(),
    });
    let edir = verif_root().join("evidence");
    let _ = std::fs::create_dir_all(&edir);
    if only_lane.is_none() {
        std::fs::write(edir.join(format!("{}.json", p.id)), serde_json::to_string_pretty(&evidence).unwrap()).expect("write evidence");
    }

    // 4. report
    for k in known.iter().filter(|k| k.status == "open") {
        println!("KNOWN-FINDING: property={} {} [{}; tolerated {} times in this run]", p.id, k.what, k.signature, known_hits.get(&k.signature).copied().unwrap_or(0));
    }
    println!(
        "{} tier={} seed={} evaluations={} distinct_nontrivial={} wall={:.1}s",
        p.id,
        tier.name(),
        seed,
        evaluations,
        nontrivial.len(),
        wall
    );
    for r in &lane_reports {
        println!("  lane {:<18} evals={:<9} nontrivial={:<8}{}", r.name, r.evaluations, r.nontrivial.len(), r.note.as_ref().map(|n| format!(" note={}", n)).unwrap_or_default());
    }
    if !violations.is_empty() {
        for ((lane, f, _c), path) in violations.iter().zip(replay_paths.iter()) {
            println!("  violation in lane {}: [{}] {}", lane, f.sig, f.msg);
            println!("VIOLATION property={} replay={}", p.id, path);
        }
        return RunResult { exit: 1 };
    }
    if !notes.is_empty() {
        return RunResult { exit: 2 };
    }
    RunResult { exit: 0 }
}

pub fn replay_file(p: &Property, path: &str) -> i32 {
    let text = match std::fs::read_to_string(path) {
        Ok(t) => t,
        Err(e) => {
            eprintln!("cannot read {}: {}", path, e);
            return 2;
        }
    };
    let v: Value = match serde_json::from_str(&text) {
        Ok(v) => v,
        Err(e) => {
            eprintln!("bad replay file: {}", e);
            return 2;
        }
    };
    let lane = v.get("lane").and_then(|x| x.as_str()).unwrap_or("");
    let case = v.get("case").cloned().unwrap_or(Value::Null);
    let Some(l) = p.lanes.iter().find(|l| l.name() == lane) else {
        eprintln!("unknown lane {:?} for {}", lane, p.id);
        return 2;
    };
    match l.replay(case) {
        Ok(()) => {
            println!("replay {}: property held", path);
            0
        }
        Err(f) => {
            println!("replay {}: [{}] {}", path, f.sig, f.msg);
            println!("VIOLATION property={} replay={}", p.id, path);
            1
        }
    }
}

/// Monotone index mapping for shrink-friendly choices.
pub fn pick_idx(x: u16, len: usize) -> usize {
    if len == 0 {
        0
    } else {
        ((x as usize) * len) >> 16
    }
}

pub fn boxed<S: Strategy + 'static>(s: S) -> BoxedStrategy<S::Value> {
    s.boxed()
}
