//! Coverage-guided lanes (cargo-fuzz / libFuzzer). quick: replay the built-in seed inputs through
//! the oracle in-process. thorough: build the target once, run W libFuzzer processes with fixed
//! -runs / -seed from a fresh corpus, and turn any crash artifact into an ordinary violation by
//! replaying it through the same oracle in-process.

use crate::ber;
use crate::runner::{eval_case, verif_root, Ctx, Fail, KnownFinding, LaneReport, Obs, Tier};
use serde::{Deserialize, Serialize};
use serde_json::Value;
use std::process::Command;

#[derive(Clone, Debug, Serialize, Deserialize)]
pub struct HexCase {
    pub hex: String,
}

pub struct FuzzSpec {
    pub target: &'static str,
    pub oracle: fn(&[u8], &mut Obs) -> Result<(), Fail>,
    pub seeds: fn() -> Vec<Vec<u8>>,
    pub max_len: usize,
    pub runs_per_worker: u64,
}

pub fn replay(spec: &FuzzSpec, v: Value) -> Result<(), Fail> {
    let c: HexCase = serde_json::from_value(v).map_err(|e| Fail::new("replay-format", e.to_string()))?;
    (spec.oracle)(&ber::unhex(&c.hex), &mut Obs::default())
}

pub fn run(spec: &FuzzSpec, ctx: &Ctx, known: &[KnownFinding]) -> LaneReport {
    let mut rep = LaneReport::new("fuzz");
    rep.exhaustive = false;
    let seeds = (spec.seeds)();
    // the seed tier: always, in-process (only worker 0 so that it is counted once)
    if ctx.worker == 0 {
        for s in &seeds {
            let c = HexCase { hex: ber::hex(s) };
            eval_case(&mut rep, known, &c, |obs| {
                (spec.oracle)(s, obs)?;
                obs.label("seed-input");
                obs.nontrivial(s);
                Ok(())
            });
        }
    }
    if ctx.tier != Tier::Thorough || rep.failure.is_some() {
        return rep;
    }
    let hdir = verif_root().join("harness");
    let bin = hdir.join("fuzz/target/x86_64-unknown-linux-gnu/release").join(spec.target);
    if ctx.worker == 0 {
        // build once (other workers wait for the marker)
        let out = Command::new("cargo")
            .args(["+nightly", "fuzz", "build", spec.target])
            .current_dir(&hdir)
            .env("RUSTFLAGS", "--cfg ldap3_verif --cfg tokio_unstable")
            .env("CARGO_NET_OFFLINE", "true")
            .output();
        let ok = out.as_ref().map(|o| o.status.success()).unwrap_or(false);
        let _ = std::fs::write(hdir.join(format!("fuzz/.built-{}-{}", spec.target, std::process::id())), if ok { "ok" } else { "failed" });
        if !ok {
            rep.labels.insert("fuzz-unavailable:build-failed".into(), 1);
            return rep;
        }
    } else {
        let marker = hdir.join(format!("fuzz/.built-{}-{}", spec.target, std::process::id()));
        let t0 = std::time::Instant::now();
        loop {
            if let Ok(s) = std::fs::read_to_string(&marker) {
                if s != "ok" {
                    rep.labels.insert("fuzz-unavailable:build-failed".into(), 1);
                    return rep;
                }
                break;
            }
            if t0.elapsed().as_secs() > 1800 {
                rep.labels.insert("fuzz-unavailable:build-timeout".into(), 1);
                return rep;
            }
            std::thread::sleep(std::time::Duration::from_millis(500));
        }
    }
    let work = hdir.join("fuzz/corpus-work").join(format!("{}-{}-{}", spec.target, std::process::id(), ctx.worker));
    let _ = std::fs::remove_dir_all(&work);
    let corpus = work.join("corpus");
    let arts = work.join("artifacts");
    if std::fs::create_dir_all(&corpus).is_err() || std::fs::create_dir_all(&arts).is_err() {
        rep.labels.insert("fuzz-unavailable:workdir".into(), 1);
        return rep;
    }
    // empty corpus on odd workers, seeded corpus on even ones (both starting points matter)
    if ctx.worker % 2 == 0 {
        for (i, s) in seeds.iter().enumerate() {
            let _ = std::fs::write(corpus.join(format!("seed-{}", i)), s);
        }
    }
    let seed = (ctx.seed.wrapping_mul(1_000_003).wrapping_add(ctx.worker as u64 + 1) % 0x7fff_ffff).max(1);
    let out = Command::new(&bin)
        .arg(&corpus)
        .arg(format!("-runs={}", spec.runs_per_worker))
        .arg(format!("-seed={}", seed))
        .arg(format!("-max_len={}", spec.max_len))
        .arg("-len_control=0")
        .arg("-print_final_stats=1")
        .arg("-timeout=30")
        .arg(format!("-artifact_prefix={}/", arts.display()))
        .env("VERIF_ROOT", verif_root())
        .env("RUST_BACKTRACE", "0")
        .output();
    let Ok(out) = out else {
        rep.labels.insert("fuzz-unavailable:spawn".into(), 1);
        return rep;
    };
    let stderr = String::from_utf8_lossy(&out.stderr);
    let execs = stderr.lines().find_map(|l| l.strip_prefix("stat::number_of_executed_units:").map(|v| v.trim().parse::<u64>().unwrap_or(0))).unwrap_or(0);
    rep.evaluations += execs;
    *rep.labels.entry("libfuzzer-executions".into()).or_default() += execs;
    let cov = stderr.lines().rev().find_map(|l| l.split("cov: ").nth(1).and_then(|r| r.split_whitespace().next()).and_then(|v| v.parse::<u64>().ok())).unwrap_or(0);
    *rep.labels.entry(format!("libfuzzer-final-cov-worker{}", ctx.worker)).or_default() += cov;
    // distinct non-trivial = inputs libFuzzer kept because they reached new coverage
    if let Ok(rd) = std::fs::read_dir(&corpus) {
        for e in rd.flatten() {
            if let Ok(b) = std::fs::read(e.path()) {
                use std::hash::{Hash, Hasher};
                let mut h = std::collections::hash_map::DefaultHasher::new();
                b.hash(&mut h);
                rep.nontrivial.insert(h.finish());
            }
        }
    }
    if !out.status.success() {
        // a crash: the artifact is the reproducible unit; replay it through the oracle in-process
        let mut found = false;
        if let Ok(rd) = std::fs::read_dir(&arts) {
            for e in rd.flatten() {
                if let Ok(b) = std::fs::read(e.path()) {
                    found = true;
                    let c = HexCase { hex: ber::hex(&b) };
                    let name = e.file_name().to_string_lossy().to_string();
                    eval_case(&mut rep, known, &c, |obs| match (spec.oracle)(&b, obs) {
                        Err(f) => Err(f),
                        Ok(()) => Err(Fail::new(
                            if name.starts_with("timeout") || name.starts_with("oom") { "env-fuzz-timeout" } else { "fuzz-crash-not-reproduced-in-process" },
                            format!("libFuzzer artifact {} ({} bytes) does not fail the oracle in-process; stderr tail: {}", name, b.len(), stderr.lines().rev().take(6).collect::<Vec<_>>().join(" | ")),
                        )),
                    });
                }
            }
        }
        if !found {
            rep.note = Some(format!("libFuzzer exited with {:?} but left no artifact: {}", out.status.code(), stderr.lines().rev().take(5).collect::<Vec<_>>().join(" | ")));
        }
    }
    let _ = std::fs::remove_dir_all(&work);
    rep
}

// ------------------------------------------------------------------ seeds

pub fn seeds_ber() -> Vec<Vec<u8>> {
    vec![
        vec![2, 2, 255, 127],
        vec![48, 14, 12, 12, 72, 101, 108, 108, 111, 32, 87, 111, 114, 108, 100, 33],
        ber::unhex("3020020101601b020103041063 6e3d726f6f742c64633d706c616273800461736466"),
        ber::unhex("30 84 00 00 00 05 04 83 00 00 01 61"),
        ber::unhex("a0 81 03 01 01 ff"),
    ]
}

pub fn seeds_filter() -> Vec<Vec<u8>> {
    [
        "(cn=Babs Jensen)", "(!(cn=Tim Howes))", "(&(objectClass=Person)(|(sn=Jensen)(cn=Babs J*)))", "(o=univ*of*mich*)", "(seeAlso=)", "(cn:caseExactMatch:=Fred Flintstone)", "(sn:dn:2.4.6.8.10:=Barney Rubble)", "(:1.2.3:=Wilma)",
        "(o=Parens R Us \\28for all your parenthetical needs\\29)", "(cn=*\\2A*)", "(bin=\\00\\00\\00\\04)", "(&)", "(|)", "cn=bare", "(entryDN:dnSubtreeMatch:=dc=x)", "(a>=1)", "(a<=1)", "(a~=1)", "(a;lang-en=*)",
    ]
    .iter()
    .map(|s| s.as_bytes().to_vec())
    .collect()
}

pub fn seeds_frames() -> Vec<Vec<u8>> {
    use crate::model::{Entry, RCtl, Res, Resp, RespMsg};
    let mut v = vec![
        RespMsg::new(1, Resp::result(1, Res::ok(""))).encode(),
        RespMsg::new(2, Resp::Entry(Entry { dn: "cn=a".into(), attrs: vec![("cn".into(), vec![b"a".to_vec()])] })).encode(),
        RespMsg::new(3, Resp::Reference(vec!["ldap://x/".into()])).encode(),
        RespMsg { id: 4, resp: Resp::result(5, Res { rc: 10, matched: "dc=x".into(), text: "t".into(), refs: Some(vec!["ldap://y/".into()]) }), ctrls: Some(vec![RCtl { oid: "1.2.840.113556.1.4.319".into(), crit: crate::model::CritForm::False, val: Some(vec![0x30, 0x05, 0x02, 0x01, 0x00, 0x04, 0x00]) }]) }.encode(),
        RespMsg::new(0, Resp::Result { app: 24, res: Res::code(52, "bye"), sasl: None, exop_name: Some("1.3.6.1.4.1.1466.20036".into()), exop_val: None }).encode(),
        RespMsg::new(5, Resp::Intermediate { name: Some("1.2".into()), val: Some(vec![1]) }).encode(),
    ];
    v.push(ber::unhex("3000"));
    v.push(ber::unhex("30050201016500"));
    v
}

pub fn seeds_strings() -> Vec<Vec<u8>> {
    ["", "a", "*", "\\", "(", ")", "\0", " x ", "#x", "a,b+c", "Lu\u{10d}i\u{107}", "a\"b<c>d;e=f", "  ", "#"].iter().map(|s| s.as_bytes().to_vec()).collect()
}

pub fn seeds_framing() -> Vec<Vec<u8>> {
    vec![vec![0; 8], vec![1, 0, 1, 0, 3, 97, 98, 99, 0, 0, 0], vec![3, 1, 5, 0, 2, 1, 1, 2, 9, 0, 4, 0, 0, 2, 0, 7, 1, 3, 0, 10, 0, 20], (0u8..64).collect()]
}
