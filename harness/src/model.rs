//! RFC 4511 message model of the harness: strict request decoder, response encoder.
//! Independent of ldap3 (DESIGN.md Appendix A).

use crate::ber::{self, Tlv, APPLICATION, CONTEXT, UNIVERSAL};
use crate::filter::{decode_filter, Filter};
use serde::{Deserialize, Serialize};

pub const MAX_ID: i64 = 2_147_483_647;

// ------------------------------------------------------------------ controls

/// A control as the caller / the RFC sees it.
#[derive(Clone, Debug, PartialEq, Eq, Hash, Serialize, Deserialize, PartialOrd, Ord)]
pub struct Ctl {
    pub oid: String,
    pub crit: bool,
    pub val: Option<Vec<u8>>,
}

/// How a response encodes criticality (all three are legal BER for responses).
#[derive(Clone, Copy, Debug, PartialEq, Eq, Hash, Serialize, Deserialize)]
pub enum CritForm {
    Absent,
    False,
    True,
}

#[derive(Clone, Debug, PartialEq, Eq, Hash, Serialize, Deserialize)]
pub struct RCtl {
    pub oid: String,
    pub crit: CritForm,
    pub val: Option<Vec<u8>>,
}

impl RCtl {
    pub fn as_ctl(&self) -> Ctl {
        Ctl { oid: self.oid.clone(), crit: self.crit == CritForm::True, val: self.val.clone() }
    }
    pub fn to_tlv(&self) -> Tlv {
        let mut k = vec![Tlv::octets(self.oid.as_bytes().to_vec())];
        match self.crit {
            CritForm::Absent => {}
            CritForm::False => k.push(Tlv::boolean(false)),
            CritForm::True => k.push(Tlv::boolean(true)),
        }
        if let Some(v) = &self.val {
            k.push(Tlv::octets(v.clone()));
        }
        Tlv::seq(k)
    }
}

pub fn encode_controls(c: &[RCtl]) -> Tlv {
    Tlv::cons(CONTEXT, 0, c.iter().map(|x| x.to_tlv()).collect())
}

fn ostr(t: &Tlv, what: &str) -> Result<Vec<u8>, String> {
    if !t.is(UNIVERSAL, 4) {
        return Err(format!("{}: expected universal OCTET STRING, got class {} tag {}", what, t.class, t.tag));
    }
    t.as_prim().map(|v| v.to_vec()).ok_or_else(|| format!("{}: OCTET STRING must be primitive (RFC 4511 5.1)", what))
}

fn utf8(v: Vec<u8>, what: &str) -> Result<String, String> {
    String::from_utf8(v).map_err(|_| format!("{}: not UTF-8", what))
}

fn int_of(t: &Tlv, tag: u8, what: &str) -> Result<i64, String> {
    if !t.is(UNIVERSAL, tag) {
        return Err(format!("{}: expected universal tag {}, got class {} tag {}", what, tag, t.class, t.tag));
    }
    let c = t.as_prim().ok_or_else(|| format!("{}: must be primitive", what))?;
    if !ber::int_is_minimal(c) {
        return Err(format!("{}: INTEGER contents {} are not the minimal two's complement", what, ber::hex(c)));
    }
    Ok(ber::int_value(c).unwrap())
}

fn boolean_strict(t: &Tlv, what: &str) -> Result<bool, String> {
    if !t.is(UNIVERSAL, 1) {
        return Err(format!("{}: expected BOOLEAN", what));
    }
    let c = t.as_prim().ok_or_else(|| format!("{}: BOOLEAN must be primitive", what))?;
    match c {
        [0x00] => Ok(false),
        [0xFF] => Ok(true),
        _ => Err(format!("{}: BOOLEAN must be 00 or FF (RFC 4511 5.1), got {}", what, ber::hex(c))),
    }
}

/// Strict request-side control list: `[0] SEQUENCE OF Control`.
pub fn decode_controls_strict(t: &Tlv) -> Result<Vec<Ctl>, String> {
    if !t.is(CONTEXT, 0) {
        return Err("controls must be [0]".into());
    }
    let list = t.as_cons().ok_or("controls must be constructed")?;
    let mut out = Vec::new();
    for c in list {
        if !c.is(UNIVERSAL, 16) {
            return Err("control must be a SEQUENCE".into());
        }
        let k = c.as_cons().ok_or("control must be constructed")?;
        if k.is_empty() || k.len() > 3 {
            return Err(format!("control has {} elements", k.len()));
        }
        let oid = utf8(ostr(&k[0], "controlType")?, "controlType")?;
        let mut crit = false;
        let mut val = None;
        let mut i = 1;
        if i < k.len() && k[i].is(UNIVERSAL, 1) {
            crit = boolean_strict(&k[i], "criticality")?;
            if !crit {
                return Err("criticality FALSE equals its DEFAULT and must be absent (RFC 4511 5.1)".into());
            }
            i += 1;
        }
        if i < k.len() {
            val = Some(ostr(&k[i], "controlValue")?);
            i += 1;
        }
        if i != k.len() {
            return Err("unexpected element in control".into());
        }
        out.push(Ctl { oid, crit, val });
    }
    Ok(out)
}

// ------------------------------------------------------------------ requests

#[derive(Clone, Debug, PartialEq, Eq, Serialize, Deserialize)]
pub enum Auth {
    Simple(Vec<u8>),
    Sasl { mech: Vec<u8>, creds: Option<Vec<u8>> },
}

pub type AttrVals = (Vec<u8>, Vec<Vec<u8>>);

#[derive(Clone, Debug, PartialEq, Eq, Serialize, Deserialize)]
pub enum Req {
    Bind { version: i64, name: Vec<u8>, auth: Auth },
    Unbind,
    Search { base: Vec<u8>, scope: i64, deref: i64, size: i64, time: i64, types_only: bool, filter: Filter, attrs: Vec<Vec<u8>> },
    Modify { dn: Vec<u8>, changes: Vec<(i64, Vec<u8>, Vec<Vec<u8>>)> },
    Add { dn: Vec<u8>, attrs: Vec<AttrVals> },
    Del(Vec<u8>),
    ModDn { dn: Vec<u8>, rdn: Vec<u8>, delete_old: bool, new_sup: Option<Vec<u8>> },
    Compare { dn: Vec<u8>, attr: Vec<u8>, val: Vec<u8> },
    Abandon(i64),
    Extended { name: Vec<u8>, val: Option<Vec<u8>> },
}

impl Req {
    pub fn kind(&self) -> &'static str {
        match self {
            Req::Bind { .. } => "bind",
            Req::Unbind => "unbind",
            Req::Search { .. } => "search",
            Req::Modify { .. } => "modify",
            Req::Add { .. } => "add",
            Req::Del(_) => "delete",
            Req::ModDn { .. } => "moddn",
            Req::Compare { .. } => "compare",
            Req::Abandon(_) => "abandon",
            Req::Extended { .. } => "extended",
        }
    }
    /// Normal form: SET OF value lists sorted (multiset comparison), filter and/or sorted.
    pub fn normalized(&self) -> Req {
        let mut r = self.clone();
        match &mut r {
            Req::Modify { changes, .. } => changes.iter_mut().for_each(|c| c.2.sort()),
            Req::Add { attrs, .. } => attrs.iter_mut().for_each(|a| a.1.sort()),
            Req::Search { filter, .. } => *filter = filter.normalized(),
            _ => {}
        }
        r
    }
    /// application tag of the response that completes this request (None: no response)
    pub fn response_tag(&self) -> Option<u8> {
        Some(match self {
            Req::Bind { .. } => 1,
            Req::Search { .. } => 5,
            Req::Modify { .. } => 7,
            Req::Add { .. } => 9,
            Req::Del(_) => 11,
            Req::ModDn { .. } => 13,
            Req::Compare { .. } => 15,
            Req::Extended { .. } => 24,
            Req::Unbind | Req::Abandon(_) => return None,
        })
    }
    /// The string the harness uses to recognise which client operation sent this request.
    pub fn marker(&self) -> Vec<u8> {
        match self {
            Req::Bind { name, .. } => name.clone(),
            Req::Search { base, .. } => base.clone(),
            Req::Modify { dn, .. } | Req::Add { dn, .. } | Req::Del(dn) | Req::ModDn { dn, .. } | Req::Compare { dn, .. } => dn.clone(),
            Req::Extended { val, .. } => val.clone().unwrap_or_default(),
            Req::Unbind | Req::Abandon(_) => vec![],
        }
    }
}

#[derive(Clone, Debug, PartialEq, Eq, Serialize, Deserialize)]
pub struct ReqMsg {
    pub id: i64,
    pub req: Req,
    pub ctrls: Option<Vec<Ctl>>,
}

fn attr_vals(t: &Tlv, what: &str) -> Result<AttrVals, String> {
    if !t.is(UNIVERSAL, 16) {
        return Err(format!("{}: PartialAttribute must be a SEQUENCE", what));
    }
    let k = t.as_cons().ok_or_else(|| format!("{}: must be constructed", what))?;
    if k.len() != 2 {
        return Err(format!("{}: PartialAttribute has {} elements", what, k.len()));
    }
    let typ = ostr(&k[0], "attribute type")?;
    if !k[1].is(UNIVERSAL, 17) {
        return Err(format!("{}: vals must be a SET", what));
    }
    let vals = k[1].as_cons().ok_or("vals must be constructed")?.iter().map(|v| ostr(v, "attribute value")).collect::<Result<Vec<_>, _>>()?;
    Ok((typ, vals))
}

/// Strict RFC 4511 decoder for one client->server LDAPMessage.
pub fn decode_request(t: &Tlv) -> Result<ReqMsg, String> {
    if !t.is(UNIVERSAL, 16) {
        return Err("LDAPMessage must be a universal SEQUENCE".into());
    }
    let k = t.as_cons().ok_or("LDAPMessage must be constructed")?;
    if k.len() < 2 || k.len() > 3 {
        return Err(format!("LDAPMessage has {} elements", k.len()));
    }
    let id = int_of(&k[0], 2, "messageID")?;
    if !(0..=MAX_ID).contains(&id) {
        return Err(format!("messageID {} outside 0..2^31-1", id));
    }
    let op = &k[1];
    if op.class != APPLICATION {
        return Err(format!("protocolOp must be application class, got class {} tag {}", op.class, op.tag));
    }
    let cons = |n: usize| -> Result<&[Tlv], String> {
        let c = op.as_cons().ok_or("protocolOp must be constructed")?;
        if c.len() < n {
            return Err(format!("protocolOp [APPLICATION {}] has {} elements, needs {}", op.tag, c.len(), n));
        }
        Ok(c)
    };
    let req = match op.tag {
        0 => {
            let c = cons(3)?;
            if c.len() != 3 {
                return Err("BindRequest must have 3 elements".into());
            }
            let version = int_of(&c[0], 2, "version")?;
            let name = ostr(&c[1], "bind name")?;
            let auth = if c[2].is(CONTEXT, 0) {
                Auth::Simple(c[2].as_prim().ok_or("simple auth must be primitive")?.to_vec())
            } else if c[2].is(CONTEXT, 3) {
                let s = c[2].as_cons().ok_or("sasl auth must be constructed")?;
                if s.is_empty() || s.len() > 2 {
                    return Err("SaslCredentials element count".into());
                }
                Auth::Sasl { mech: ostr(&s[0], "mechanism")?, creds: if s.len() == 2 { Some(ostr(&s[1], "credentials")?) } else { None } }
            } else {
                return Err(format!("unknown AuthenticationChoice class {} tag {}", c[2].class, c[2].tag));
            };
            Req::Bind { version, name, auth }
        }
        2 => {
            let p = op.as_prim().ok_or("UnbindRequest must be primitive NULL")?;
            if !p.is_empty() {
                return Err("UnbindRequest NULL must be empty".into());
            }
            Req::Unbind
        }
        3 => {
            let c = cons(8)?;
            if c.len() != 8 {
                return Err(format!("SearchRequest has {} elements", c.len()));
            }
            let scope = int_of(&c[1], 10, "scope")?;
            let deref = int_of(&c[2], 10, "derefAliases")?;
            if !(0..=2).contains(&scope) {
                return Err(format!("scope {} out of range", scope));
            }
            if !(0..=3).contains(&deref) {
                return Err(format!("derefAliases {} out of range", deref));
            }
            let size = int_of(&c[3], 2, "sizeLimit")?;
            let time = int_of(&c[4], 2, "timeLimit")?;
            if !(0..=MAX_ID).contains(&size) || !(0..=MAX_ID).contains(&time) {
                return Err("limit outside 0..maxInt".into());
            }
            if !c[7].is(UNIVERSAL, 16) {
                return Err("attributes must be a SEQUENCE".into());
            }
            Req::Search {
                base: ostr(&c[0], "baseObject")?,
                scope,
                deref,
                size,
                time,
                types_only: boolean_strict(&c[5], "typesOnly")?,
                filter: decode_filter(&c[6])?,
                attrs: c[7].as_cons().ok_or("attributes must be constructed")?.iter().map(|a| ostr(a, "attribute selector")).collect::<Result<Vec<_>, _>>()?,
            }
        }
        6 => {
            let c = cons(2)?;
            if c.len() != 2 {
                return Err("ModifyRequest must have 2 elements".into());
            }
            if !c[1].is(UNIVERSAL, 16) {
                return Err("changes must be a SEQUENCE".into());
            }
            let mut changes = Vec::new();
            for ch in c[1].as_cons().ok_or("changes must be constructed")? {
                if !ch.is(UNIVERSAL, 16) {
                    return Err("change must be a SEQUENCE".into());
                }
                let e = ch.as_cons().ok_or("change must be constructed")?;
                if e.len() != 2 {
                    return Err("change must have 2 elements".into());
                }
                let opn = int_of(&e[0], 10, "operation")?;
                if !(0..=3).contains(&opn) {
                    return Err(format!("modify operation {} unknown", opn));
                }
                let (typ, vals) = attr_vals(&e[1], "modification")?;
                changes.push((opn, typ, vals));
            }
            Req::Modify { dn: ostr(&c[0], "object")?, changes }
        }
        8 => {
            let c = cons(2)?;
            if c.len() != 2 {
                return Err("AddRequest must have 2 elements".into());
            }
            if !c[1].is(UNIVERSAL, 16) {
                return Err("attributes must be a SEQUENCE".into());
            }
            let attrs = c[1].as_cons().ok_or("attributes must be constructed")?.iter().map(|a| attr_vals(a, "attribute")).collect::<Result<Vec<_>, _>>()?;
            Req::Add { dn: ostr(&c[0], "entry")?, attrs }
        }
        10 => Req::Del(op.as_prim().ok_or("DelRequest must be primitive")?.to_vec()),
        12 => {
            let c = cons(3)?;
            if c.len() > 4 {
                return Err("ModifyDNRequest has too many elements".into());
            }
            let new_sup = if c.len() == 4 {
                if !c[3].is(CONTEXT, 0) {
                    return Err(format!("newSuperior must be [0], got class {} tag {}", c[3].class, c[3].tag));
                }
                Some(c[3].as_prim().ok_or("newSuperior must be primitive")?.to_vec())
            } else {
                None
            };
            Req::ModDn { dn: ostr(&c[0], "entry")?, rdn: ostr(&c[1], "newrdn")?, delete_old: boolean_strict(&c[2], "deleteoldrdn")?, new_sup }
        }
        14 => {
            let c = cons(2)?;
            if c.len() != 2 {
                return Err("CompareRequest must have 2 elements".into());
            }
            if !c[1].is(UNIVERSAL, 16) {
                return Err("ava must be a SEQUENCE".into());
            }
            let a = c[1].as_cons().ok_or("ava must be constructed")?;
            if a.len() != 2 {
                return Err("ava must have 2 elements".into());
            }
            Req::Compare { dn: ostr(&c[0], "entry")?, attr: ostr(&a[0], "attributeDesc")?, val: ostr(&a[1], "assertionValue")? }
        }
        16 => {
            let p = op.as_prim().ok_or("AbandonRequest must be primitive")?;
            if !ber::int_is_minimal(p) {
                return Err("AbandonRequest id not minimal".into());
            }
            Req::Abandon(ber::int_value(p).unwrap())
        }
        23 => {
            let c = cons(1)?;
            if c.len() > 2 {
                return Err("ExtendedRequest has too many elements".into());
            }
            if !c[0].is(CONTEXT, 0) {
                return Err("requestName must be [0]".into());
            }
            let name = c[0].as_prim().ok_or("requestName must be primitive")?.to_vec();
            let val = if c.len() == 2 {
                if !c[1].is(CONTEXT, 1) {
                    return Err("requestValue must be [1]".into());
                }
                Some(c[1].as_prim().ok_or("requestValue must be primitive")?.to_vec())
            } else {
                None
            };
            Req::Extended { name, val }
        }
        n => return Err(format!("unknown request [APPLICATION {}]", n)),
    };
    let ctrls = if k.len() == 3 { Some(decode_controls_strict(&k[2])?) } else { None };
    Ok(ReqMsg { id, req, ctrls })
}

// ------------------------------------------------------------------ responses

#[derive(Clone, Debug, PartialEq, Eq, Hash, Serialize, Deserialize)]
pub struct Res {
    pub rc: u32,
    pub matched: String,
    pub text: String,
    pub refs: Option<Vec<String>>,
}

impl Res {
    pub fn ok(text: &str) -> Res {
        Res { rc: 0, matched: String::new(), text: text.into(), refs: None }
    }
    pub fn code(rc: u32, text: &str) -> Res {
        Res { rc, matched: String::new(), text: text.into(), refs: None }
    }
    fn elements(&self) -> Vec<Tlv> {
        let mut k = vec![Tlv::enumerated(self.rc as i64), Tlv::octets(self.matched.as_bytes().to_vec()), Tlv::octets(self.text.as_bytes().to_vec())];
        if let Some(r) = &self.refs {
            k.push(Tlv::cons(CONTEXT, 3, r.iter().map(|u| Tlv::octets(u.as_bytes().to_vec())).collect()));
        }
        k
    }
}

#[derive(Clone, Debug, PartialEq, Eq, Hash, Serialize, Deserialize)]
pub struct Entry {
    pub dn: String,
    pub attrs: Vec<(String, Vec<Vec<u8>>)>,
}

impl Entry {
    pub fn simple(dn: &str) -> Entry {
        Entry { dn: dn.into(), attrs: vec![] }
    }
    pub fn body(&self) -> Vec<Tlv> {
        vec![
            Tlv::octets(self.dn.as_bytes().to_vec()),
            Tlv::seq(self.attrs.iter().map(|(a, vs)| Tlv::seq(vec![Tlv::octets(a.as_bytes().to_vec()), Tlv::set(vs.iter().map(|v| Tlv::octets(v.clone())).collect())])).collect()),
        ]
    }
    pub fn to_tlv(&self) -> Tlv {
        Tlv::cons(APPLICATION, 4, self.body())
    }
}

#[derive(Clone, Debug, PartialEq, Eq, Hash, Serialize, Deserialize)]
pub enum Resp {
    /// LDAPResult-shaped response with application tag `app`
    Result { app: u8, res: Res, sasl: Option<Vec<u8>>, exop_name: Option<String>, exop_val: Option<Vec<u8>> },
    Entry(Entry),
    Reference(Vec<String>),
    Intermediate { name: Option<String>, val: Option<Vec<u8>> },
}

impl Resp {
    pub fn result(app: u8, res: Res) -> Resp {
        Resp::Result { app, res, sasl: None, exop_name: None, exop_val: None }
    }
    pub fn to_tlv(&self) -> Tlv {
        match self {
            Resp::Result { app, res, sasl, exop_name, exop_val } => {
                let mut k = res.elements();
                if let Some(s) = sasl {
                    k.push(Tlv::prim(CONTEXT, 7, s.clone()));
                }
                if let Some(n) = exop_name {
                    k.push(Tlv::prim(CONTEXT, 10, n.as_bytes().to_vec()));
                }
                if let Some(v) = exop_val {
                    k.push(Tlv::prim(CONTEXT, 11, v.clone()));
                }
                Tlv::cons(APPLICATION, *app, k)
            }
            Resp::Entry(e) => e.to_tlv(),
            Resp::Reference(uris) => Tlv::cons(APPLICATION, 19, uris.iter().map(|u| Tlv::octets(u.as_bytes().to_vec())).collect()),
            Resp::Intermediate { name, val } => {
                let mut k = Vec::new();
                if let Some(n) = name {
                    k.push(Tlv::prim(CONTEXT, 0, n.as_bytes().to_vec()));
                }
                if let Some(v) = val {
                    k.push(Tlv::prim(CONTEXT, 1, v.clone()));
                }
                Tlv::cons(APPLICATION, 25, k)
            }
        }
    }
}

#[derive(Clone, Debug, PartialEq, Eq, Hash, Serialize, Deserialize)]
pub struct RespMsg {
    pub id: i64,
    pub resp: Resp,
    pub ctrls: Option<Vec<RCtl>>,
}

impl RespMsg {
    pub fn new(id: i64, resp: Resp) -> RespMsg {
        RespMsg { id, resp, ctrls: None }
    }
    pub fn to_tlv(&self) -> Tlv {
        let mut k = vec![Tlv::int(self.id), self.resp.to_tlv()];
        if let Some(c) = &self.ctrls {
            k.push(encode_controls(c));
        }
        Tlv::seq(k)
    }
    pub fn encode(&self) -> Vec<u8> {
        ber::encode(&self.to_tlv())
    }
    pub fn encode_forms(&self, forms: &[u8]) -> Vec<u8> {
        ber::encode_forms(&self.to_tlv(), forms)
    }
}

/// Split a client->server byte log into complete messages; returns (messages, bytes consumed).
pub fn frame_requests(log: &[u8]) -> Result<(Vec<(Tlv, Vec<u8>)>, usize), String> {
    let mut out = Vec::new();
    let mut pos = 0;
    loop {
        match ber::parse(&log[pos..]) {
            ber::Parsed::Complete(t, used) => {
                out.push((t, log[pos..pos + used].to_vec()));
                pos += used;
            }
            ber::Parsed::Incomplete => return Ok((out, pos)),
            ber::Parsed::Invalid(e) => return Err(format!("client sent invalid BER at offset {}: {}", pos, e)),
        }
    }
}

#[cfg(test)]
mod tests {
    use super::*;

    #[test]
    fn bind_vector_from_repo_tests() {
        let bind = vec![
            0x30, 0x20, 0x02, 0x01, 0x01, 0x60, 0x1B, 0x02, 0x01, 0x03, 0x04, 0x10, 0x63, 0x6e, 0x3d, 0x72, 0x6f, 0x6f, 0x74, 0x2c,
            0x64, 0x63, 0x3d, 0x70, 0x6c, 0x61, 0x62, 0x73, 0x80, 0x04, 0x61, 0x73, 0x64, 0x66,
        ];
        let m = decode_request(&ber::parse_all(&bind).unwrap()).unwrap();
        assert_eq!(m.id, 1);
        assert_eq!(m.req, Req::Bind { version: 3, name: b"cn=root,dc=plabs".to_vec(), auth: Auth::Simple(b"asdf".to_vec()) });
    }

    #[test]
    fn rfc_style_messages() {
        // searchRequest: base "", scope base, (objectClass=*)
        let sr = Tlv::seq(vec![
            Tlv::int(2),
            Tlv::cons(APPLICATION, 3, vec![Tlv::octets(vec![]), Tlv::enumerated(0), Tlv::enumerated(0), Tlv::int(0), Tlv::int(0), Tlv::boolean(false), Tlv::prim(CONTEXT, 7, b"objectClass".to_vec()), Tlv::seq(vec![])]),
        ]);
        let m = decode_request(&sr).unwrap();
        assert!(matches!(m.req, Req::Search { .. }));
        // criticality FALSE explicit must be refused by the strict decoder
        let bad = Tlv::cons(CONTEXT, 0, vec![Tlv::seq(vec![Tlv::octets(b"1.2".to_vec()), Tlv::boolean(false)])]);
        assert!(decode_controls_strict(&bad).is_err());
        let r = RespMsg::new(7, Resp::result(1, Res::ok("hi")));
        assert_eq!(r.encode(), vec![0x30, 0x0e, 0x02, 0x01, 0x07, 0x61, 0x09, 0x0a, 0x01, 0x00, 0x04, 0x00, 0x04, 0x02, b'h', b'i']);
    }
}
