//! Deterministic simulation substrate: a scripted in-memory transport handed to the
//! real connection driver, and a paused-clock single-thread runtime whose select!
//! branch order is a function of the case (DESIGN.md §2.2).

use crate::ber::{self, Parsed, Tlv};
use crate::model::{self, ReqMsg};
use ldap3::{Ldap, LdapConnAsync};
use std::collections::VecDeque;
use std::future::Future;
use std::io;
use std::pin::Pin;
use std::sync::{Arc, Mutex};
use std::task::{Context, Poll, Waker};
use std::time::Duration;
use tokio::io::{AsyncRead, AsyncWrite, ReadBuf};

#[derive(Clone, Copy, Debug, PartialEq, Eq, serde::Serialize, serde::Deserialize)]
pub enum ReadEnd {
    Eof,
    Reset,
    /// the read fails with another I/O error kind (index into READ_ERROR_KINDS)
    Error(u8),
}

/// connection failures a transport can report besides end-of-file and reset
pub const READ_ERROR_KINDS: &[io::ErrorKind] = &[io::ErrorKind::TimedOut, io::ErrorKind::WouldBlock, io::ErrorKind::InvalidData, io::ErrorKind::ConnectionAborted, io::ErrorKind::Other, io::ErrorKind::UnexpectedEof, io::ErrorKind::BrokenPipe];

#[derive(Debug, Default)]
pub struct WireInner {
    // client -> server
    pub c2s: Vec<u8>,
    pub c2s_parsed: usize,
    /// max bytes accepted per poll_write, cycled (0 = unlimited)
    pub write_max: Vec<usize>,
    write_i: usize,
    /// writes fail once this many bytes have been accepted
    pub write_fail_at: Option<usize>,
    /// once this many bytes have been accepted every write reports Ok(0) (a transport that accepts nothing more)
    pub write_zero_at: Option<usize>,
    pub write_fail_kind: Option<io::ErrorKind>,
    pub write_calls: usize,
    /// back-pressure: poll_write returns Pending until unblocked
    pub write_blocked: bool,
    writer_waker: Option<Waker>,
    pub write_errors: usize,
    pub shutdown_called: bool,
    pub dropped: bool,
    /// offset in c2s at the moment shutdown was called
    pub shutdown_at: Option<usize>,
    server_waker: Option<Waker>,
    // server -> client
    pub s2c: VecDeque<u8>,
    pub delivered: usize,
    /// max bytes delivered per poll_read, cycled (0 = unlimited)
    pub read_chunks: Vec<usize>,
    read_i: usize,
    /// after a chunk is delivered the next poll_read yields once (Pending + immediate wake)
    pub yield_after_chunk: Vec<bool>,
    yield_i: usize,
    pending_yield: bool,
    pub read_end: Option<ReadEnd>,
    pub read_end_seen: bool,
    reader_waker: Option<Waker>,
    /// the driver's last poll_read returned Pending (it has consumed everything available)
    pub reader_idle: bool,
    pub read_calls: usize,
    /// polls after the terminal read event was already reported
    pub polls_after_end: usize,
    /// the reader kept polling a finished transport (livelock); reads now stay Pending
    pub spinning: bool,
}

#[derive(Clone, Debug)]
pub struct Wire(pub Arc<Mutex<WireInner>>);

#[derive(Debug)]
pub struct ScriptedIo(Arc<Mutex<WireInner>>);

impl Drop for ScriptedIo {
    fn drop(&mut self) {
        let mut w = self.0.lock().unwrap();
        w.dropped = true;
        if let Some(wk) = w.server_waker.take() {
            wk.wake();
        }
    }
}

impl AsyncRead for ScriptedIo {
    fn poll_read(self: Pin<&mut Self>, cx: &mut Context<'_>, buf: &mut ReadBuf<'_>) -> Poll<io::Result<()>> {
        let mut w = self.0.lock().unwrap();
        w.read_calls += 1;
        if w.pending_yield {
            w.pending_yield = false;
            cx.waker().wake_by_ref();
            return Poll::Pending;
        }
        if !w.s2c.is_empty() {
            let lim = if w.read_chunks.is_empty() {
                0
            } else {
                let i = w.read_i % w.read_chunks.len();
                w.read_i += 1;
                w.read_chunks[i]
            };
            let mut n = w.s2c.len().min(buf.remaining());
            if lim > 0 {
                n = n.min(lim);
            }
            let chunk: Vec<u8> = w.s2c.drain(..n).collect();
            buf.put_slice(&chunk);
            w.delivered += n;
            w.reader_idle = false;
            if !w.yield_after_chunk.is_empty() {
                let i = w.yield_i % w.yield_after_chunk.len();
                w.yield_i += 1;
                if w.yield_after_chunk[i] {
                    w.pending_yield = true;
                }
            }
            return Poll::Ready(Ok(()));
        }
        if w.read_end.is_some() && w.read_end_seen {
            w.polls_after_end += 1;
            if w.polls_after_end > 2000 {
                // A reader that polls a finished transport thousands of times is livelocked.
                // Park it so that the virtual-clock watchdog can expose the hang deterministically.
                w.spinning = true;
                return Poll::Pending;
            }
        }
        match w.read_end {
            Some(ReadEnd::Eof) => {
                w.read_end_seen = true;
                Poll::Ready(Ok(()))
            }
            Some(ReadEnd::Reset) => {
                w.read_end_seen = true;
                Poll::Ready(Err(io::Error::new(io::ErrorKind::ConnectionReset, "scripted connection reset")))
            }
            Some(ReadEnd::Error(k)) => {
                w.read_end_seen = true;
                Poll::Ready(Err(io::Error::new(READ_ERROR_KINDS[k as usize % READ_ERROR_KINDS.len()], "scripted read error")))
            }
            None => {
                w.reader_waker = Some(cx.waker().clone());
                w.reader_idle = true;
                Poll::Pending
            }
        }
    }
}

impl AsyncWrite for ScriptedIo {
    fn poll_write(self: Pin<&mut Self>, cx: &mut Context<'_>, buf: &[u8]) -> Poll<io::Result<usize>> {
        let mut w = self.0.lock().unwrap();
        w.write_calls += 1;
        if w.write_blocked && !w.shutdown_called {
            w.writer_waker = Some(cx.waker().clone());
            return Poll::Pending;
        }
        if w.shutdown_called {
            w.write_errors += 1;
            return Poll::Ready(Err(io::Error::new(io::ErrorKind::BrokenPipe, "write after shutdown")));
        }
        let mut n = buf.len();
        if let Some(at) = w.write_zero_at {
            if w.c2s.len() >= at && !buf.is_empty() {
                w.write_errors += 1;
                return Poll::Ready(Ok(0));
            }
            n = n.min(at - w.c2s.len());
        }
        if let Some(at) = w.write_fail_at {
            if w.c2s.len() >= at {
                w.write_errors += 1;
                let kind = w.write_fail_kind.unwrap_or(io::ErrorKind::BrokenPipe);
                return Poll::Ready(Err(io::Error::new(kind, "scripted write failure")));
            }
            n = n.min(at - w.c2s.len());
        }
        if !w.write_max.is_empty() {
            let i = w.write_i % w.write_max.len();
            w.write_i += 1;
            if w.write_max[i] > 0 {
                n = n.min(w.write_max[i]);
            }
        }
        if buf.is_empty() {
            return Poll::Ready(Ok(0));
        }
        let n = n.max(1).min(buf.len());
        w.c2s.extend_from_slice(&buf[..n]);
        if let Some(wk) = w.server_waker.take() {
            wk.wake();
        }
        Poll::Ready(Ok(n))
    }

    fn poll_flush(self: Pin<&mut Self>, _cx: &mut Context<'_>) -> Poll<io::Result<()>> {
        Poll::Ready(Ok(()))
    }

    fn poll_shutdown(self: Pin<&mut Self>, _cx: &mut Context<'_>) -> Poll<io::Result<()>> {
        let mut w = self.0.lock().unwrap();
        if !w.shutdown_called {
            w.shutdown_called = true;
            w.shutdown_at = Some(w.c2s.len());
        }
        if let Some(wk) = w.server_waker.take() {
            wk.wake();
        }
        Poll::Ready(Ok(()))
    }
}

#[derive(Debug)]
pub enum Recv {
    /// a complete request: (decoded or decode error, raw tlv, raw bytes)
    Msg(Result<ReqMsg, String>, Tlv, Vec<u8>),
    /// the client's byte stream is not BER
    Garbage(String),
    /// client closed its write side / dropped the transport (no further requests)
    Closed,
}

impl Wire {
    pub fn new() -> (Wire, ScriptedIo) {
        let a = Arc::new(Mutex::new(WireInner::default()));
        (Wire(a.clone()), ScriptedIo(a))
    }

    pub fn with<R>(&self, f: impl FnOnce(&mut WireInner) -> R) -> R {
        f(&mut self.0.lock().unwrap())
    }

    /// server -> client bytes become readable now
    pub fn push(&self, bytes: &[u8]) {
        let mut w = self.0.lock().unwrap();
        w.s2c.extend(bytes.iter().copied());
        if let Some(wk) = w.reader_waker.take() {
            wk.wake();
        }
    }

    /// socket send buffer full (true) / drained (false)
    pub fn block_writes(&self, on: bool) {
        let mut w = self.0.lock().unwrap();
        w.write_blocked = on;
        if !on {
            if let Some(wk) = w.writer_waker.take() {
                wk.wake();
            }
        }
    }

    /// after all pushed bytes have been read, the client sees this
    pub fn end_read(&self, e: ReadEnd) {
        let mut w = self.0.lock().unwrap();
        w.read_end = Some(e);
        if let Some(wk) = w.reader_waker.take() {
            wk.wake();
        }
    }

    fn try_frame(w: &mut WireInner) -> Option<Recv> {
        let rest = &w.c2s[w.c2s_parsed..];
        match ber::parse(rest) {
            Parsed::Complete(t, used) => {
                let raw = rest[..used].to_vec();
                w.c2s_parsed += used;
                Some(Recv::Msg(model::decode_request(&t), t, raw))
            }
            Parsed::Invalid(e) => {
                w.c2s_parsed = w.c2s.len();
                Some(Recv::Garbage(e.to_string()))
            }
            Parsed::Incomplete => None,
        }
    }

    /// Non-blocking: next complete request if one has fully arrived.
    pub fn try_recv(&self) -> Option<Recv> {
        let mut w = self.0.lock().unwrap();
        Self::try_frame(&mut w)
    }

    /// Wait for the next request, or for the client side to close.
    pub fn recv(&self) -> impl Future<Output = Recv> + '_ {
        std::future::poll_fn(move |cx| {
            let mut w = self.0.lock().unwrap();
            if let Some(r) = Self::try_frame(&mut w) {
                return Poll::Ready(r);
            }
            if w.shutdown_called || w.dropped {
                return Poll::Ready(Recv::Closed);
            }
            w.server_waker = Some(cx.waker().clone());
            Poll::Pending
        })
    }

    pub fn client_closed(&self) -> bool {
        let w = self.0.lock().unwrap();
        w.shutdown_called || w.dropped
    }
}

pub const WATCHDOG: Duration = Duration::from_secs(1_000_000);

/// Outcome of a simulated scenario.
pub enum SimResult<T> {
    Done(T),
    /// the virtual watchdog fired: some future can never complete
    Hang,
}

/// Run `fut` on a fresh paused-clock current-thread runtime whose internal RNG
/// (select! branch order) is seeded from `sched_seed`.
pub fn run_sim<T>(sched_seed: u64, fut: impl Future<Output = T>) -> SimResult<T> {
    let mut seed = [0u8; 16];
    seed[..8].copy_from_slice(&sched_seed.to_le_bytes());
    seed[8..].copy_from_slice(&(sched_seed ^ 0x5bd1e995_9e3779b9).to_le_bytes());
    let rt = tokio::runtime::Builder::new_current_thread()
        .enable_time()
        .start_paused(true)
        .rng_seed(tokio::runtime::RngSeed::from_bytes(&seed))
        .build()
        .expect("runtime");
    let r = rt.block_on(async { tokio::time::timeout(WATCHDOG, fut).await });
    drop(rt);
    match r {
        Ok(v) => SimResult::Done(v),
        Err(_) => SimResult::Hang,
    }
}

/// "Wait until nothing else can run": with a paused clock, time only advances when
/// every task is idle, so a 1 ms virtual sleep returns exactly at global quiescence.
pub async fn quiesce() {
    tokio::time::sleep(Duration::from_millis(1)).await;
}

#[derive(Debug, Clone, PartialEq)]
pub enum DriveEnd {
    Ok,
    Err(String),
    Panic(String),
}

/// Connection under test: real driver over a scripted transport.
pub struct Conn {
    pub wire: Wire,
    pub ldap: Ldap,
    pub driver: tokio::task::JoinHandle<Result<(), String>>,
    pub gauges: Arc<Mutex<(usize, usize)>>,
    pub msgmap: Arc<Mutex<(i32, std::collections::HashSet<i32>)>>,
}

pub fn connect() -> Conn {
    let (wire, io) = Wire::new();
    let (conn, ldap) = LdapConnAsync::verif_from_io(Box::new(io));
    let gauges = conn.verif_gauges();
    let msgmap = ldap.verif_msgmap();
    let driver = tokio::spawn(async move { conn.drive().await.map_err(|e| format!("{:?}", e)) });
    Conn { wire, ldap, driver, gauges, msgmap }
}

impl Conn {
    /// Await the driver's end (caller must make sure it can end).
    pub async fn drive_end(self) -> DriveEnd {
        join_driver(self.driver).await
    }
}

pub async fn join_driver(h: tokio::task::JoinHandle<Result<(), String>>) -> DriveEnd {
    match h.await {
        Ok(Ok(())) => DriveEnd::Ok,
        Ok(Err(e)) => DriveEnd::Err(e),
        Err(je) => {
            if je.is_panic() {
                let p = crate::runner::take_panics();
                DriveEnd::Panic(p.into_iter().last().unwrap_or_else(|| "driver panicked".into()))
            } else {
                DriveEnd::Err("cancelled".into())
            }
        }
    }
}

/// Short classification of an LdapError for oracles.
pub fn err_kind(e: &ldap3::LdapError) -> String {
    use ldap3::LdapError::*;
    match e {
        Io { .. } => "Io".into(),
        OpSend { .. } => "OpSend".into(),
        ResultRecv { .. } => "ResultRecv".into(),
        IdScrubSend { .. } => "IdScrubSend".into(),
        MiscSend { .. } => "MiscSend".into(),
        Timeout { .. } => "Timeout".into(),
        FilterParsing => "FilterParsing".into(),
        EndOfStream => "EndOfStream".into(),
        UrlParsing { .. } => "UrlParsing".into(),
        UnknownScheme(_) => "UnknownScheme".into(),
        NativeTLS { .. } => "NativeTLS".into(),
        LdapResult { result } => format!("LdapResult({})", result.rc),
        AddNoValues => "AddNoValues".into(),
        AdapterInit(_) => "AdapterInit".into(),
        DecodingUTF8 => "DecodingUTF8".into(),
        InvalidScopeString(_) => "InvalidScopeString".into(),
        UnrecognizedCriticalExtension(_) => "UnrecognizedCriticalExtension".into(),
        EmptyUnixPath => "EmptyUnixPath".into(),
        PortInUnixPath => "PortInUnixPath".into(),
        MismatchedStreamType => "MismatchedStreamType".into(),
        #[allow(unreachable_patterns)]
        _ => "Other".into(),
    }
}
