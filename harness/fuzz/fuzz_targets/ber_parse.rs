#![no_main]
//! C07 differential lane: where the independent reader says "valid definite BER, tags <= 30",
//! lber must return the same tree and the same rest.
use libfuzzer_sys::fuzz_target;
fuzz_target!(|data: &[u8]| { ldap3_verif::fuzzglue::run("C07", data, |d, o| ldap3_verif::props::c07::diff_bytes(d, o)); });
