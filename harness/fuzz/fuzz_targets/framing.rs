#![no_main]
//! C06: bytes -> (messages, partition) -> the decoder-lane oracle.
use libfuzzer_sys::fuzz_target;
fuzz_target!(|data: &[u8]| { ldap3_verif::fuzzglue::run("C06", data, |d, o| ldap3_verif::props::c06::fuzz_entry(d, o)); });
