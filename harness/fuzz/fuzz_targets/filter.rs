#![no_main]
//! C08: all four clauses on an arbitrary byte string.
use libfuzzer_sys::fuzz_target;
fuzz_target!(|data: &[u8]| { ldap3_verif::fuzzglue::run("C08", data, |d, o| ldap3_verif::props::c08::judge(d, o).map(|_| ())); });
