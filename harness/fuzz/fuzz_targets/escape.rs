#![no_main]
//! C09: escape-then-parse round trip on any UTF-8 string.
use libfuzzer_sys::fuzz_target;
fuzz_target!(|data: &[u8]| {
    if let Ok(s) = std::str::from_utf8(data) {
        if s.len() <= 64 {
            ldap3_verif::fuzzglue::run("C09", data, |_, o| ldap3_verif::props::c09::check_string(s, o));
        }
    }
});
