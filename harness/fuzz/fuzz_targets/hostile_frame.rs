#![no_main]
//! C11 decoder lane: never a panic, no "need more" on a complete outer frame, exact consumption.
use libfuzzer_sys::fuzz_target;
fuzz_target!(|data: &[u8]| { ldap3_verif::fuzzglue::run("C11", data, |d, o| ldap3_verif::props::c11::judge_decoder(d, o)); });
